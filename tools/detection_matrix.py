#!/venv/bin/python
"""Developer tool: print the markdown table of seeded changes (seeded/*/meta.json) for DESIGN 8.4."""
import glob, json, os
rows = []
for d in sorted(glob.glob("/verif/seeded/*")):
    m = json.load(open(os.path.join(d, "meta.json")))
    det = m["detection"]
    status = "caught" if det.startswith("CAUGHT") else ("caught after strengthening" if det.startswith("MISSED") and "CAUGHT" in det else "missed")
    rows.append("| %s | %s | %s | %s |" % (os.path.basename(d), m["needs_to_manifest"].replace("|", "/"), status, det.replace("|", "\\|")))
print("| seeded change | what it needs to manifest | result | detail |\n|---|---|---|---|")
print("\n".join(rows))
