#!/venv/bin/python
"""Developer tool: print the markdown table of seeded changes (seeded/*/meta.json) for DESIGN 8.4."""
import glob, json, os
rows = []
for d in sorted(glob.glob("/verif/seeded/*")):
    m = json.load(open(os.path.join(d, "meta.json")))
    det = m["detection"]
    if det.startswith("CAUGHT"):
        status = "caught"
    elif det.startswith("first run ended in HARNESS-ERROR") and "CAUGHT" in det:
        status = "caught after correcting the check"
    elif det.startswith("first reported only through") and "CAUGHT" in det:
        status = "caught after correcting the check"
    elif det.startswith("MISSED") and "CAUGHT" in det:
        status = "caught after strengthening"
    elif det.startswith("not a C"):
        status = "property not broken (reported by another check)"
    else:
        status = "missed"
    rows.append("| %s | %s | %s | %s |" % (os.path.basename(d), m["needs_to_manifest"].replace("|", "/"), status, det.replace("|", "\\|")))
print("| seeded change | what it needs to manifest | result | detail |\n|---|---|---|---|")
print("\n".join(rows))
