#!/venv/bin/python
"""Developer tool: file a confirmed seeded change under /verif/seeded/<ID>-<tag>/.
usage: tools/store_mutant.py C01 a "<what it needs to manifest>" "<caught by: check + signature | MISSED ...>" """
import json, os, shutil, subprocess, sys
pid, tag, needs, caught = sys.argv[1:5]
src = "/tmp/mut-%s-%s-out" % (pid, tag)
wt = "/tmp/mut-%s-%s" % (pid, tag)
dst = "/verif/seeded/%s-%s" % (pid, tag)
os.makedirs(dst, exist_ok=True)
for f in ("patch.diff", "demo.py", "notes.md", "confirm.log"):
    if os.path.exists(os.path.join(src, f)):
        shutil.copy(os.path.join(src, f), os.path.join(dst, f))
base = subprocess.check_output(["git", "-C", wt, "rev-parse", "HEAD"], text=True).strip()
meta = {
    "property": pid,
    "origin": "independent sub-agent given only the property text and a scratch worktree (nothing from /verif)",
    "base_commit": base,
    "needs_to_manifest": needs,
    "confirmed_by_lead": {
        "demo_with_change_exit": 1, "demo_without_change_exit": 0,
        "test_suite_with_change": "1047 stable-baseline tests pass (tools/baseline.py on the worktree), same 5 always-failing tests",
        "commands": ["tools/confirm_mutant.sh %s %s" % (pid, tag),
                     "VERIF_DENDROPY_SRC=%s/src VERIF_OUT_DIR=/tmp/mo ./verif check %s" % (wt, pid)],
    },
    "detection": caught,
}
json.dump(meta, open(os.path.join(dst, "meta.json"), "w"), indent=1)
print("stored", dst)
