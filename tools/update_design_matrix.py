#!/venv/bin/python
"""Developer tool: refresh the seeded-change table inside DESIGN.md section 8.4 (between the markers)."""
import subprocess
p = "/verif/DESIGN.md"
s = open(p).read()
tab = subprocess.check_output(["/verif/tools/detection_matrix.py"], text=True)
start = s.index("| seeded change | what it needs to manifest |")
end = s.index("\nHand-made mutants", start)
s = s[:start] + tab + s[end:]
open(p, "w").write(s)
print("updated")
