#!/bin/sh
# Developer tool: re-run every seeded change against the current /repo HEAD in a scratch worktree
# (never in /repo itself) and record whether the property's quick check reports it.
# usage: tools/rerun_seeded.sh [ids...]
cd /verif || exit 2
IDS="$@"; [ -z "$IDS" ] && IDS=$(ls seeded)
for id in $IDS; do
  prop=${id%-*}
  wt=/tmp/rs-$id
  git -C /repo worktree add -q --detach $wt HEAD || continue
  if git -C $wt apply /verif/seeded/$id/patch.diff 2>/dev/null; then
    VERIF_DENDROPY_SRC=$wt/src VERIF_OUT_DIR=/tmp/rs-out-$id ./verif check $prop > /tmp/rs-$id.log 2>&1
    rc=$?
    nv=$(grep -c '^VIOLATION' /tmp/rs-$id.log)
    echo "$id HEAD=$(git -C /repo rev-parse --short HEAD) exit=$rc violations=$nv $(grep 'signature:' /tmp/rs-$id.log | head -3 | tr -s ' ' | tr '\n' ';')" | tee /verif/seeded/$id/last_run.txt
  else
    echo "$id HEAD=$(git -C /repo rev-parse --short HEAD) patch does not apply to HEAD (superseded by a repair)" | tee /verif/seeded/$id/last_run.txt
  fi
  git -C /repo worktree remove --force $wt; rm -rf /tmp/rs-out-$id /tmp/rs-$id.log
done
