#!/venv/bin/python
"""Developer tool (never run by a check): add the violations currently in replays/<ID>/ to
known_findings.json as known findings.  usage: tools/add_known.py C20 [signature-substring ...]
Descriptions are edited by hand afterwards."""
import glob
import json
import sys

pid = sys.argv[1]
subs = sys.argv[2:]
kf = json.load(open("known_findings.json"))
have = {(e["property"], e["signature"]) for e in kf["findings"]}
for f in sorted(glob.glob("replays/%s/*.json" % pid)):
    d = json.load(open(f))
    if subs and not any(s in d["signature"] for s in subs):
        continue
    if (pid, d["signature"]) in have:
        continue
    kf["findings"].append({"property": pid, "signature": d["signature"], "description": d["message"][:300], "witness": d["case"]})
    print("added", d["signature"])
json.dump(kf, open("known_findings.json", "w"), indent=1)
