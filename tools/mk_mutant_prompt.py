#!/venv/bin/python
"""Developer tool: create a scratch worktree and the prompt for an independent mutant-writing sub-agent.
usage: tools/mk_mutant_prompt.py C01 a   -> prints prompt path"""
import json, subprocess, sys, os
pid, tag = sys.argv[1], sys.argv[2]
wt = "/tmp/mut-%s-%s" % (pid, tag)
out = "/tmp/mut-%s-%s-out" % (pid, tag)
if not os.path.isdir(wt):
    subprocess.check_call(["git", "-C", "/repo", "worktree", "add", "-q", "--detach", wt, "HEAD"])
props = {json.loads(l)["id"]: json.loads(l) for l in open("/verif/properties.jsonl") if l.strip()}
p = props[pid]
t = open("/verif/docs/mutant_agent_prompt_template.txt").read()
t = t.replace("@@WT@@", wt).replace("@@OUT@@", out).replace("@@ID@@", pid).replace("@@TITLE@@", p["title"])
t = t.replace("@@STATEMENT@@", p["statement"]).replace("@@QUANT@@", p["quantifier"]["text"])
hint = sys.argv[3] if len(sys.argv) > 3 else ""
if hint:
    t += "\nAdditional steer for this assignment: " + hint + "\n"
path = "/tmp/mutprompt-%s-%s.txt" % (pid, tag)
open(path, "w").write(t)
print(path)
