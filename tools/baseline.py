#!/venv/bin/python
"""Developer tool: run the repository's pinned test suite (guard off - there are no hooks)
against a source tree and compare with /root/.vp/BASELINE.json.
usage: tools/baseline.py [repo_dir] [-n PROCS]   (default /repo)
Exit 0 iff every stable_pass test passes."""
import json
import os
import subprocess
import sys
import tempfile
import xml.etree.ElementTree as ET

repo = sys.argv[1] if len(sys.argv) > 1 and not sys.argv[1].startswith("-") else "/repo"
base = json.load(open("/root/.vp/BASELINE.json"))
stable = set(base["stable_pass"])
fd, junit = tempfile.mkstemp(suffix=".xml")
os.close(fd)
env = dict(os.environ)
env["PYTHONPATH"] = os.path.join(repo, "src")
cmd = ["/venv/bin/python", "-m", "pytest", "-q", "-p", "no:cacheprovider", "--timeout=900", "--continue-on-collection-errors",
       "--junitxml=" + junit] + [a for a in sys.argv[2:]]
r = subprocess.run(cmd, cwd=repo, env=env, capture_output=True, text=True)
passed = set()
failed = set()
for tc in ET.parse(junit).getroot().iter("testcase"):
    name = "%s::%s" % (tc.get("classname"), tc.get("name"))
    if any(ch.tag in ("failure", "error") for ch in tc):
        failed.add(name)
    elif not any(ch.tag == "skipped" for ch in tc):
        passed.add(name)
os.unlink(junit)
missing = sorted(stable - passed)
print("passed %d, failed %d, stable baseline %d, baseline tests not passing: %d" % (len(passed), len(failed), len(stable), len(missing)))
for m in missing[:40]:
    print("  NOT PASSING:", m)
print(r.stdout[-600:])
sys.exit(1 if missing else 0)
