#!/bin/sh
# Developer tool: confirm a seeded change independently.
# usage: tools/confirm_mutant.sh <ID> <tag>   (expects /tmp/mut-<ID>-<tag> worktree with the change applied and /tmp/mut-<ID>-<tag>-out)
ID=$1; TAG=$2; WT=/tmp/mut-$ID-$TAG; OUT=$WT-out; LOG=$OUT/confirm.log
cd /verif || exit 2
{
echo "== demo with change"; PYTHONPATH=$WT/src /venv/bin/python $OUT/demo.py > $OUT/demo_with.txt 2>&1; echo "exit $?"
echo "== demo without change (git stash)"; git -C $WT stash -q; PYTHONPATH=$WT/src /venv/bin/python $OUT/demo.py > $OUT/demo_without.txt 2>&1; echo "exit $?"; git -C $WT stash pop -q
echo "== patch check"; git -C $WT diff > $OUT/patch.check.diff; cmp $OUT/patch.diff $OUT/patch.check.diff && echo "patch.diff matches worktree diff"
echo "== test suite with change"; /verif/tools/baseline.py $WT | head -3
} > $LOG 2>&1
cat $LOG
