#!/venv/bin/python
"""Developer tool: record a repaired defect.  usage: tools/add_fixed.py C10 <commit> '<signature>' '<what failed>'"""
import json
import sys
pid, commit, sig, what = sys.argv[1:5]
kf = json.load(open("known_findings.json"))
kf["findings"] = [e for e in kf["findings"] if not (e["property"] == pid and e["signature"] == sig and not e.get("fixed"))]
kf["findings"].append({"fixed": True, "property": pid, "commit": commit, "signature": sig, "description": what})
kf.setdefault("fixed", []).append("fixed: property=%s %s %s" % (pid, commit, what))
json.dump(kf, open("known_findings.json", "w"), indent=1)
