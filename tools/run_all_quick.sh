#!/bin/sh
# Developer tool: run every quick check against /repo and summarise (evidence files are rewritten).
cd /verif || exit 2
for p in $(./verif list); do
  /usr/bin/time -f "%e s wall %U s user" -o /tmp/raq-$p.time ./verif check $p > /tmp/raq-$p.out 2>&1
  rc=$?
  echo "$p rc=$rc known=$(grep -c '^KNOWN-FINDING' /tmp/raq-$p.out) viol=$(grep -c '^VIOLATION' /tmp/raq-$p.out) warn=$(grep -c 'HARNESS' /tmp/raq-$p.out) $(cat /tmp/raq-$p.time | tail -1)"
done
