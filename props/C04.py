"""C04 - tree-to-tree distances equal their split-set definitions and are true metrics
(DESIGN 3/C04).

Engine E1 (exhaustive enumeration of pairs / triples / re-drawings / length patterns /
namespace configurations) plus E2-style short histories [op, edit, distance] for the
staleness clause.  Every library call gets freshly built trees (the distance functions
re-encode and thereby restructure their arguments); the reference is computed from
snapshots taken before the call, in plain Python, from the split-set definitions.
"""
import functools
import itertools
import math
import warnings

import dendropy
from dendropy.calculate import treecompare
from dendropy.utility import deprecate

# the deprecated Tree.* aliases are called on purpose; keep the library's warning text off stderr
deprecate.configure_deprecation_warning_behavior("ignore")

from mc import ref, build
from mc import universe as U

ID = "C04"
LEVEL = "exploration"
EXHAUSTIVE = True
RULE = ("ordered pairs (a, b) of trees over one namespace and leaf set: all of U(n) x U(n) per rooting state up to the "
        "tier bound, x edge-length patterns (unit, pre-order index, non-dyadic, every {1,2} assignment, every single "
        "missing length / all missing, every {0,1} assignment, an exact 0 / 0.0 on every single edge, polytomies "
        "resolved by zero-length edges in every way), x re-drawings of b (reversed / all child orders, every seed position of the "
        "unrooted tree, unifurcation chains), x namespace configurations, x the five public functions and their "
        "aliases; all triples of U(4) (thorough: binary U(5)) for the triangle inequality; all histories "
        "[encode | distance, one edit with every target, distance]; pairs over two namespaces.  A case = one pair of "
        "drawings evaluated with a group of functions (or one triple, or one history); non-trivial = both trees "
        "have >= 3 leaves.  Plus a 'large representatives' layer that is exhaustive only over the finite set listed in "
        "bounds()['large_representatives'] (ladders, balanced trees, stars, a broom, 12-100 leaves)")
ASSUMPTIONS = [
    "reference split set of a rooted tree = set of clades of all nodes (seed included); of an unrooted (or rooting-undefined) tree = set of two-sided leaf bipartitions {side, rest} with both sides non-empty; computed from Node._child_nodes snapshots by mc/ref.py",
    "reference length of a split = sum of the lengths of all edges inducing it (unifurcation chains, the two edges at an unrooted basal bifurcation); absent split = 0",
    "the seed edge of a rooted tree carries the split 'all leaves' (present in every tree), so its length enters the norms; for unrooted trees both readings (seed edge counted / not counted) are accepted and the seed edge has no length in all main patterns",
    "a missing length (None) on the seed edge is not a 'missing edge length' (every parsed tree has it); where the library does not refuse trees with missing lengths the value is compared with the reference reading None as 0 (reported under its own signature)",
    "Bipartition objects returned by find_missing_bipartitions are read through their leafset bitmask with the harness's own taxon->bit record",
    "exact equality for integer / dyadic lengths in the L1 norm; relative tolerance 1e-9 for the L2 norm and non-dyadic lengths",
    "refusal of trees over different namespaces = any exception; returning a value is the violation",
]
MANIFEST = {
    "engine": "E1-ENUM",
    "text": "Every ordered pair of trees of the stated universe (all shapes, both rooting states, stated length patterns, "
            "every re-drawing) is handed to the five treecompare functions on freshly built objects and compared with the "
            "split-set / norm definitions evaluated by an independent reference; metric axioms are checked on the library's "
            "own values over all triples; every one-edit history is checked for stale bipartition data; definedness is "
            "checked for both argument orders; foreign namespaces must be refused.",
    "note": "trusted: mc/ref.py clade computation, mc/build.py construction through the Node API, Python float arithmetic",
    "technique": "bounded exhaustive enumeration against a reference model",
}

TC = treecompare

UNWEIGHTED = ("sd", "fpfn", "missing")
WEIGHTED = ("wrf", "euc")
CORE = UNWEIGHTED + WEIGHTED
ALIASES_U = ("urf", "Tree.sd", "Tree.fpfn")
ALIASES_W = ("legacy_rf", "Tree.rf", "Tree.euc")
NAMES = {
    "sd": "symmetric_difference",
    "fpfn": "false_positives_and_negatives",
    "missing": "find_missing_bipartitions",
    "wrf": "weighted_robinson_foulds_distance",
    "euc": "euclidean_distance",
    "urf": "unweighted_robinson_foulds_distance",
    "legacy_rf": "robinson_foulds_distance",
    "Tree.sd": "Tree.symmetric_difference",
    "Tree.fpfn": "Tree.false_positives_and_negatives",
    "Tree.rf": "Tree.robinson_foulds_distance",
    "Tree.euc": "Tree.euclidean_distance",
}
KIND = {"sd": "sd", "urf": "sd", "Tree.sd": "sd", "fpfn": "fpfn", "Tree.fpfn": "fpfn", "missing": "missing",
        "wrf": "wrf", "legacy_rf": "wrf", "Tree.rf": "wrf", "euc": "euc", "Tree.euc": "euc"}


def bounds(tier):
    b = _bounds(tier)
    big = big_set()
    b["keyword_options"] = {
        "edge_weight_attr": "'weight' set by the harness on every edge; weighted_robinson_foulds_distance, euclidean_distance, "
                            "robinson_foulds_distance; drawings with one edge per split, n = 3, 4 all ordered pairs (n = 5 "
                            "against 4 fixed partners): weights != lengths on every edge (two integer patterns with exact "
                            "zeros, one float pattern, every {0,1} assignment), lengths all missing, every single / all / "
                            "internal / leaf weights missing in both argument orders",
        "value_type": "int (euclidean_distance; integer weights, integer lengths) besides the float default",
        "is_bipartitions_updated": "True after a fresh explicit encode (all functions incl. the unweighted alias, also combined "
                                   "with edge_weight_attr / value_type) and True on never-encoded trees, besides the default False",
        "Tree_methods": "take no options"}
    b["large_representatives"] = {
        "note": "exhaustive over this stated set only (both tiers): every ordered pair of equal-size trees, all five "
                "functions, unit and cyclic 1-2-3 lengths, both rootings; triangle inequality on all triples of equal-size "
                "trees; each tree against itself, its reversed drawing, re-seedings at the first/middle/last internal "
                "node and edge (unrooted), up to three NNI-like rearrangements, four one-edit histories, one "
                "foreign-namespace call; labels t000..tNNN",
        "trees": {name: len(U.shape_leaves(sh)) for name, sh in big.items()}}
    return b


def _bounds(tier):
    if tier == "quick":
        return {"pairs_all_functions_max_leaves": 5, "pairs_unweighted_binary_leaves": None,
                "x12_full_product_max_leaves": 3, "x12_vs_fixed_leaves": 4,
                "redraw_all_partners_max_leaves": 4, "redraw_few_partners_leaves": 5,
                "triples": "U(4)^3", "history_max_leaves": 4, "history_all_partners_max_leaves": 3,
                "missing_length_max_leaves": 4, "ns_configs": build.NS_CONFIGS, "foreign_ns_max_leaves": 4,
                "x01_full_product_max_leaves": 3, "x01_vs_fixed_leaves": 4, "x01_float_zero_max_leaves": 3,
                "zero_on_one_edge_max_leaves": 4, "zero_on_one_edge_binary_leaves": None,
                "zero_resolved_polytomies_max_leaves": 5, "zero_resolved_all_partners_max_leaves": 4}
    return {"pairs_all_functions_max_leaves": 5, "pairs_unweighted_binary_leaves": 6,
            "x12_full_product_max_leaves": 4, "x12_vs_fixed_leaves": None,
            "redraw_all_partners_max_leaves": 5, "redraw_few_partners_leaves": None,
            "triples": "U(4)^3 and binary U(5)^3", "history_max_leaves": 5, "history_all_partners_max_leaves": 4,
            "missing_length_max_leaves": 5, "ns_configs": build.NS_CONFIGS, "foreign_ns_max_leaves": 5,
            "x01_full_product_max_leaves": 4, "x01_vs_fixed_leaves": None, "x01_float_zero_max_leaves": 3,
            "zero_on_one_edge_max_leaves": 4, "zero_on_one_edge_binary_leaves": 5,
            "zero_resolved_polytomies_max_leaves": 5, "zero_resolved_all_partners_max_leaves": 5}


def tup(x):
    if isinstance(x, list):
        return tuple(tup(y) for y in x)
    return x


# ---------------------------------------------------------------------------
# length patterns (callables for ref.mk: (preorder index, is_leaf, depth) -> length)

def _unit(i, leaf, depth):
    return None if depth == 0 else 1


def _idx(i, leaf, depth):
    return None if depth == 0 else i + 1


def _idx_rev(i, leaf, depth):
    return None if depth == 0 else 9 - i


def _nd(i, leaf, depth):
    return None if depth == 0 else 0.1 * (i + 1)


def _alt(i, leaf, depth):
    return None if depth == 0 else (1, 2)[i % 2]


def _rootunit(i, leaf, depth):
    return 1


def _alt01(i, leaf, depth):
    return None if depth == 0 else (0, 1)[i % 2]


PATTERNS = {"unit": _unit, "idx": _idx, "idxrev": _idx_rev, "nd": _nd, "alt": _alt, "none": None, "rootunit": _rootunit,
            "alt01": _alt01}
DYADIC = {"unit", "idx", "idxrev", "alt", "x12", "rootunit", "alt01"}


def snap(shape, pattern):
    return ref.mk(shape, lens=PATTERNS[pattern])


def count_shape_nodes(s):
    return sum(1 for _ in U.paths(s))


def x12_snaps(shape, roots=(None,), alphabet=(1, 2)):
    """every assignment of `alphabet` ({1,2}; {0,1} for the exact-zero layer) to every
    non-seed edge x every seed-edge length in `roots`"""
    m = count_shape_nodes(shape)
    out = []
    for combo in itertools.product(tuple(alphabet), repeat=m - 1):
        for r in roots:
            out.append(ref.mk(shape, lens=[r] + list(combo)))
    return out


def set_len(sn, path, value):
    if not path:
        return (sn[0], sn[1], value, sn[3])
    i = path[0]
    kids = sn[3]
    return (sn[0], sn[1], sn[2], kids[:i] + (set_len(kids[i], path[1:], value),) + kids[i + 1:])


def sn_paths(sn, prefix=()):
    yield prefix
    for i, c in enumerate(sn[3]):
        for p in sn_paths(c, prefix + (i,)):
            yield p


def sn_at(sn, path):
    for i in path:
        sn = sn[3][i]
    return sn


def missing_variants(shape):
    """unit-length drawing with: each single non-seed length missing; all missing; all
    internal missing; all leaf lengths missing"""
    base = snap(shape, "unit")
    out = []
    for p in sn_paths(base):
        if p:
            out.append(("one", set_len(base, p, None)))
    out.append(("all", snap(shape, "none")))
    out.append(("internal", ref.mk(shape, lens=lambda i, leaf, d: 1 if leaf else None)))
    out.append(("leaves", ref.mk(shape, lens=lambda i, leaf, d: None if (leaf or d == 0) else 1)))
    seen = set()
    res = []
    for tag, s in out:
        if s not in seen:
            seen.add(s)
            res.append((tag, s))
    return res


# ---------------------------------------------------------------------------
# large representatives (a stated finite set; the layer is exhaustive over that set only)

def labels_for(n):
    """a..h for the small universe, t000..tNNN for the large representatives (n > 8)"""
    if n <= len(U.LABELS):
        return U.LABELS[:n]
    return ["t%03d" % i for i in range(n)]


def ladder_left(n):
    s = 0
    for i in range(1, n):
        s = (s, i)
    return s


def ladder_right(n):
    s = n - 1
    for i in range(n - 2, -1, -1):
        s = (i, s)
    return s


def balanced(lo, hi):
    if hi - lo == 1:
        return lo
    mid = (lo + hi + 1) // 2
    return (balanced(lo, mid), balanced(mid, hi))


def broom(k, m):
    """right-leaning ladder of k tips ending in a star of m tips"""
    s = tuple(range(k, k + m))
    for i in range(k - 1, -1, -1):
        s = (i, s)
    return s


BIG_FAMILY_SIZES = (16, 32, 33, 64, 65)     # ladder / right-ladder / (near-)balanced / star of equal size


def big_set():
    """name -> shape; the stated finite set of large inputs"""
    out = {}
    for n in (12, 17, 33, 40, 65) + BIG_FAMILY_SIZES:
        out["ladderL%d" % n] = ladder_left(n)
        out["ladderR%d" % n] = ladder_right(n)
    for n in (16, 32, 64) + BIG_FAMILY_SIZES:
        out["balanced%d" % n] = balanced(0, n)
    for n in (12, 33, 40, 100) + BIG_FAMILY_SIZES:
        out["star%d" % n] = tuple(range(n))
    out["broom20+40"] = broom(20, 40)
    return dict(sorted(out.items()))


def _cyc123(i, leaf, depth):
    return None if depth == 0 else (1, 2, 3)[i % 3]


def big_snap(shape, pattern):
    n = len(U.shape_leaves(shape))
    return ref.mk(shape, lens=_cyc123 if pattern == "cyc123" else _unit, labels=labels_for(n))


def nni_variants(shape):
    """one NNI-like local rearrangement each: at the first / middle / last internal edge
    (v -> c, c internal) exchange c's first child with a sibling of c"""
    sites = []
    for p in U.paths(shape):
        v = U.at(shape, p)
        if isinstance(v, int):
            continue
        for i, c in enumerate(v):
            if not isinstance(c, int):
                sites.append((p, i))
    out = []
    for k in sorted(set([0, len(sites) // 2, len(sites) - 1])) if sites else []:
        p, i = sites[k]
        v = U.at(shape, p)
        j = (i + 1) % len(v)
        c, sib = v[i], v[j]
        newc = (sib,) + c[1:]
        kids = list(v)
        kids[i] = newc
        kids[j] = c[0]
        new = U.replace_at(shape, p, tuple(kids))
        if new not in out and new != shape:
            out.append(new)
    return out


def pick3(lst):
    return [lst[k] for k in sorted(set([0, len(lst) // 2, len(lst) - 1]))] if lst else []


# ---------------------------------------------------------------------------
# re-drawings on snapshots, preserving the per-split merged lengths

def rev(sn):
    return (sn[0], sn[1], sn[2], tuple(rev(c) for c in reversed(sn[3])))


def apply_order(sn, oshape):
    """re-order the children of sn like the shape `oshape` (an ordering of sn's shape)"""
    if isinstance(oshape, int):
        return sn
    by_min = {}
    for c in sn[3]:
        by_min[min(x for x in ref.leaves(c))] = c
    kids = []
    for oc in oshape:
        key = U.LABELS[min(U.shape_leaves(oc))]
        kids.append(apply_order(by_min[key], oc))
    return (sn[0], sn[1], sn[2], tuple(kids))


def _graph(sn):
    """unrooted graph of a clean snapshot (no unifurcations): adjacency {v: {w: length}},
    leaf labels; a degree-two seed is suppressed (its two edge lengths added)."""
    adj = {}
    leaf = {}
    counter = [0]

    def rec(nd, parent):
        v = counter[0]
        counter[0] += 1
        adj[v] = {}
        if parent is not None:
            adj[v][parent] = nd[2]
            adj[parent][v] = nd[2]
        if not nd[3]:
            leaf[v] = nd[0]
        for c in nd[3]:
            rec(c, v)
        return v
    root = rec(sn, None)
    if len(adj[root]) == 2:
        (a, la), (b, lb) = sorted(adj[root].items())
        L = None if (la is None and lb is None) else (la or 0) + (lb or 0)
        del adj[a][root]
        del adj[b][root]
        adj[a][b] = L
        adj[b][a] = L
        del adj[root]
    return adj, leaf


def _draw(adj, leaf, v, parent, length):
    if v in leaf:
        return (leaf[v], None, length, ())
    return (None, None, length, tuple(_draw(adj, leaf, w, v, adj[v][w]) for w in sorted(adj[v]) if w != parent))


def redraw_unrooted(sn, fractions=((1, 1),)):
    """all drawings of the unrooted tree of clean snapshot `sn`: seeded at every internal
    node, and with a basal bifurcation on every edge whose length L is divided p:q for every
    (p, q) in `fractions`."""
    if not sn[3]:
        return [sn]
    adj, leaf = _graph(sn)
    out = []
    seen = set()

    def add(x):
        if x not in seen:
            seen.add(x)
            out.append(x)
    for v in sorted(adj):
        if v not in leaf:
            add(_draw(adj, leaf, v, None, None))
    for u in sorted(adj):
        for v in sorted(adj[u]):
            if u < v:
                L = adj[u][v]
                for p, q in fractions:
                    if L is None:
                        l1 = l2 = None
                    else:
                        l1 = L * p / float(p + q)
                        l2 = L - l1
                    add((None, None, None, (_draw(adj, leaf, u, v, l1), _draw(adj, leaf, v, u, l2))))
    return out


def unif_variants(sn, max_insertions, chains):
    """insert chains of out-degree-one nodes above nodes of sn (seed included); the
    node's length is shared out equally over the chain so merged lengths are kept."""
    plist = list(sn_paths(sn))
    out = []

    def insert(t, p, k):
        nd = sn_at(t, p)
        L = nd[2]
        part = None if L is None else L / float(k + 1)
        new = (nd[0], nd[1], part, nd[3])
        for _ in range(k):
            new = (None, None, part, (new,))
        return _replace(t, p, new)
    for m in range(1, max_insertions + 1):
        for sub in itertools.combinations(plist, m):
            for ks in itertools.product(chains, repeat=m):
                t = sn
                for p, k in sorted(zip(sub, ks), key=lambda x: (-len(x[0]), x[0])):
                    t = insert(t, p, k)
                out.append(t)
    return out


def _replace(sn, path, new):
    if not path:
        return new
    i = path[0]
    kids = sn[3]
    return (sn[0], sn[1], sn[2], kids[:i] + (_replace(kids[i], path[1:], new),) + kids[i + 1:])


def has_unif(sn):
    return any(len(nd[3]) == 1 for nd in ref.preorder(sn))


# ---------------------------------------------------------------------------
# reference model

@functools.lru_cache(maxsize=200000)
def R(sn, rooted):
    """(split set, {split: merged length, None as 0}, splits with a missing non-seed length,
    merged seed-edge length)"""
    allc = ref.clade(sn)
    lens = {}
    miss = set()
    rootlen = 0
    for cl, nd in ref.clade_list(sn):
        L = nd[2]
        if cl == allc:
            rootlen += (L or 0)
            if rooted:
                lens[cl] = lens.get(cl, 0) + (L or 0)
            continue
        if not cl:
            continue
        key = cl if rooted else frozenset([cl, allc - cl])
        if L is None:
            miss.add(key)
        lens[key] = lens.get(key, 0) + (L or 0)
    return frozenset(lens), lens, frozenset(miss), rootlen


def expected(kind, sa, sb, rooted):
    """list of acceptable values"""
    Sa, La, _, ra = R(sa, rooted)
    Sb, Lb, _, rb = R(sb, rooted)
    if kind == "sd":
        return [len(Sa ^ Sb)]
    if kind == "fpfn":
        return [(len(Sb - Sa), len(Sa - Sb))]
    if kind == "missing":
        return [Sa - Sb]
    diffs = [La.get(k, 0) - Lb.get(k, 0) for k in sorted(Sa | Sb, key=_skey)]
    alts = [diffs]
    if not rooted and ra != rb:
        alts.append(diffs + [ra - rb])
    if kind == "wrf":
        return [sum(abs(d) for d in ds) for ds in alts]
    return [math.sqrt(sum(d * d for d in ds)) for ds in alts]


def _skey(k):
    if k and isinstance(next(iter(k)), frozenset):
        return sorted(sorted(s) for s in k)
    return [sorted(k)]


def value_ok(kind, got, exps, exact):
    for e in exps:
        if kind in ("sd", "fpfn", "missing"):
            if got == e:
                return True
        elif kind == "wrf" and exact:
            if got == e:
                return True
        else:
            if isinstance(got, (int, float)) and ref.feq(got, e):
                return True
    return False


def strip_unif(sn):
    while len(sn[3]) == 1:
        sn = sn[3][0]
    return (sn[0], sn[1], sn[2], tuple(strip_unif(c) for c in sn[3]))


def feature(rooted, sa, sb):
    """distinguishing feature of the witness, for the signature"""
    if not rooted and nleaves(sa) == 2:
        return "two-leaf-tree"   # an unrooted two-leaf tree has no drawing without a degree-two seed
    basal = (not rooted) and (len(strip_unif(sa)[3]) == 2 or len(strip_unif(sb)[3]) == 2)
    if has_unif(sa) or has_unif(sb):
        return "unifurcation-and-basal-bifurcation" if basal else "unifurcation"
    if basal:
        return "basal-bifurcation"
    return "plain"


def nwk(sn):
    """newick text for messages and samples (long trees abbreviated; the case dict has the full tree)"""
    s = ref.to_newick(sn)
    return s if len(s) <= 240 else s[:200] + "...[%d leaves]" % nleaves(sn)


def rootname(rooted):
    return "rooted" if rooted else ("unrooted" if rooted is False else "rooting-undefined")


def show(x):
    if isinstance(x, frozenset):
        return sorted((show(y) for y in x), key=repr)
    if isinstance(x, (set, list, tuple)):
        return [show(y) for y in x]
    return x


# ---------------------------------------------------------------------------
# observation

class Env(object):
    """namespace + harness bit record for one (labels, config)"""
    _cache = {}

    def __init__(self, n, cfg):
        self.labels = labels_for(n)
        self.ns, self.bit = build.make_namespace(self.labels, cfg)
        self.cfg = cfg
        self.bylabel = sorted(self.bit.items(), key=lambda kv: kv[1])

    @classmethod
    def get(cls, n, cfg="exact"):
        k = (n, cfg)
        if k not in cls._cache:
            cls._cache[k] = Env(n, cfg)
        return cls._cache[k]

    def labelset(self, mask):
        return frozenset(l for l, i in self.bylabel if mask & (1 << i))


def nleaves(sn):
    return len(ref.leaves(sn))


def call(fn, ta, tb, env, rooted, allc, updated=False):
    """run the library function, return the observable in reference vocabulary"""
    kw = {"is_bipartitions_updated": True} if updated else {}
    if fn == "sd":
        return TC.symmetric_difference(ta, tb, **kw)
    if fn == "urf":
        return TC.unweighted_robinson_foulds_distance(ta, tb, **kw)
    if fn == "fpfn":
        return tuple(TC.false_positives_and_negatives(ta, tb, **kw))
    if fn == "missing":
        res = TC.find_missing_bipartitions(ta, tb, **kw)
        out = set()
        for bp in res:
            cl = env.labelset(bp._leafset_bitmask)
            out.add(cl if rooted else frozenset([cl, allc - cl]))
        return frozenset(out)
    if fn == "wrf":
        return TC.weighted_robinson_foulds_distance(ta, tb, **kw)
    if fn == "euc":
        return TC.euclidean_distance(ta, tb, **kw)
    if fn == "legacy_rf":
        return TC.robinson_foulds_distance(ta, tb)
    with warnings.catch_warnings():
        warnings.simplefilter("ignore")
        if fn == "Tree.sd":
            return ta.symmetric_difference(tb)
        if fn == "Tree.fpfn":
            return tuple(ta.false_positives_and_negatives(tb))
        if fn == "Tree.rf":
            return ta.robinson_foulds_distance(tb)
        if fn == "Tree.euc":
            return ta.euclidean_distance(tb)
    raise ValueError(fn)


def fresh(env, rooted, sa, sb, prep):
    ta = build.build_tree((rooted, sa), env.ns)
    tb = build.build_tree((rooted, sb), env.ns)
    if prep == "encoded":
        ta.encode_bipartitions()
        tb.encode_bipartitions()
    return ta, tb


def pair_case(rooted, sa, sb, fns, cfg, prep, both=False):
    return {"kind": "pair", "rooted": rooted, "a": sa, "b": sb, "fns": list(fns), "ns": cfg, "prep": prep, "both": both}


def eval_pair(ctx, rooted, sa, sb, fns, cfg="exact", prep="fresh", exact=True):
    """complete-length domain: one call per function on fresh objects, value = reference,
    no exception allowed.  prep: 'fresh' (default arguments, never encoded), 'encoded'
    (explicit encode_bipartitions() first, then is_bipartitions_updated=True),
    'updated-unencoded' (is_bipartitions_updated=True on never-encoded trees)."""
    n = nleaves(sa)
    env = Env.get(n, cfg)
    allc = frozenset(env.labels)
    isr = bool(rooted)
    ctx.case(("pair", rooted, sa, sb, cfg, prep, fns), nontrivial=n >= 3, n=len(fns))
    for fn in fns:
        kind = KIND[fn]
        ta, tb = fresh(env, rooted, sa, sb, prep)
        try:
            got = call(fn, ta, tb, env, isr, allc, updated=(prep != "fresh"))
        except Exception as e:
            ctx.violation("%s|exception|%s" % (NAMES[fn], type(e).__name__),
                          "%s(%s, %s) [%s] raised %r" % (NAMES[fn], nwk(sa), nwk(sb), rootname(rooted), e),
                          pair_case(rooted, sa, sb, [fn], cfg, prep))
            continue
        exps = expected(kind, sa, sb, isr)
        if not value_ok(kind, got, exps, exact):
            ctx.violation("%s|value|%s|%s" % (NAMES[fn], rootname(rooted), feature(isr, sa, sb)),
                          "%s(%s, %s) [%s, %s] = %r, definition gives %r" % (
                              NAMES[fn], nwk(sa), nwk(sb), rootname(rooted), prep, show(got), show(exps[0])),
                          pair_case(rooted, sa, sb, [fn], cfg, prep))


def has_missing(sn, rooted):
    return bool(R(sn, rooted)[2])


def eval_pair_both(ctx, rooted, sa, sb, fns, cfg="exact"):
    """missing-length domain: both argument orders; definedness must be symmetric; where
    both are defined the values must agree with each other and with the reference reading
    None as 0."""
    n = nleaves(sa)
    env = Env.get(n, cfg)
    allc = frozenset(env.labels)
    isr = bool(rooted)
    ctx.case(("both", rooted, sa, sb, cfg, fns), nontrivial=n >= 3, n=2 * len(fns))
    for fn in fns:
        kind = KIND[fn]
        res = []
        for x, y in ((sa, sb), (sb, sa)):
            tx, ty = fresh(env, rooted, x, y, "fresh")
            try:
                res.append(("ok", call(fn, tx, ty, env, isr, allc)))
            except Exception as e:
                res.append(("exc", e))
        case = pair_case(rooted, sa, sb, [fn], cfg, "fresh", both=True)
        (s1, v1), (s2, v2) = res
        if kind in UNWEIGHTED:
            # missing lengths are irrelevant to the unweighted functions
            for (s, v), (x, y) in zip(res, ((sa, sb), (sb, sa))):
                if s == "exc":
                    ctx.violation("%s|exception|%s" % (NAMES[fn], type(v).__name__),
                                  "%s(%s, %s) raised %r" % (NAMES[fn], nwk(x), nwk(y), v), case)
                elif not value_ok(kind, v, expected(kind, x, y, isr), True):
                    ctx.violation("%s|value|%s|%s" % (NAMES[fn], rootname(rooted), feature(isr, x, y)),
                                  "%s(%s, %s) = %r, definition gives %r" % (
                                      NAMES[fn], nwk(x), nwk(y), show(v), show(expected(kind, x, y, isr)[0])), case)
            continue
        if (s1 == "ok") != (s2 == "ok"):
            ok_first = s1 == "ok"
            ctx.count("definedness_asymmetric_" + fn)
            ctx.violation("%s|definedness-asymmetric" % NAMES[fn],
                          "%s(A, B) %s but (B, A) %s; A=%s B=%s [%s]" % (
                              NAMES[fn],
                              ("returns %r" % (v1,)) if ok_first else ("raises %r" % (v1,)),
                              ("raises %r" % (v2,)) if ok_first else ("returns %r" % (v2,)),
                              nwk(sa), nwk(sb), rootname(rooted)), case)
            continue
        if s1 == "exc":
            ctx.count("refused_both_orders")
            if not (has_missing(sa, isr) or has_missing(sb, isr)):
                ctx.violation("%s|exception|%s" % (NAMES[fn], type(v1).__name__),
                              "%s refuses trees without missing lengths: %r" % (NAMES[fn], v1), case)
            continue
        ctx.count("defined_both_orders")
        if not ref.feq(v1, v2):
            ctx.violation("%s|asymmetric-value|missing-length" % NAMES[fn],
                          "%s(A,B)=%r, (B,A)=%r; A=%s B=%s [%s]" % (NAMES[fn], v1, v2, nwk(sa), nwk(sb), rootname(rooted)), case)
            continue
        exps = expected(kind, sa, sb, isr)
        if not value_ok(kind, v1, exps, False):
            feat = feature(isr, sa, sb)
            ctx.violation(("%s|value|%s|%s" if feat == "two-leaf-tree" else "%s|value|missing-length|%s|%s") % (
                              NAMES[fn], rootname(rooted), feat),
                          "%s(A,B)=%r in both orders, definition with missing length read as 0 gives %r; A=%s B=%s" % (
                              NAMES[fn], v1, exps[0], nwk(sa), nwk(sb)), case)


def eval_reorder(ctx, rooted, sa, sb, fns, cfg="exact"):
    """missing-length domain, no reading of None needed: reversing the child order of the
    first tree must change neither the value nor whether the call is refused (library
    value against library value, fresh objects)."""
    n = nleaves(sa)
    env = Env.get(n, cfg)
    allc = frozenset(env.labels)
    isr = bool(rooted)
    sr = rev(sa)
    if sr == sa:
        return
    ctx.case(("reorder", rooted, sa, sb, cfg, fns), nontrivial=n >= 3, n=4 * len(fns))
    for fn in fns:
        res = []
        for x, y in ((sa, sb), (sr, sb), (sb, sa), (sb, sr)):
            tx, ty = fresh(env, rooted, x, y, "fresh")
            try:
                res.append(("ok", call(fn, tx, ty, env, isr, allc)))
            except Exception as e:
                res.append(("exc", e))
        case = {"kind": "reorder", "rooted": rooted, "a": sa, "b": sb, "fns": [fn], "ns": cfg}
        feat = feature(isr, sa, sb)
        if feat == "two-leaf-tree":
            sig = "%s|value|%s|%s" % (NAMES[fn], rootname(rooted), feat)
        else:
            sig = "%s|child-order-dependent|missing-length|%s|%s" % (NAMES[fn], rootname(rooted), feat)
        for (s1, v1), (s2, v2), pos in ((res[0], res[1], "first"), (res[2], res[3], "second")):
            if (s1 == "ok") != (s2 == "ok"):
                ctx.violation(sig,
                              "%s with A as %s argument: %s, with A's child order reversed: %s; A=%s B=%s [%s]" % (
                                  NAMES[fn], pos, (s1, v1), (s2, v2), nwk(sa), nwk(sb), rootname(rooted)), case)
            elif s1 == "ok" and not ref.feq(v1, v2):
                ctx.violation(sig,
                              "%s with A as %s argument = %r, with A's child order reversed (%s) = %r; A=%s B=%s [%s]" % (
                                  NAMES[fn], pos, v1, nwk(sr), v2, nwk(sa), nwk(sb), rootname(rooted)), case)


# ---------------------------------------------------------------------------
# keyword options: edge_weight_attr, value_type (with is_bipartitions_updated)

OPT_FNS = ("wrf", "euc", "legacy_rf")


def set_weights(tree, wsn):
    """put the harness's custom attribute `weight` on every edge (parallel walk)"""
    def rec(nd, w):
        nd._edge.weight = w[2]
        kids = nd._child_nodes
        assert len(kids) == len(w[3])
        for c, wc in zip(kids, w[3]):
            rec(c, wc)
    rec(tree._seed_node, wsn)


def opt_call(fn, ta, tb, attr, vtype, updated):
    kw = {"edge_weight_attr": attr}
    if fn == "legacy_rf":
        return TC.robinson_foulds_distance(ta, tb, **kw)
    if updated:
        kw["is_bipartitions_updated"] = True
    if fn == "wrf":
        return TC.weighted_robinson_foulds_distance(ta, tb, **kw)
    if vtype == "int":
        kw["value_type"] = int
    return TC.euclidean_distance(ta, tb, **kw)


def opt_fresh(env, rooted, sx, sy, wx, wy, prep):
    tx = build.build_tree((rooted, sx), env.ns)
    ty = build.build_tree((rooted, sy), env.ns)
    set_weights(tx, wx)
    set_weights(ty, wy)
    if prep == "encoded":
        tx.encode_bipartitions()
        ty.encode_bipartitions()
    return tx, ty


def eval_opt(ctx, rooted, sa, sb, wa, wb, fns, attr="weight", vtype=None, prep="fresh", both=False):
    """the weighted distances with non-default keyword options.  sa, sb carry the edge
    lengths, wa, wb (same shapes) the custom attribute `weight`; the reference is the same
    L1 / L2 definition evaluated on the attribute named by `attr`.  Domain: one edge per
    split (no unifurcations, no unrooted basal bifurcation) - the library merges only
    .length when it suppresses nodes, a custom attribute has no defined merge.
    both=False: complete attribute values, no refusal allowed, value = definition.
    both=True: some values missing; both argument orders: refused for both or neither,
    where defined the values agree with each other and with the None-as-0 reading."""
    n = nleaves(sa)
    env = Env.get(n, "exact")
    isr = bool(rooted)
    ra, rb = (wa, wb) if attr == "weight" else (sa, sb)
    suffix = "|edge_weight_attr=%s" % attr if attr != "length" else ""
    if vtype:
        suffix += "|value_type=%s" % vtype
    if prep != "fresh":
        suffix += "|is_bipartitions_updated=True"
    ctx.case(("opt", rooted, sa, sb, wa, wb, fns, attr, vtype, prep, both), nontrivial=n >= 3, n=len(fns) * (2 if both else 1))
    for fn in fns:
        if vtype and fn != "euc":
            continue
        kind = KIND[fn]
        case = {"kind": "opt", "rooted": rooted, "a": sa, "b": sb, "wa": wa, "wb": wb, "fns": [fn], "attr": attr,
                "value_type": vtype, "prep": prep, "both": both}
        res = []
        for (sx, sy, wx, wy) in (((sa, sb, wa, wb), (sb, sa, wb, wa)) if both else ((sa, sb, wa, wb),)):
            tx, ty = opt_fresh(env, rooted, sx, sy, wx, wy, prep)
            try:
                res.append(("ok", opt_call(fn, tx, ty, attr, vtype, prep != "fresh")))
            except Exception as e:
                res.append(("exc", e))
        ctx.count("option_calls", len(res))
        exps = expected(kind, ra, rb, isr)
        if not both:
            st, v = res[0]
            if st == "exc":
                ctx.violation("%s|exception|%s%s" % (NAMES[fn], type(v).__name__, suffix),
                              "%s(A, B, edge_weight_attr=%r%s) raised %r; %s: A=%s B=%s [%s]" % (
                                  NAMES[fn], attr, ", value_type=int" if vtype else "", v, attr, nwk(ra), nwk(rb), rootname(rooted)), case)
            elif not value_ok(kind, v, exps, False):
                ctx.violation("%s|value|%s|%s%s" % (NAMES[fn], rootname(rooted), feature(isr, sa, sb), suffix),
                              "%s(A, B, edge_weight_attr=%r%s) [%s] = %r, definition on %s gives %r; %s: A=%s B=%s; length: A=%s B=%s" % (
                                  NAMES[fn], attr, ", value_type=int" if vtype else "", prep, v, attr, exps[0], attr, nwk(ra), nwk(rb),
                                  nwk(sa), nwk(sb)), case)
            continue
        (s1, v1), (s2, v2) = res
        if (s1 == "ok") != (s2 == "ok"):
            ctx.violation("%s|definedness-asymmetric%s" % (NAMES[fn], suffix),
                          "%s(A,B): %s, (B,A): %s; %s: A=%s B=%s [%s]" % (NAMES[fn], (s1, v1), (s2, v2), attr, nwk(ra), nwk(rb), rootname(rooted)), case)
        elif s1 == "exc":
            ctx.count("option_refused_both_orders")
            if not (has_missing(ra, isr) or has_missing(rb, isr)):
                ctx.violation("%s|exception|%s%s" % (NAMES[fn], type(v1).__name__, suffix),
                              "%s refuses trees with complete %s values: %r" % (NAMES[fn], attr, v1), case)
        else:
            ctx.count("option_defined_both_orders")
            if not ref.feq(v1, v2):
                ctx.violation("%s|asymmetric-value%s" % (NAMES[fn], suffix),
                              "%s(A,B)=%r (B,A)=%r; %s: A=%s B=%s" % (NAMES[fn], v1, v2, attr, nwk(ra), nwk(rb)), case)
            elif not value_ok(kind, v1, exps, False):
                ctx.violation("%s|value|missing-value|%s|%s%s" % (NAMES[fn], rootname(rooted), feature(isr, sa, sb), suffix),
                              "%s = %r in both orders, definition (missing read as 0) gives %r; %s: A=%s B=%s" % (
                                  NAMES[fn], v1, exps[0], attr, nwk(ra), nwk(rb)), case)


def opt_shapes(n, rooted):
    """drawings with exactly one edge per split: U(n) for rooted trees; for unrooted trees each
    shape re-drawn with the seed on an internal node of degree >= 3 (duplicates removed)"""
    if rooted:
        return U.shapes(n)
    out = []
    for s in U.shapes(n):
        d = U.redrawings(s)[0]
        if not isinstance(d, int) and len(d) >= 3 and d not in out:
            out.append(d)
    return out


def _len_far(i, leaf, depth):
    return None if depth == 0 else i + 11          # never equal to a weight below


def _w_a(i, leaf, depth):
    return None if depth == 0 else (0, 2, 1)[i % 3]


def _w_b(i, leaf, depth):
    return None if depth == 0 else (3, 0, 1, 0)[i % 4]


def _w_half(i, leaf, depth):
    return None if depth == 0 else 0.5 * (i % 3)


def run_opt(chunk, ctx):
    n, rooted, sub = chunk["n"], chunk["rooted"], chunk["sub"]
    shapes = opt_shapes(n, rooted)
    lo, hi = chunk.get("lo", 0), min(chunk.get("hi", len(shapes)), len(shapes))
    mk = ref.mk
    if n >= 5:
        fidx = sorted(set([0, len(shapes) // 3, len(shapes) // 2, len(shapes) - 1]))
    else:
        fidx = list(range(len(shapes)))
    if sub == "a":
        # (a) weights != lengths on every edge, both numeric (weights contain exact zeros)
        for i in range(lo, hi):
            for j in (range(len(shapes)) if n <= 4 else fidx):
                for pa, pb in (((_w_a, _w_b), (_w_b, _w_a)) if n <= 4 else ((_w_a, _w_b),)):
                    sa, sb = mk(shapes[i], _len_far), mk(shapes[j], _len_far)
                    wa, wb = mk(shapes[i], pa), mk(shapes[j], pb)
                    eval_opt(ctx, rooted, sa, sb, wa, wb, OPT_FNS)
                    if n >= 5:
                        eval_opt(ctx, rooted, sb, sa, wb, wa, OPT_FNS)
                    if n <= 4 and pa is _w_a:
                        eval_opt(ctx, rooted, sa, sb, wa, wb, ("wrf", "euc"), prep="encoded")
                        eval_opt(ctx, rooted, sa, sb, wa, wb, ("euc",), vtype="int")
                        eval_opt(ctx, rooted, sa, sb, wa, wb, ("euc",), vtype="int", prep="encoded")
                        # value_type=int on the default attribute, and float weights
                        eval_opt(ctx, rooted, sa, sb, sa, sb, ("euc",), attr="length", vtype="int")
                        eval_opt(ctx, rooted, sa, sb, mk(shapes[i], _w_half), wb, ("wrf", "euc"))
                    ctx.count("option_pairs_weights_differ_from_lengths")
    elif sub == "a01":
        # every {0,1} assignment of the weights of A (n <= 3: of both trees)
        for i in range(lo, hi):
            WA = x12_snaps(shapes[i], roots=(None,), alphabet=(0, 1))
            sa = mk(shapes[i], _len_far)
            for j in range(len(shapes)):
                sb = mk(shapes[j], _len_far)
                WB = x12_snaps(shapes[j], roots=(None,), alphabet=(0, 1)) if n <= 3 else (
                    [mk(shapes[j], _w_b)] if shapes[j] in fixed_partners(n) or j in (0, len(shapes) - 1) else [])
                for wa in WA:
                    for wb in WB:
                        eval_opt(ctx, rooted, sa, sb, wa, wb, ("wrf", "euc"))
                        eval_opt(ctx, rooted, sb, sa, wb, wa, ("wrf", "euc"))
                        ctx.count("option_pairs_01_weights", 2)
    elif sub == "b":
        # (b) weights numeric, lengths all missing
        for i in range(lo, hi):
            for j in range(len(shapes)):
                sa, sb = mk(shapes[i], None), mk(shapes[j], None)
                eval_opt(ctx, rooted, sa, sb, mk(shapes[i], _w_a), mk(shapes[j], _w_b), OPT_FNS)
                eval_opt(ctx, rooted, sa, sb, mk(shapes[i], _unit), mk(shapes[j], _unit), ("wrf", "euc"), prep="encoded")
                ctx.count("option_pairs_lengths_missing")
    elif sub == "c":
        # (c) lengths numeric, some weights missing: both orders
        for i in range(lo, hi):
            sa = mk(shapes[i], _len_far)
            partners = [(shapes[j], mk(shapes[j], _unit)) for j in (fidx if n >= 4 else range(len(shapes)))]
            partners.append((shapes[i], mk(shapes[i], _unit)))
            partners.append((shapes[i], mk(shapes[i], None)))
            for tag, wa in missing_variants(shapes[i]):
                for shb, wb in partners:
                    eval_opt(ctx, rooted, sa, mk(shb, _len_far), wa, wb, ("wrf", "euc"), both=True)
                    ctx.count("option_pairs_weights_missing")
    else:
        raise ValueError(sub)
    ctx.sample({"layer": "options/" + sub, "rooting": rootname(rooted), "leaves": n, "drawings": len(shapes),
                "edge_weight_attr": "weight"}, 1)


# ---------------------------------------------------------------------------
# chunk kinds

def chunks(tier):
    b = bounds(tier)
    out = []

    def add(**kw):
        kw["tier"] = tier
        out.append(kw)
    # (1) base pairs, all functions
    for n in range(1, b["pairs_all_functions_max_leaves"] + 1):
        ns = len(U.shapes(n))
        pats = ["unit", "idx", "nd"] if n <= 4 else ["idx"]
        step = ns if n <= 3 else (7 if n == 4 else 6)
        for rooted in (True, False):
            for pat in pats:
                for lo in range(0, ns, step):
                    add(kind="pairs", n=n, rooted=rooted, pat=pat, lo=lo, hi=min(ns, lo + step), fns="all")
        if n <= 4:
            add(kind="pairs", n=n, rooted=None, pat="idx", lo=0, hi=ns, fns="core")
            for rooted in (True, False):
                add(kind="flags", n=n, rooted=rooted)
                for cfg in build.NS_CONFIGS:
                    if cfg != "exact":
                        add(kind="nsconf", n=n, rooted=rooted, cfg=cfg)
                for lo in range(0, ns, 7):
                    add(kind="rootlen", n=n, rooted=rooted, lo=lo, hi=min(ns, lo + 7))
    if b["pairs_unweighted_binary_leaves"]:
        n = b["pairs_unweighted_binary_leaves"]
        ns = len(U.shapes(n, binary_only=True))
        for rooted in (True, False):
            for lo in range(0, ns, 9):
                add(kind="pairs", n=n, rooted=rooted, pat="none", lo=lo, hi=min(ns, lo + 9), fns="unweighted", binary=True)
    # (2) {1,2}-exhaustive lengths
    for n in range(2, b["x12_full_product_max_leaves"] + 1):
        ns = len(U.shapes(n))
        for rooted in (True, False):
            for i in range(ns):
                if n <= 3:
                    add(kind="x12", n=n, rooted=rooted, i=i, partner="x12")
                else:
                    for j in range(ns):
                        add(kind="x12", n=n, rooted=rooted, i=i, j=j, partner="x12")
    if b["x12_vs_fixed_leaves"]:
        n = b["x12_vs_fixed_leaves"]
        for rooted in (True, False):
            for i in range(len(U.shapes(n))):
                add(kind="x12", n=n, rooted=rooted, i=i, partner="fixed")
    # (2b) exact zeros: {0,1}-exhaustive, zero on exactly one edge, zero-length-resolved polytomies
    for n in range(2, b["x01_full_product_max_leaves"] + 1):
        ns = len(U.shapes(n))
        alphas = [[0, 1]] + ([[0.0, 1.0]] if n <= b["x01_float_zero_max_leaves"] else [])
        for rooted in (True, False):
            for alpha in alphas:
                for i in range(ns):
                    if n <= 3:
                        add(kind="x12", n=n, rooted=rooted, i=i, partner="x12", alpha=alpha)
                    else:
                        for j in range(ns):
                            add(kind="x12", n=n, rooted=rooted, i=i, j=j, partner="x12", alpha=alpha)
    if b["x01_vs_fixed_leaves"]:
        n = b["x01_vs_fixed_leaves"]
        for rooted in (True, False):
            for i in range(len(U.shapes(n))):
                add(kind="x12", n=n, rooted=rooted, i=i, partner="fixed", alpha=[0, 1])
    for n in range(2, b["zero_on_one_edge_max_leaves"] + 1):
        ns = len(U.shapes(n))
        step = ns if n <= 3 else 4
        for rooted in (True, False):
            for lo in range(0, ns, step):
                add(kind="zero1", n=n, rooted=rooted, lo=lo, hi=min(ns, lo + step))
    if b["zero_on_one_edge_binary_leaves"]:
        n = b["zero_on_one_edge_binary_leaves"]
        ns = len(U.shapes(n, binary_only=True))
        for rooted in (True, False):
            for lo in range(0, ns, 3):
                add(kind="zero1", n=n, rooted=rooted, lo=lo, hi=min(ns, lo + 3), binary=True)
    for n in range(3, b["zero_resolved_polytomies_max_leaves"] + 1):
        for rooted in (True, False):
            for i, sh in enumerate(U.shapes(n)):
                if not U.is_binary(sh):
                    add(kind="zres", n=n, rooted=rooted, i=i,
                        partners="all" if n <= b["zero_resolved_all_partners_max_leaves"] else "few")
    # (3) re-drawings
    for n in range(2, b["redraw_all_partners_max_leaves"] + 1):
        ns = len(U.shapes(n))
        step = ns if n <= 2 else 1
        for rooted in (True, False):
            for lo in range(0, ns, step):
                add(kind="redraw", n=n, rooted=rooted, lo=lo, hi=min(ns, lo + step), partners="all")
    if b["redraw_few_partners_leaves"]:
        n = b["redraw_few_partners_leaves"]
        ns = len(U.shapes(n))
        for rooted in (True, False):
            for lo in range(0, ns, 8):
                add(kind="redraw", n=n, rooted=rooted, lo=lo, hi=min(ns, lo + 8), partners="few")
    # (4) triples
    for rooted in (True, False):
        for fn in CORE:
            if fn in ("missing", "fpfn"):
                continue
            for pat in (("idx",) if fn in UNWEIGHTED else ("unit", "idx", "nd")):
                add(kind="triples", n=4, rooted=rooted, fn=fn, pat=pat, binary=False)
                if tier != "quick":
                    add(kind="triples", n=5, rooted=rooted, fn=fn, pat=pat, binary=True)
    # (5) missing lengths
    for n in range(2, b["missing_length_max_leaves"] + 1):
        ns = len(U.shapes(n))
        step = ns if n <= 3 else (3 if n == 4 else 4)
        for rooted in (True, False):
            for lo in range(0, ns, step):
                add(kind="nolen", n=n, rooted=rooted, lo=lo, hi=min(ns, lo + step))
    # (6) histories
    for n in range(2, b["history_max_leaves"] + 1):
        ns = len(U.shapes(n))
        for rooted in (True, False):
            for i in range(ns):
                if n >= 5 and not U.is_binary(U.shapes(n)[i]) and U.max_degree(U.shapes(n)[i]) < n:
                    continue  # n = 5: binary shapes and the star
                add(kind="hist", n=n, rooted=rooted, i=i,
                    partners="all" if n <= b["history_all_partners_max_leaves"] else "few")
    # (7) foreign namespaces
    for n in range(1, b["foreign_ns_max_leaves"] + 1):
        for rooted in (True, False):
            add(kind="foreign", n=n, rooted=rooted)
    # (9) keyword options (edge_weight_attr, value_type, is_bipartitions_updated)
    for rooted in (True, False):
        for n in (3, 4, 5):
            ns = len(opt_shapes(n, rooted))
            step = ns if n <= 3 else (7 if n == 4 else 30)
            for lo in range(0, ns, step):
                add(kind="opt", sub="a", n=n, rooted=rooted, lo=lo, hi=lo + step)
                if n <= 4:
                    add(kind="opt", sub="a01", n=n, rooted=rooted, lo=lo, hi=lo + step)
                    add(kind="opt", sub="b", n=n, rooted=rooted, lo=lo, hi=lo + step)
                    add(kind="opt", sub="c", n=n, rooted=rooted, lo=lo, hi=lo + step)
    # (8) large representatives
    big = big_set()
    for rooted in (True, False):
        for size in sorted(set(len(U.shape_leaves(sh)) for sh in big.values())):
            add(kind="bigpairs", n=size, rooted=rooted)
        for name in big:
            add(kind="bigself", n=len(U.shape_leaves(big[name])), rooted=rooted, name=name)
    # big trees first (better tail behaviour of the pool); deterministic
    out.sort(key=lambda c: -c["n"])
    return out


def run_chunk(chunk, ctx):
    return globals()["run_" + chunk["kind"]](chunk, ctx)


def fnset(name, n):
    if name == "all":
        if n <= 4:
            return (UNWEIGHTED + ALIASES_U, WEIGHTED + ALIASES_W)
        return (UNWEIGHTED, WEIGHTED)
    if name == "core":
        return (UNWEIGHTED, WEIGHTED)
    if name == "unweighted":
        return (UNWEIGHTED, ())
    raise ValueError(name)


def run_pairs(chunk, ctx):
    n, rooted, pat = chunk["n"], chunk["rooted"], chunk["pat"]
    shapes = U.shapes(n, binary_only=bool(chunk.get("binary")))
    sn = [snap(s, pat) for s in shapes]
    fu, fw = fnset(chunk["fns"], n)
    exact = pat in DYADIC
    for i in range(chunk["lo"], chunk["hi"]):
        for j in range(len(sn)):
            if pat in ("unit", "nd") or pat == "none":
                fns = fw if pat != "none" else fu   # unweighted functions run once per pair (pattern idx / none)
            else:
                fns = fu + fw
            if fns:
                eval_pair(ctx, rooted, sn[i], sn[j], fns, exact=exact)
            ctx.count("base_pairs")
        if i % 5 == 0:
            ctx.sample({"layer": "pairs", "rooting": rootname(rooted), "a": nwk(sn[i]),
                        "b": nwk(sn[(i * 7 + 3) % len(sn)]), "functions": list(fu + fw)}, 1)


def run_flags(chunk, ctx):
    """is_bipartitions_updated=True inside its documented domain: encoding current, or never computed"""
    n, rooted = chunk["n"], chunk["rooted"]
    sn = [snap(s, "idx") for s in U.shapes(n)]
    for a in sn:
        for b in sn:
            for prep in ("encoded", "updated-unencoded"):
                eval_pair(ctx, rooted, a, b, CORE + ("urf",), prep=prep)
                ctx.count("flag_pairs")


def run_nsconf(chunk, ctx):
    n, rooted = chunk["n"], chunk["rooted"]
    sn = [snap(s, "idx") for s in U.shapes(n)]
    for cfg in [chunk["cfg"]]:
        for a in sn:
            for b in sn:
                eval_pair(ctx, rooted, a, b, CORE, cfg=cfg)
                ctx.count("namespace_config_pairs")


def run_rootlen(chunk, ctx):
    """seed-edge lengths 1 / 2 / None on both trees (rooted: part of the norm; unrooted:
    either reading accepted)"""
    n, rooted = chunk["n"], chunk["rooted"]
    base = [snap(s, "idx") for s in U.shapes(n)]
    for a in base[chunk["lo"]:chunk["hi"]]:
        for b in base:
            for ra in (None, 1, 2):
                for rb in (None, 1, 2):
                    eval_pair(ctx, rooted, set_len(a, (), ra), set_len(b, (), rb), WEIGHTED)
                    ctx.count("seed_length_pairs")


def fixed_partners(n):
    """a few fixed trees of U(n): first (caterpillar-like), a balanced one, the star"""
    shapes = U.shapes(n)
    pick = [shapes[0], shapes[len(shapes) // 2], shapes[-1]]
    star = tuple(range(n))
    if star in shapes:
        pick.append(star)
    out = []
    for s in pick:
        if s not in out:
            out.append(s)
    return out


def run_x12(chunk, ctx):
    n, rooted, i = chunk["n"], chunk["rooted"], chunk["i"]
    shapes = U.shapes(n)
    alpha = tuple(chunk.get("alpha", (1, 2)))      # (1, 2), (0, 1) or (0.0, 1.0)
    zero = alpha[0] == 0
    cname = "x01_pairs" if zero else "x12_pairs"
    A = x12_snaps(shapes[i], roots=alpha if rooted else (None,), alphabet=alpha)
    if chunk["partner"] == "x12":
        js = [chunk["j"]] if "j" in chunk else range(len(shapes))
        for j in js:
            B = x12_snaps(shapes[j], roots=(alpha if n <= 3 else (1,)) if rooted else (None,), alphabet=alpha)
            for a in A:
                for b in B:
                    eval_pair(ctx, rooted, a, b, WEIGHTED)
                    ctx.count(cname)
    else:
        for j in range(len(shapes)):
            for pat in (("unit", "alt01") if zero else ("alt",)):
                b = snap(shapes[j], pat)
                for a in A:
                    eval_pair(ctx, rooted, a, b, WEIGHTED)
                    eval_pair(ctx, rooted, b, a, WEIGHTED)
                    ctx.count(cname, 2)
    ctx.sample({"layer": "x01" if zero else "x12", "rooting": rootname(rooted), "first_of": len(A),
                "a": nwk(A[len(A) // 3])}, 1)


# ---------------------------------------------------------------------------
# exact zeros

def run_zero1(chunk, ctx):
    """zero on exactly one edge: b = unit lengths with one single edge (every non-seed edge;
    the seed edge too for rooted trees) set to 0 resp. 0.0; every ordered pair with the
    unit-length trees of the class, both argument orders."""
    n, rooted = chunk["n"], chunk["rooted"]
    shapes = U.shapes(n, binary_only=bool(chunk.get("binary")))
    units = [snap(s, "unit") for s in shapes]
    for bi in range(chunk["lo"], chunk["hi"]):
        base = units[bi]
        for p in sn_paths(base):
            if not p and not rooted:
                continue
            for z in (0, 0.0):
                b = set_len(base, p, z)
                ctx.count("zero_on_one_edge_trees")
                for a in units:
                    eval_pair(ctx, rooted, a, b, WEIGHTED)
                    eval_pair(ctx, rooted, b, a, WEIGHTED)
                    ctx.count("zero_on_one_edge_pairs", 2)
    ctx.sample({"layer": "zero-on-one-edge", "rooting": rootname(rooted),
                "b": nwk(set_len(units[chunk["lo"]], list(sn_paths(units[chunk["lo"]]))[-1], 0.0))}, 1)


@functools.lru_cache(maxsize=None)
def shape_clades(shape):
    return frozenset(ref.rooted_clades(ref.mk(shape)))


def refinements(shape, n):
    """all shapes of U(n) that strictly refine `shape` (every clade kept, at least one added)"""
    cs = shape_clades(shape)
    return [r for r in U.shapes(n) if r != shape and cs < shape_clades(r)]


def zero_resolved(shape, rshape, pattern, z):
    """drawing of the refinement `rshape` of `shape`: edges of `shape` keep the length they have
    under `pattern`, every added edge has length z (0 or 0.0)"""
    src = snap(shape, pattern)
    length = {}
    for cl, nd in ref.clade_list(src):
        length[cl] = nd[2]

    def rec(nd):
        kids = tuple(rec(c) for c in nd[3])
        cl = ref.clade(nd)
        return (nd[0], nd[1], length[cl] if cl in length else z, kids)
    return rec(ref.mk(rshape))


def run_zres(chunk, ctx):
    """polytomies resolved by zero-length edges, in every way: weighted distance to the
    polytomous tree is 0, to every other tree the same as the polytomous tree's; partners
    include trees conflicting with the zero-length splits (so these are splits of one
    tree only) and other zero-resolutions of the same polytomy."""
    n, rooted, si, tier = chunk["n"], chunk["rooted"], chunk["i"], chunk["tier"]
    isr = bool(rooted)
    shapes = U.shapes(n)
    s = shapes[si]
    poly = snap(s, "idx")
    refs = refinements(s, n)
    if chunk["partners"] == "all":
        partners = [snap(x, "idxrev") for x in shapes]
    else:
        partners = [snap(x, "idxrev") for x in fixed_partners(n)]
    partners.append(poly)
    few = [snap(x, "idxrev") for x in fixed_partners(n)] + [poly]
    zs = (0, 0.0) if n <= 4 else (0,)
    if n <= 4:
        sib_idx = list(range(len(refs)))
    else:
        sib_idx = sorted(set([0, len(refs) // 2, len(refs) - 1]))
    for z in zs:
        sibs = [zero_resolved(s, refs[k], "idx", z) for k in sib_idx]
        for r in refs:
            b = zero_resolved(s, r, "idx", z)
            # harness self-check: same per-split lengths as the polytomous tree, new splits 0
            Rb, Rp = R(b, isr), R(poly, isr)
            if any(Rb[1].get(k, 0) != Rp[1].get(k, 0) for k in Rb[0] | Rp[0]):
                raise AssertionError("harness: not a zero-length resolution: %s of %s" % (nwk(b), nwk(poly)))
            ctx.count("zero_resolved_trees")
            ds = [b, rev(b)]
            if n <= 4 and not rooted:
                ds.extend(redraw_unrooted(b))
            seen = set()
            for d in ds:
                if d in seen:
                    continue
                seen.add(d)
                ctx.count("zero_resolved_drawings")
                fns = CORE if (d is b and n <= 4) else WEIGHTED
                for a in (partners if (d is b or n <= 4) else few) + sibs:
                    eval_pair(ctx, rooted, a, d, fns)
                    eval_pair(ctx, rooted, d, a, fns)
                    ctx.count("zero_resolved_pairs", 2)
    if refs:
        ctx.sample({"layer": "zero-resolved-polytomies", "rooting": rootname(rooted), "polytomous": nwk(poly),
                    "resolutions": len(refs), "example": nwk(zero_resolved(s, refs[-1], "idx", 0))}, 1)


def drawings_of(sn_b, shape, n, rooted, tier):
    """[(tag, drawing)] of b, each with the same split lengths as b"""
    out = [("reversed", rev(sn_b))]
    if n <= 4:
        for o in U.all_orders(shape):
            d = apply_order(sn_b, o)
            out.append(("order", d))
    else:
        for o in U.order_variants(shape)[2:]:
            out.append(("order", apply_order(sn_b, o)))
    if not rooted:
        fr = ((1, 1), (1, 3)) if n <= 4 else ((1, 1),)
        for d in redraw_unrooted(sn_b, fr):
            out.append(("reseed", d))
            if n <= 4:
                out.append(("reseed", rev(d)))
    if n <= 4:
        for d in unif_variants(sn_b, 1, (1, 2)):
            out.append(("unif", d))
        if n <= 4:
            for d in unif_variants(sn_b, 2, (1,)):
                out.append(("unif", d))
        if not rooted and n <= 4:
            # unifurcations on re-drawn (basal-bifurcation) forms
            for d in redraw_unrooted(sn_b, ((1, 1),)):
                if len(d[3]) == 2:
                    for u in unif_variants(d, 2 if n <= 3 else 1, (1,)):
                        out.append(("unif", u))
    elif tier != "quick":
        for d in unif_variants(sn_b, 1, (1,)):
            out.append(("unif", d))
    seen = set([sn_b])
    res = []
    for tag, d in out:
        if d not in seen:
            seen.add(d)
            res.append((tag, d))
    return res


def run_redraw(chunk, ctx):
    n, rooted, tier = chunk["n"], chunk["rooted"], chunk["tier"]
    shapes = U.shapes(n)
    isr = bool(rooted)
    partners_all = [snap(s, "idxrev") for s in shapes]
    partners_few = [snap(s, "idxrev") for s in fixed_partners(n)]
    fns = CORE
    for bi in range(chunk["lo"], chunk["hi"]):
        b = snap(shapes[bi], "idx")
        Rb = R(b, isr)
        ds = drawings_of(b, shapes[bi], n, rooted, tier)
        for tag, d in ds:
            # harness self-check: the re-drawing really is one (same splits, same lengths)
            Rd = R(d, isr)
            if Rd[0] != Rb[0] or any(not ref.feq(Rd[1][k], Rb[1][k]) for k in Rb[0]):
                raise AssertionError("harness: not a re-drawing: %s of %s" % (nwk(d), nwk(b)))
            ctx.count("drawings_" + tag)
            # a tree and its re-drawing: distance zero, both orders
            eval_pair(ctx, rooted, b, d, fns, exact=False)
            eval_pair(ctx, rooted, d, b, fns, exact=False)
            eval_pair(ctx, rooted, d, d, fns, exact=False)
            if chunk["partners"] != "all":
                plist = partners_few
            elif n <= 3:
                plist = partners_all
            elif n == 4:
                plist = partners_few if tag == "unif" else partners_all
            else:
                plist = partners_all if tag in ("reversed", "reseed") else partners_few
            for a in plist:
                eval_pair(ctx, rooted, a, d, fns, exact=False)
                eval_pair(ctx, rooted, d, a, fns, exact=False)
                ctx.count("redraw_pairs", 2)
        ctx.sample({"layer": "redraw", "rooting": rootname(rooted), "tree": nwk(b), "drawings": len(ds),
                    "example": nwk(ds[len(ds) // 2][1]) if ds else None}, 1)


def run_triples(chunk, ctx):
    n, rooted, fn, pat = chunk["n"], chunk["rooted"], chunk["fn"], chunk["pat"]
    shapes = U.shapes(n, binary_only=bool(chunk.get("binary")))
    sn = [snap(s, pat) for s in shapes]
    env = Env.get(n, "exact")
    allc = frozenset(env.labels)
    isr = bool(rooted)
    m = len(sn)
    D = [[None] * m for _ in range(m)]
    for i in range(m):
        for j in range(m):
            ta, tb = fresh(env, rooted, sn[i], sn[j], "fresh")
            try:
                v = call(fn, ta, tb, env, isr, allc)
            except Exception as e:
                ctx.violation("%s|exception|%s" % (NAMES[fn], type(e).__name__), "%s raised %r" % (NAMES[fn], e),
                              pair_case(rooted, sn[i], sn[j], [fn], "exact", "fresh"))
                v = None
            if fn == "fpfn" and v is not None:
                v = v[0] + v[1]
            D[i][j] = v
    tol = 0 if (fn in UNWEIGHTED or (fn == "wrf" and pat in DYADIC)) else 1e-9
    for i in range(m):
        Di = D[i]
        if Di[i] is not None and abs(Di[i]) > tol:
            ctx.violation("%s|identity|%s" % (NAMES[fn], rootname(rooted)), "d(t, copy of t) = %r" % (Di[i],),
                          pair_case(rooted, sn[i], sn[i], [fn], "exact", "fresh"))
        for k in range(m):
            dik = Di[k]
            if dik is None:
                continue
            if D[k][i] is not None and abs(dik - D[k][i]) > tol * max(1.0, abs(dik)):
                ctx.violation("%s|asymmetric-value|%s" % (NAMES[fn], rootname(rooted)),
                              "d(a,b)=%r, d(b,a)=%r for a=%s b=%s" % (dik, D[k][i], nwk(sn[i]), nwk(sn[k])),
                              {"kind": "sym", "rooted": rooted, "fn": fn, "a": sn[i], "b": sn[k]})
            bad = None
            for j in range(m):
                dij, djk = Di[j], D[j][k]
                if dij is None or djk is None:
                    continue
                if dik > dij + djk + tol * max(1.0, dik):
                    bad = j
                    break
            ctx.case(("tri", fn, rooted, pat, n, i, k), nontrivial=True, n=m)
            if bad is not None:
                j = bad
                ctx.violation("%s|triangle|%s" % (NAMES[fn], rootname(rooted)),
                              "d(a,c)=%r > d(a,b)+d(b,c)=%r+%r; a=%s b=%s c=%s" % (
                                  dik, Di[j], D[j][k], nwk(sn[i]), nwk(sn[j]), nwk(sn[k])),
                              {"kind": "triple", "rooted": rooted, "fn": fn, "a": sn[i], "b": sn[j], "c": sn[k], "tol": tol})
    ctx.count("triples", m * m * m)
    ctx.count("triple_matrices")
    ctx.sample({"layer": "triples", "function": NAMES[fn], "rooting": rootname(rooted), "pattern": pat, "trees": m,
                "d(first,last)": D[0][m - 1]}, 1)


def run_nolen(chunk, ctx):
    n, rooted = chunk["n"], chunk["rooted"]
    shapes = U.shapes(n)
    units = [snap(s, "unit") for s in shapes]
    nones = [snap(s, "none") for s in shapes]
    if n >= 5:
        pidx = sorted(set([0, len(shapes) // 2, len(shapes) - 1] + [shapes.index(s) for s in fixed_partners(n)]))
        units_p = [units[i] for i in pidx]
        nones_p = [nones[i] for i in pidx]
    else:
        units_p, nones_p = units, nones
    for ai in range(chunk["lo"], chunk["hi"]):
        mv = missing_variants(shapes[ai])
        for tag, a in mv:
            ctx.count("missing_length_trees_" + tag)
            partners = list(units_p) + list(nones_p) + [units[ai], nones[ai]] + [x for _, x in mv]
            seen = set()
            for b in partners:
                if b in seen:
                    continue
                seen.add(b)
                eval_pair_both(ctx, rooted, a, b, WEIGHTED + (("sd",) if tag == "all" else ()))
                eval_reorder(ctx, rooted, a, b, WEIGHTED)
                ctx.count("missing_length_pairs")
        ctx.sample({"layer": "missing-lengths", "rooting": rootname(rooted), "tree": nwk(mv[0][1]),
                    "variants": len(mv)}, 1)


# ---------------------------------------------------------------------------
# histories (staleness)

def live_nodes(tree):
    out = []

    def rec(nd):
        out.append(nd)
        for c in nd._child_nodes:
            rec(c)
    rec(tree._seed_node)
    return out


def subtree_ids(nd):
    s = set()
    stack = [nd]
    while stack:
        x = stack.pop()
        s.add(id(x))
        stack.extend(x._child_nodes)
    return s


def apply_op1(op1, t, o, env, isr, allc):
    if op1[0] == "encode":
        t.encode_bipartitions()
        return
    if op1[0] == "dist":
        _, fn, order = op1
        if order == 0:
            call(fn, t, o, env, isr, allc)
        else:
            call(fn, o, t, env, isr, allc)
        return
    raise ValueError(op1)


def enumerate_edits(t, rooted):
    nodes = live_nodes(t)
    edits = []
    leaves = [i for i, nd in enumerate(nodes) if not nd._child_nodes]
    for a, b in itertools.combinations(leaves, 2):
        edits.append(["swap", a, b])
    for xi, x in enumerate(nodes):
        if x._parent_node is None:
            continue
        below = subtree_ids(x)
        for qi, q in enumerate(nodes):
            if not q._child_nodes or id(q) in below or q is x._parent_node:
                continue
            edits.append(["move", xi, qi])
    for i, nd in enumerate(nodes):
        if nd._parent_node is not None or rooted:
            edits.append(["len", i])
    for i, nd in enumerate(nodes):
        if nd._child_nodes and nd._parent_node is not None:
            edits.append(["reseed", i])
    return edits


def apply_edit(edit, t):
    nodes = live_nodes(t)
    k = edit[0]
    if k == "swap":
        a, b = nodes[edit[1]], nodes[edit[2]]
        a.taxon, b.taxon = b.taxon, a.taxon
    elif k == "move":
        x, q = nodes[edit[1]], nodes[edit[2]]
        x._parent_node.remove_child(x)
        q.add_child(x)
    elif k == "len":
        e = nodes[edit[1]].edge
        e.length = (e.length or 0) + 1
    elif k == "reseed":
        t.reseed_at(nodes[edit[1]])
    else:
        raise ValueError(edit)


OP1S = (["encode"], ["dist", "sd", 0], ["dist", "wrf", 0], ["dist", "euc", 1], ["dist", "missing", 1])
EDITNAME = {"swap": "swap-leaf-taxa", "move": "move-subtree", "len": "change-length", "reseed": "reseed_at"}


def eval_history(ctx, rooted, st, so, op1, edit, fns, orders=(0, 1)):
    n = nleaves(st)
    env = Env.get(n, "exact")
    allc = frozenset(env.labels)
    isr = bool(rooted)
    ctx.case(("hist", rooted, st, so, tuple(op1), tuple(edit), fns, orders), nontrivial=n >= 3, n=len(fns) * len(orders))
    for fn in fns:
        kind = KIND[fn]
        for order in orders:
            t, o = fresh(env, rooted, st, so, "fresh")
            case = {"kind": "hist", "rooted": rooted, "t": st, "o": so, "op1": list(op1), "edit": list(edit),
                    "fns": [fn], "orders": [order]}
            try:
                apply_op1(op1, t, o, env, isr, allc)
                apply_edit(edit, t)
            except Exception as e:
                raise AssertionError("harness: history prefix failed %r on %r" % (e, case))
            cur_t = ref.snapshot(t)[1]
            cur_o = ref.snapshot(o)[1]
            ctx.count("histories")
            if kind in WEIGHTED and (has_missing(cur_t, isr) or has_missing(cur_o, isr)):
                ctx.count("histories_weighted_skipped_missing_length_after_edit")
                continue
            x, y = (cur_t, cur_o) if order == 0 else (cur_o, cur_t)
            try:
                got = call(fn, t, o, env, isr, allc) if order == 0 else call(fn, o, t, env, isr, allc)
            except Exception as e:
                ctx.violation("%s|exception-after-edit|%s|%s" % (NAMES[fn], EDITNAME[edit[0]], type(e).__name__),
                              "%s raised %r after history %s, %s" % (NAMES[fn], e, op1, edit), case)
                continue
            exps = expected(kind, x, y, isr)
            if not value_ok(kind, got, exps, False):
                # diagnosis: do freshly built copies of the *current* structures give the same
                # (wrong) value?  Then the history is innocent and the pair itself is the witness.
                fx, fy = fresh(env, rooted, x, y, "fresh")
                try:
                    again = call(fn, fx, fy, env, isr, allc)
                except Exception as e:
                    again = e
                if again == got or (isinstance(again, float) and isinstance(got, float) and ref.feq(again, got)):
                    ctx.violation("%s|value|%s|%s" % (NAMES[fn], rootname(rooted), feature(isr, x, y)),
                                  "%s(%s, %s) [%s, fresh] = %r, definition gives %r (met after history %s, %s)" % (
                                      NAMES[fn], nwk(x), nwk(y), rootname(rooted), show(got), show(exps[0]), op1, edit),
                                  pair_case(rooted, x, y, [fn], "exact", "fresh"))
                    continue
                ctx.violation("%s|stale|%s" % (NAMES[fn], EDITNAME[edit[0]]),
                              "history [%s; %s on t; %s(%s)] gives %r, current structures t=%s o=%s give %r" % (
                                  op1, edit, NAMES[fn], "t,o" if order == 0 else "o,t", show(got),
                                  nwk(cur_t), nwk(cur_o), show(exps[0])), case)


def run_hist(chunk, ctx):
    n, rooted, i = chunk["n"], chunk["rooted"], chunk["i"]
    shapes = U.shapes(n)
    st = snap(shapes[i], "idx")
    env = Env.get(n, "exact")
    allc = frozenset(env.labels)
    isr = bool(rooted)
    if chunk["partners"] == "all":
        others = [snap(s, "idxrev") for s in shapes]
    else:
        others = [snap(s, "idxrev") for s in fixed_partners(n)]
        if snap(shapes[i], "idxrev") not in others:
            others.append(snap(shapes[i], "idxrev"))
    for so in others:
        for op1 in (OP1S if n <= 4 else OP1S[:3]):
            probe_t, probe_o = fresh(env, rooted, st, so, "fresh")
            apply_op1(op1, probe_t, probe_o, env, isr, allc)
            edits = enumerate_edits(probe_t, isr)
            for edit in edits:
                ctx.count("edits_" + edit[0])
                eval_history(ctx, rooted, st, so, op1, edit, CORE)
    ctx.sample({"layer": "histories", "rooting": rootname(rooted), "t": nwk(st), "partners": len(others),
                "op1": [list(x) for x in OP1S], "edits_on_last": len(edits)}, 1)


# ---------------------------------------------------------------------------
# large representatives

def run_bigpairs(chunk, ctx):
    """every ordered pair (and every triple) of the equal-size trees of the stated set"""
    n, rooted = chunk["n"], chunk["rooted"]
    isr = bool(rooted)
    names = [k for k, sh in big_set().items() if len(U.shape_leaves(sh)) == n]
    env = Env.get(n, "exact")
    allc = frozenset(env.labels)
    for pat in ("unit", "cyc123"):
        sn = [big_snap(big_set()[k], pat) for k in names]
        for a in sn:
            for b in sn:
                eval_pair(ctx, rooted, a, b, CORE)
                ctx.count("big_pairs")
        if len(sn) >= 2:
            if pat == "unit":
                eval_foreign(ctx, rooted, sn[0], sn[-1], ("sd", "wrf"))
            for fn in ("sd", "wrf", "euc"):
                m = len(sn)
                D = [[None] * m for _ in range(m)]
                for i in range(m):
                    for j in range(m):
                        ta, tb = fresh(env, rooted, sn[i], sn[j], "fresh")
                        try:
                            D[i][j] = call(fn, ta, tb, env, isr, allc)
                        except Exception:
                            D[i][j] = None        # reported by eval_pair above
                tol = 0 if fn == "sd" else 1e-9
                for i in range(m):
                    for j in range(m):
                        for k in range(m):
                            if None in (D[i][k], D[i][j], D[j][k]):
                                continue
                            ctx.count("big_triples")
                            if D[i][k] > D[i][j] + D[j][k] + tol * max(1.0, D[i][k]):
                                ctx.violation("%s|triangle|%s" % (NAMES[fn], rootname(rooted)),
                                              "d(a,c)=%r > d(a,b)+d(b,c)=%r+%r for %s, %s, %s (%s)" % (
                                                  D[i][k], D[i][j], D[j][k], names[i], names[j], names[k], pat),
                                              {"kind": "triple", "rooted": rooted, "fn": fn, "a": sn[i], "b": sn[j], "c": sn[k], "tol": tol})
                ctx.case(("bigtri", n, rooted, pat, fn), nontrivial=True, n=m * m * m)
    ctx.sample({"layer": "large-representatives/pairs", "rooting": rootname(rooted), "leaves": n, "trees": names}, 1)


def run_bigself(chunk, ctx):
    """one big tree against itself, its re-drawings, NNI neighbours; a few histories"""
    rooted, name = chunk["rooted"], chunk["name"]
    isr = bool(rooted)
    shape = big_set()[name]
    n = len(U.shape_leaves(shape))
    env = Env.get(n, "exact")
    allc = frozenset(env.labels)
    ctx.count("big_trees")
    for pat in ("unit", "cyc123"):
        t = big_snap(shape, pat)
        Rt = R(t, isr)
        ds = [("self", t), ("reversed", rev(t))]
        if not rooted:
            alld = redraw_unrooted(t)
            # redraw_unrooted lists node-seeded drawings first, then edge-seeded (basal bifurcation)
            n_internal = sum(1 for nd in ref.preorder(t) if nd[3]) - (1 if len(t[3]) == 2 else 0)
            for d in pick3(alld[:n_internal]) + pick3(alld[n_internal:]):
                ds.append(("reseed", d))
        for tag, d in ds:
            Rd = R(d, isr)
            if Rd[0] != Rt[0] or any(not ref.feq(Rd[1][k], Rt[1][k]) for k in Rt[0]):
                raise AssertionError("harness: not a re-drawing of %s (%s)" % (name, tag))
            if pat == "unit" and tag not in ("self", "reversed"):
                continue
            eval_pair(ctx, rooted, t, d, CORE, exact=False)
            if tag != "self":
                eval_pair(ctx, rooted, d, t, CORE, exact=False)
            ctx.count("big_drawing_pairs")
        for nshape in nni_variants(shape):
            v = big_snap(nshape, pat)
            eval_pair(ctx, rooted, t, v, CORE)
            eval_pair(ctx, rooted, v, t, CORE)
            ctx.count("big_nni_pairs", 2)
    # histories (cyclic lengths): partner = an NNI neighbour if there is one, else a copy
    st = big_snap(shape, "cyc123")
    nn = nni_variants(shape)
    so = big_snap(nn[len(nn) // 2], "unit") if nn else big_snap(shape, "unit")
    plan = ((["encode"], "swap"), (["dist", "wrf", 0], "move"), (["encode"], "len"), (["dist", "sd", 1], "reseed"))
    for op1, ekind in plan:
        pt, po = fresh(env, rooted, st, so, "fresh")
        apply_op1(op1, pt, po, env, isr, allc)
        cand = [e for e in enumerate_edits(pt, isr) if e[0] == ekind]
        if not cand:
            continue
        edit = cand[-1] if ekind == "swap" else cand[len(cand) // 2]
        eval_history(ctx, rooted, st, so, op1, edit, ("sd", "wrf"))
        ctx.count("big_histories")
    ctx.sample({"layer": "large-representatives/self", "rooting": rootname(rooted), "tree": name, "leaves": n,
                "nni_neighbours": len(nn)}, 1)


# ---------------------------------------------------------------------------
# foreign namespaces

def run_foreign(chunk, ctx):
    n, rooted = chunk["n"], chunk["rooted"]
    sn = [snap(s, "unit") for s in U.shapes(n)]
    if n >= 5:
        part = [snap(s, "unit") for s in fixed_partners(n)]
    else:
        part = sn
    for a in sn:
        for b in part:
            eval_foreign(ctx, rooted, a, b, CORE + ALIASES_U + ALIASES_W)


def eval_foreign(ctx, rooted, sa, sb, fns):
    n = nleaves(sa)
    isr = bool(rooted)
    labels = labels_for(n)
    allc = frozenset(labels)
    ctx.case(("foreign", rooted, sa, sb, fns), nontrivial=n >= 3, n=len(fns))
    for fn in fns:
        for prep in ("fresh", "encoded"):
            e1 = Env(n, "exact")
            e2 = Env(n, "exact")
            ta = build.build_tree((rooted, sa), e1.ns)
            tb = build.build_tree((rooted, sb), e2.ns)
            if prep == "encoded":
                ta.encode_bipartitions()
                tb.encode_bipartitions()
            ctx.count("foreign_namespace_calls")
            try:
                got = call(fn, ta, tb, e1, isr, allc)
            except Exception as e:
                ctx.count("refused_with_" + type(e).__name__)
                continue
            ctx.violation("%s|foreign-namespace-accepted" % NAMES[fn],
                          "%s on trees over two different namespaces returned %r" % (NAMES[fn], show(got)),
                          {"kind": "foreign", "rooted": rooted, "a": sa, "b": sb, "fns": [fn]})


# ---------------------------------------------------------------------------

def replay(case, ctx):
    k = case.get("kind")
    rooted = case.get("rooted")
    if k == "pair":
        sa, sb = tup(case["a"]), tup(case["b"])
        fns = tuple(case["fns"])
        if case.get("both"):
            eval_pair_both(ctx, rooted, sa, sb, fns, cfg=case.get("ns", "exact"))
        else:
            eval_pair(ctx, rooted, sa, sb, fns, cfg=case.get("ns", "exact"), prep=case.get("prep", "fresh"), exact=False)
    elif k == "opt":
        eval_opt(ctx, rooted, tup(case["a"]), tup(case["b"]), tup(case["wa"]), tup(case["wb"]), tuple(case["fns"]),
                 attr=case.get("attr", "weight"), vtype=case.get("value_type"), prep=case.get("prep", "fresh"),
                 both=bool(case.get("both")))
    elif k == "reorder":
        eval_reorder(ctx, rooted, tup(case["a"]), tup(case["b"]), tuple(case["fns"]), cfg=case.get("ns", "exact"))
    elif k == "hist":
        eval_history(ctx, rooted, tup(case["t"]), tup(case["o"]), case["op1"], case["edit"], tuple(case["fns"]),
                     tuple(case["orders"]))
    elif k == "foreign":
        eval_foreign(ctx, rooted, tup(case["a"]), tup(case["b"]), tuple(case["fns"]))
    elif k in ("triple", "sym"):
        fn = case["fn"]
        sns = [tup(case[x]) for x in (("a", "b", "c") if k == "triple" else ("a", "b"))]
        n = nleaves(sns[0])
        env = Env.get(n, "exact")
        allc = frozenset(env.labels)
        isr = bool(rooted)

        def d(x, y):
            tx, ty = fresh(env, rooted, x, y, "fresh")
            v = call(fn, tx, ty, env, isr, allc)
            return v[0] + v[1] if fn == "fpfn" else v
        if k == "sym":
            v1, v2 = d(sns[0], sns[1]), d(sns[1], sns[0])
            if not ref.feq(v1, v2):
                ctx.violation("%s|asymmetric-value|%s" % (NAMES[fn], rootname(rooted)), "d(a,b)=%r d(b,a)=%r" % (v1, v2), case)
        else:
            a, b, c = sns
            tol = case.get("tol", 1e-9)
            dac, dab, dbc = d(a, c), d(a, b), d(b, c)
            if dac > dab + dbc + tol * max(1.0, dac):
                ctx.violation("%s|triangle|%s" % (NAMES[fn], rootname(rooted)), "d(a,c)=%r > %r + %r" % (dac, dab, dbc), case)
    else:
        raise ValueError("unknown case kind %r" % k)
