"""C10 - taxon namespaces keep a stable one-to-one taxon/bit map and exact label
lookups (DESIGN 3/C10).

Engine E2 (explicit-state BFS over operation histories).  The transition function is
the real TaxonNamespace method; a state is the canonical snapshot of the namespace's
primitive fields

    (is_case_sensitive, is_mutable, _current_accession_count,
     ((label, accession index, bit-cached?) for every member in list order))

Every state is rebuilt from its snapshot by the harness (never by a library copy),
every enabled operation with every argument choice is applied to a fresh rebuild, the
outcome is compared with a plain-Python model (list of members + their bits), and the
snapshot of the result is hashed into the visited set.  In every visited state the
full observation suite (all subsets of members <-> bitmasks <-> renderings; all label
lookups under all case rules) is run against linear reference scans.

Hidden state that is *not* in the snapshot (Taxon._lower_cased_label, stale cache
entries for removed taxa) only matters when the same Taxon object is used again;
that is covered by compound operations executed on one live object ("read
lower_cased_label, then relabel", "remove / clear, then add the same object") and by the
light observation suite that is run on the live object after every transition.
"""
import copy
import itertools
import re

from dendropy import Taxon, TaxonNamespace

from mc import budget

ID = "C10"
LEVEL = "model_checking"
EXHAUSTIVE = True
RULE = ("explicit-state BFS: start states = every TaxonNamespace(...) constructor call over label sequences up to "
        "the start bound x both case-sensitivity settings; from every visited state every operation of the alphabet "
        "(add_taxon new/member, new_taxon, new_taxa, add_taxa, require_taxon, remove_taxon member/non-member, "
        "remove_taxon_label, discard_taxon_label, del ns[i], sort x3, reverse, clear, relabel (cold/warm lower-case "
        "cache), the label-lookup menu as operations, sort/reverse/relabel preceded by all lookups on the same object, "
        "remove+re-add same object, clear+re-add same object, taxon_bitmask(member) [cache fill], set is_mutable / is_case_sensitive, "
        "TaxonNamespace(ns), copy.copy, copy.deepcopy) with every argument choice (labels a/A/b incl. duplicates, "
        "every member index, is_case_sensitive None/True/False, first_match_only both) is applied to a fresh rebuild, "
        "up to the depth bound and <= max_members live members; a case = one transition (state, op) or one visited "
        "state (full observation suite: every subset of members, every query label x case rule); the same BFS is run "
        "again as three smaller layers over the labels ''/a/A (empty string as a label), sharp-s/capital sharp-s/ss and "
        "final sigma/sigma/capital sigma (lower() != casefold()), with their own depth / member "
        "bounds; a state visited in both layers is counted in each); non-trivial = the "
        "state (pre-state for transitions) has >= 2 members")
ASSUMPTIONS = [
    "the namespace's state is exactly its fields _taxa, _taxon_accession_index_map, _accession_index_taxon_map, "
    "_taxon_bitmask_map, _current_accession_count, is_case_sensitive, is_mutable plus each member's label "
    "and its two flags; states are rebuilt by assigning these fields directly.  Any other attribute found in the "
    "__dict__ of the namespace or of a member Taxon (a later library version may add private fields) is carried "
    "generically: encoded (Taxon -> member index, containers recursively, scalars as they are, anything else -> type "
    "name) into the visited-state key and restored on rebuild; a value of an unencodable type cannot be restored "
    "(counter states_with_unrestorable_unknown_fields) and is then only exercised through the compound operations "
    "'[all lookups]; sort/reverse/relabel' on one live object",
    "label lookups are also operations of the history (menu: get_taxon/has_taxon_label/get_taxa(first_match_only) x "
    "{a, A} x {None, True, False}; findall/get_taxa/has_taxa_labels x a x {None, False}); on a library without "
    "hidden lookup state they are self-loops",
    "Taxon objects that are not members carry no namespace state except through re-use of the same object, which is "
    "explored by the compound operations 'remove+add same object', 'clear+add same object' and 'read lower_cased_label, relabel' and by "
    "running the light observation suite on the live object after every transition",
    "case-insensitive matching is str.lower() equality (documented as lower_cased_label); labels of the alphabet "
    "need no Newick quoting, so a rendered token is the label itself",
    "the bit of a *new* member is the library's choice: the oracle only requires a single bit not shared with any "
    "other current member (the statement does not forbid re-use of a bit freed by a removed taxon)",
    "all_taxa_bitmask() is only required to contain every member's bit (docstring: 'spanning all Taxon objects'); "
    "dead bits of removed taxa are allowed",
    "multi-label get_taxa() is compared as a set (the statement fixes the order only within one label's matches)",
    "sort(): any ordering that is sorted by the key is accepted (ties are the library's business)",
    "the empty string is a legal label and is matched like any other string (lower('') == ''); a member labelled '' "
    "is rendered by bitmask_as_newick_string as an empty token, which cannot be told from 'no taxon', so such "
    "members are left out of the comparison of Newick renderings (non-deciding there, deciding everywhere else)",
]
MANIFEST = {
    "engine": "E2-HIST",
    "text": ("Every history of namespace operations up to the depth bound, from every constructor-built start state, "
             "is executed on the real TaxonNamespace with visited-state hashing on the canonical snapshot; after "
             "every transition the members' bits are compared with the bits they had before (stability), new bits "
             "must be fresh single bits (one-to-one), and in every visited state every subset of members is turned "
             "into a bitmask and back and through every textual rendering, and every label lookup function is "
             "compared with a linear scan under every case rule.  Immutability and the three copy routes are "
             "transitions of the same graph."),
    "note": ("trusted: the harness's plain-Python membership/bit model, the snapshot/rebuild of the seven primitive "
             "fields, str.lower for case folding, the regular-expression parser for the '((..), (..));' rendering"),
    "technique": "explicit-state BFS over operation histories on the implementation, reference model per transition",
}

LABELS = ("a", "A", "b")
QUERY_LABELS = ("a", "A", "b", "B", "c")
LIST_LABELS = ("a", "A", "b", "c")
CS3 = ("N", "T", "F")          # is_case_sensitive argument: None / True / False
CSVAL = {"N": None, "T": True, "F": False}

KNOWN_NS_FIELDS = {"comments", "is_mutable", "is_case_sensitive", "_accession_index_taxon_map", "_taxa",
                   "_taxon_accession_index_map", "_taxon_bitmask_map", "_current_accession_count", "_label",
                   "_annotations"}
KNOWN_TAXON_FIELDS = {"_label", "_lower_cased_label", "comments", "_annotations"}


# Two layers of the same BFS: "main" (labels a/A/b) and a smaller "empty" layer whose label alphabet
# contains the empty string (a legal label: lower('') == '' and '' matches only '').
ALPHA = {
    "main": {"labels": LABELS, "query": QUERY_LABELS, "list": LIST_LABELS,
             "lookup_first": ("a", "A"), "lookup_all": ("a",)},
    "empty": {"labels": ("", "a", "A"), "query": ("", "a", "A", "b"), "list": ("", "a", "A"),
              "lookup_first": ("", "a"), "lookup_all": ("",)},
    # labels whose str.lower() and str.casefold() differ (the library lower()s both sides)
    "eszett": {"labels": ("\u00df", "\u1e9e", "ss"), "query": ("\u00df", "\u1e9e", "ss", "SS"), "list": ("\u00df", "\u1e9e", "ss"),
               "lookup_first": ("\u00df", "\u1e9e"), "lookup_all": ("\u00df",)},
    "sigma": {"labels": ("\u03c2", "\u03c3", "\u03a3"), "query": ("\u03c2", "\u03c3", "\u03a3", "a"), "list": ("\u03c2", "\u03c3", "\u03a3"),
              "lookup_first": ("\u03c2", "\u03a3"), "lookup_all": ("\u03c3",)},
}
LAYER_PREFIX = {"main": "", "empty": "empty_label_layer_", "eszett": "eszett_layer_", "sigma": "sigma_layer_"}
_LAYER = ["main"]


def A():
    return ALPHA[_LAYER[0]]


def set_layer(layer):
    _LAYER[0] = layer if layer in ALPHA else "main"


def bounds(tier):
    if tier == "quick":
        return {"depth": 4, "max_members": 4, "labels": list(LABELS), "start_label_sequences_up_to": 2,
                "case_args": list(CS3), "chunk_states": 40,
                "empty_label_layer": {"depth": 3, "max_members": 3, "labels": list(ALPHA["empty"]["labels"]),
                                      "start_label_sequences_up_to": 2, "chunk_states": 40},
                "further_small_layers_with_the_same_bounds": {k: list(ALPHA[k]["labels"]) for k in ("eszett", "sigma")}}
    return {"depth": 5, "max_members": 4, "labels": list(LABELS), "start_label_sequences_up_to": 3,
            "case_args": list(CS3), "chunk_states": 60,
            "empty_label_layer": {"depth": 4, "max_members": 4, "labels": list(ALPHA["empty"]["labels"]),
                                  "start_label_sequences_up_to": 2, "chunk_states": 60},
            "further_small_layers_with_the_same_bounds": {k: list(ALPHA[k]["labels"]) for k in ("eszett", "sigma")}}


def layer_bounds(tier, layer):
    """the small layers all use the bounds recorded as 'empty_label_layer', each with its own labels"""
    b = bounds(tier)
    if layer == "main":
        return b
    return dict(b["empty_label_layer"], labels=list(ALPHA[layer]["labels"]))


# ---------------------------------------------------------------------------
# canonical states

def tup(x):
    if isinstance(x, (list, tuple)):
        return tuple(tup(y) for y in x)
    return x


def mkstate(cs, mut, counter, members, extra=()):
    return (bool(cs), bool(mut), int(counter), tuple((str(l), int(i), int(bool(c))) for l, i, c in members), tup(extra))


def norm_state(state):
    """accepts the 4-field form of older replay files"""
    state = tup(state)
    if len(state) == 4:
        state = state + (baseline_extra(),)
    return state


def pretty(state):
    cs, mut, counter, members = state[:4]
    hid = hidden_items(state) if len(state) > 4 else []
    return "cs=%s mutable=%s count=%d [%s]%s" % ("T" if cs else "F", "T" if mut else "F", counter,
                                                  ", ".join("%s@%d%s" % (l if l != "" else "''", i, "*" if c else "") for l, i, c in members),
                                                  "".join(" %s=%s" % (n, show_enc(e)) for n, e in hid))


# -- state fields the harness does not know by name (added by a later library version) are
#    carried generically: encoded into the visited-state key and restored on rebuild

_TAGS = ("T", "NS", "dict", "list", "tuple", "set", "type")


def enc(v, ns, pos):
    if isinstance(v, Taxon):
        return ("T", pos.get(id(v), -1), v._label)
    if isinstance(v, TaxonNamespace):
        return ("NS",)
    if isinstance(v, dict):
        items = [(enc(k, ns, pos), enc(x, ns, pos)) for k, x in v.items()]
        return ("dict", tuple(sorted(items, key=lambda kv: repr(kv[0]))))
    if isinstance(v, list):
        return ("list", tuple(enc(x, ns, pos) for x in v))
    if isinstance(v, tuple):
        return ("tuple", tuple(enc(x, ns, pos) for x in v))
    if isinstance(v, (set, frozenset)):
        return ("set", tuple(sorted((enc(x, ns, pos) for x in v), key=repr)))
    if v is None or isinstance(v, (str, int, float, bool)):
        return v
    return ("type", type(v).__name__)


class _NotRestorable(Exception):
    pass


def dec(e, ns, taxa):
    if isinstance(e, tuple) and e and e[0] in _TAGS:
        tag = e[0]
        if tag == "T":
            return taxa[e[1]] if 0 <= e[1] < len(taxa) else Taxon(label=e[2])
        if tag == "NS":
            return ns
        if tag == "dict":
            return dict((dec(k, ns, taxa), dec(x, ns, taxa)) for k, x in e[1])
        if tag == "list":
            return [dec(x, ns, taxa) for x in e[1]]
        if tag == "tuple":
            return tuple(dec(x, ns, taxa) for x in e[1])
        if tag == "set":
            return set(dec(x, ns, taxa) for x in e[1])
        raise _NotRestorable(e[1])
    return e


def _has_type_tag(e):
    if isinstance(e, tuple) and e and e[0] in _TAGS:
        if e[0] == "type":
            return True
        if e[0] in ("T", "NS"):
            return False
        if e[0] == "dict":
            return any(_has_type_tag(k) or _has_type_tag(x) for k, x in e[1])
        return any(_has_type_tag(x) for x in e[1])
    return False


def show_enc(e):
    if isinstance(e, tuple) and e and e[0] in _TAGS:
        tag = e[0]
        if tag == "T":
            return "<member %d %r>" % (e[1], e[2]) if e[1] >= 0 else "<non-member %r>" % (e[2],)
        if tag == "NS":
            return "<ns>"
        if tag == "dict":
            return "{%s}" % ", ".join("%s: %s" % (show_enc(k), show_enc(x)) for k, x in e[1])
        if tag == "type":
            return "<%s>" % e[1]
        return "%s(%s)" % (tag, ", ".join(show_enc(x) for x in e[1]))
    return repr(e)


_BASELINE = []


def baseline_extra():
    """unknown fields of a freshly constructed empty namespace"""
    if not _BASELINE:
        _BASELINE.append(snapshot(TaxonNamespace())[0][4])
    return _BASELINE[0]


_TAXON_BASELINE = []


def taxon_baseline():
    """unknown fields of a freshly constructed Taxon"""
    if not _TAXON_BASELINE:
        t = Taxon(label="x")
        _TAXON_BASELINE.append(dict((n, enc(t.__dict__[n], None, {})) for n in set(t.__dict__) - KNOWN_TAXON_FIELDS))
    return _TAXON_BASELINE[0]


def hidden_items(state):
    """unknown fields whose value differs from that in a fresh namespace / fresh Taxon"""
    base = dict(baseline_extra())
    tb = taxon_baseline()
    out = []
    for n, e in state[4]:
        if n.startswith("taxon["):
            if tb.get(n.split("].", 1)[1], ("absent",)) != e:
                out.append((n, e))
        elif base.get(n, ("absent",)) != e:
            out.append((n, e))
    return out


def hidden_names(state):
    return sorted(set(("Taxon." + n.split("].", 1)[1]) if n.startswith("taxon[") else n for n, _e in hidden_items(state)))


def strip_hidden(state):
    return state[:4] + (baseline_extra(),)


def build(state):
    """Fresh real namespace from a snapshot, by assigning the primitive fields (and, generically,
    any field the harness does not know by name)."""
    cs, mut, counter, members = state[:4]
    ns = TaxonNamespace(is_case_sensitive=bool(cs))
    taxa = []
    for label, idx, cached in members:
        t = Taxon(label=label)
        ns._taxa.append(t)
        ns._taxon_accession_index_map[t] = idx
        ns._accession_index_taxon_map[idx] = t
        if cached:
            ns._taxon_bitmask_map[t] = 1 << idx
        taxa.append(t)
    ns._current_accession_count = counter
    ns.is_mutable = bool(mut)
    for name, e in (state[4] if len(state) > 4 else ()):
        try:
            v = dec(e, ns, taxa)
        except _NotRestorable:
            continue        # stays as the constructor left it; see ASSUMPTIONS
        if name.startswith("taxon["):
            i, field = name[6:].split("].", 1)
            if int(i) < len(taxa):
                taxa[int(i)].__dict__[field] = v
        else:
            ns.__dict__[name] = v
    return ns, taxa


def snapshot(ns):
    """(state, problems).  Reads the primitive fields only."""
    problems = []
    members = []
    seen = set()
    pos = {}
    for i, t in enumerate(ns._taxa):
        pos.setdefault(id(t), i)
    extra = []
    for name in sorted(set(ns.__dict__) - KNOWN_NS_FIELDS):
        extra.append((name, enc(ns.__dict__[name], ns, pos)))
    for i, t in enumerate(ns._taxa):
        for name in sorted(set(t.__dict__) - KNOWN_TAXON_FIELDS):
            extra.append(("taxon[%d].%s" % (i, name), enc(t.__dict__[name], ns, pos)))
        if id(t) in seen:
            problems.append("member listed twice")
        seen.add(id(t))
        idx = ns._taxon_accession_index_map.get(t)
        if idx is None:
            problems.append("member %r has no accession index" % (t._label,))
            idx = -1
        elif ns._accession_index_taxon_map.get(idx) is not t:
            problems.append("index maps disagree for member %r" % (t._label,))
        cached = ns._taxon_bitmask_map.get(t)
        if cached is not None and idx >= 0 and cached != (1 << idx):
            problems.append("cached bitmask of %r disagrees with its accession index" % (t._label,))
        members.append((t._label, idx, cached is not None))
    if not isinstance(ns.is_case_sensitive, bool) or not isinstance(ns.is_mutable, bool):
        problems.append("flags are not booleans")
    if problems:
        return None, problems
    return mkstate(ns.is_case_sensitive, ns.is_mutable, ns._current_accession_count, members, extra), problems


# ---------------------------------------------------------------------------
# plain-Python reference

def eff_cs(c, ns_cs):
    return ns_cs if c == "N" else (c == "T")


def matches(label, q, cs):
    if cs:
        return label == q
    return str(label).lower() == str(q).lower()


def scan(labels, q, cs):
    """indices of members whose label matches q, in membership order"""
    return [i for i, l in enumerate(labels) if matches(l, q, cs)]


def model(state, op):
    """Expected effect of op on state.  after = list of int (old member i keeps its place in the
    result) | ("new", label, slot) | ("re", i); None = 'any sorted permutation'."""
    cs, mut, counter, members = state[:4]
    labels = [m[0] for m in members]
    k = len(members)
    cur = list(range(k))
    out = {"exc": None, "after": cur, "ret": None}
    kind = op[0]
    if kind == "add_new":
        if mut:
            out["after"] = cur + [("new", op[1], 0)]
        else:
            out["exc"] = "immutable"
    elif kind == "add_member":
        pass
    elif kind == "new_taxon":
        if mut:
            out["after"] = cur + [("new", op[1], None)]
            out["ret"] = ("pos", k)
        else:
            out["exc"] = "immutable"
    elif kind == "new_taxa":
        if mut:
            out["after"] = cur + [("new", l, None) for l in op[1]]
            out["ret"] = ("poslist", list(range(k, k + len(op[1]))))
        else:
            out["exc"] = "immutable"
    elif kind == "add_taxa":
        after = list(cur)
        added = set()
        for item in op[1]:
            if item[0] == "m" or item[2] in added:
                continue
            if not mut:
                out["exc"] = "immutable"
                break
            added.add(item[2])
            after.append(("new", item[1], item[2]))
        out["after"] = after
    elif kind == "require":
        hit = scan(labels, op[1], eff_cs(op[2], cs))
        if hit:
            out["ret"] = ("pos", hit[0])
        elif mut:
            out["after"] = cur + [("new", op[1], None)]
            out["ret"] = ("pos", k)
        else:
            out["exc"] = "immutable"
    elif kind in ("remove", "del"):
        out["after"] = [i for i in cur if i != op[1]]
    elif kind == "remove_nonmember":
        out["exc"] = "value"
    elif kind in ("remove_label", "discard_label"):
        hit = scan(labels, op[1], eff_cs(op[2], cs))
        if not hit:
            if kind == "remove_label":
                out["exc"] = "lookup"
        else:
            gone = set(hit[:1] if op[3] else hit)
            out["after"] = [i for i in cur if i not in gone]
    elif kind == "sort":
        out["after"] = None
    elif kind == "reverse":
        out["after"] = cur[::-1]
    elif kind == "clear":
        out["after"] = []
    elif kind == "clear_readd":
        if mut:
            out["after"] = [("re", op[1])]
        else:
            out["after"] = []
            out["exc"] = "immutable"
    elif kind == "readd":
        rest = [i for i in cur if i != op[1]]
        if mut:
            out["after"] = rest + [("re", op[1])]
        else:
            out["after"] = rest
            out["exc"] = "immutable"
    elif kind in ("relabel", "copy", "set_mutable", "set_cs", "touch", "lookup"):
        pass
    else:
        raise ValueError("unknown op %r" % (op,))
    return out


def expected_size(state, op):
    m = model(state, op)
    return len(state[3]) if m["after"] is None else len(m["after"])


def enabled_ops(state, b):
    cs, mut, counter, members = state[:4]
    k = len(members)
    L = b["labels"]
    ops = []
    for l in L:
        ops.append(("add_new", l))
    for i in range(k):
        ops.append(("add_member", i))
    for l in L:
        ops.append(("new_taxon", l))
    for l in L:
        for c in CS3:
            ops.append(("require", l, c))
    for l1 in L:
        for l2 in L:
            ops.append(("add_taxa", (("n", l1, 0), ("n", l2, 1))))
            ops.append(("new_taxa", (l1, l2)))
    for l in L:
        ops.append(("add_taxa", (("n", l, 0), ("n", l, 0))))      # the same object twice
        if k:
            ops.append(("add_taxa", (("m", 0), ("n", l, 0))))
            ops.append(("add_taxa", (("n", l, 0), ("m", k - 1))))
    for i in range(k):
        ops.append(("remove", i))
        ops.append(("del", i))
        ops.append(("readd", i))
        ops.append(("clear_readd", i))
        if not members[i][2]:
            ops.append(("touch", i))
        for l in L:
            if l != members[i][0]:
                ops.append(("relabel", i, l, 0))
                ops.append(("relabel", i, l, 1))
    ops.append(("remove_nonmember", "a"))
    for l in L:
        for c in CS3:
            for fmo in (0, 1):
                ops.append(("remove_label", l, c, fmo))
                ops.append(("discard_label", l, c, fmo))
    for v in ("default", "reverse", "key_lower"):
        ops.append(("sort", v, 0))
        ops.append(("sort", v, 1))      # 1 = preceded by the label lookups on the same live object
    ops.append(("reverse", 0))
    ops.append(("reverse", 1))
    ops.extend(lookup_ops())
    ops.append(("clear",))
    for how in ("ctor", "copy", "deepcopy"):
        ops.append(("copy", how))
    ops.append(("set_mutable", int(not mut)))
    ops.append(("set_cs", int(not cs)))
    cap = b["max_members"]
    return [op for op in ops if expected_size(state, op) <= cap]


# label lookups as operations of the history (they may change state the harness does not know
# by name); small menu: first-match APIs x {a, A} x {None, True, False}, all-match APIs x a x {None, False}
def lookup_ops():
    a = A()
    return [("lookup", api, l, c) for api in ("get_taxon", "has_taxon_label", "get_taxa_first")
            for l in a["lookup_first"] for c in CS3] + \
           [("lookup", api, l, c) for api in ("findall", "get_taxa_all", "has_taxa_labels")
            for l in a["lookup_all"] for c in ("N", "F")]


def is_warm(op):
    k = op[0]
    if k == "sort":
        return len(op) > 2 and bool(op[2])
    if k == "reverse":
        return len(op) > 1 and bool(op[1])
    if k == "relabel":
        return bool(op[3])
    return False


def warm_lookups(ns):
    """every lookup API once per label x case rule; results are not judged here"""
    for l in A()["labels"]:
        for c in CS3:
            kw = {"is_case_sensitive": CSVAL[c]}
            try:
                ns.get_taxon(l, **kw)
                ns.has_taxon_label(l, **kw)
                ns.get_taxa([l], first_match_only=True, **kw)
                ns.findall(l, **kw)
                ns.has_taxa_labels([l], **kw)
            except Exception:
                pass


SITE = {
    "add_new": "add_taxon", "add_member": "add_taxon(member)", "new_taxon": "new_taxon", "new_taxa": "new_taxa",
    "add_taxa": "add_taxa", "require": "require_taxon", "remove": "remove_taxon",
    "remove_nonmember": "remove_taxon(non-member)", "del": "delitem", "sort": "sort", "reverse": "reverse",
    "clear": "clear", "readd": "remove_taxon+add_taxon(same object)", "clear_readd": "clear+add_taxon(same object)", "relabel": "relabel",
    "set_mutable": "set_is_mutable", "set_cs": "set_is_case_sensitive", "touch": "taxon_bitmask",
}


def site(op):
    k = op[0]
    if k in ("remove_label", "discard_label"):
        return "%s|first_match_only=%s" % ("remove_taxon_label" if k == "remove_label" else "discard_taxon_label",
                                           bool(op[3]))
    if k == "copy":
        return {"ctor": "TaxonNamespace(ns)", "copy": "copy.copy", "deepcopy": "copy.deepcopy"}[op[1]]
    if k == "lookup":
        return {"get_taxa_first": "get_taxa", "get_taxa_all": "get_taxa"}.get(op[1], op[1])
    if is_warm(op):
        return "lookups+" + SITE[k]
    return SITE[k]


def opstr(op):
    k = op[0]
    cs = lambda c: "" if c == "N" else ", is_case_sensitive=%s" % CSVAL[c]
    if k == "add_new":
        return "ns.add_taxon(Taxon(%r))" % op[1]
    if k == "add_member":
        return "ns.add_taxon(ns[%d])" % op[1]
    if k == "new_taxon":
        return "ns.new_taxon(%r)" % op[1]
    if k == "new_taxa":
        return "ns.new_taxa(%r)" % (list(op[1]),)
    if k == "add_taxa":
        parts = []
        for it in op[1]:
            parts.append("ns[%d]" % it[1] if it[0] == "m" else "t%d:=Taxon(%r)" % (it[2], it[1]))
        return "ns.add_taxa([%s])" % ", ".join(parts)
    if k == "require":
        return "ns.require_taxon(%r%s)" % (op[1], cs(op[2]))
    if k == "remove":
        return "ns.remove_taxon(ns[%d])" % op[1]
    if k == "del":
        return "del ns[%d]" % op[1]
    if k == "remove_nonmember":
        return "ns.remove_taxon(Taxon(%r))" % op[1]
    if k in ("remove_label", "discard_label"):
        return "ns.%s(%r%s, first_match_only=%s)" % ("remove_taxon_label" if k == "remove_label" else "discard_taxon_label",
                                                     op[1], cs(op[2]), bool(op[3]))
    W = "[every lookup API x a/A/b x case rule]; " if is_warm(op) else ""
    if k == "sort":
        return W + {"default": "ns.sort()", "reverse": "ns.sort(reverse=True)",
                    "key_lower": "ns.sort(key=lambda t: t.label.lower())"}[op[1]]
    if k == "reverse":
        return W + "ns.reverse()"
    if k == "lookup":
        call = {"get_taxon": "get_taxon(%r%s)", "has_taxon_label": "has_taxon_label(%r%s)", "findall": "findall(%r%s)",
                "get_taxa_first": "get_taxa([%r]%s, first_match_only=True)", "get_taxa_all": "get_taxa([%r]%s)",
                "has_taxa_labels": "has_taxa_labels([%r]%s)"}[op[1]]
        return "ns." + call % (op[2], cs(op[3]))
    if k == "clear":
        return "ns.clear()"
    if k == "readd":
        return "t=ns[%d]; ns.remove_taxon(t); ns.add_taxon(t)" % op[1]
    if k == "clear_readd":
        return "t=ns[%d]; ns.clear(); ns.add_taxon(t)" % op[1]
    if k == "relabel":
        return "%sns[%d].label = %r" % (W + "ns[%d].lower_cased_label; " % op[1] if op[3] else "", op[1], op[2])
    if k == "copy":
        return {"ctor": "ns = TaxonNamespace(ns)", "copy": "ns = copy.copy(ns)", "deepcopy": "ns = copy.deepcopy(ns)"}[op[1]]
    if k == "set_mutable":
        return "ns.is_mutable = %s" % bool(op[1])
    if k == "set_cs":
        return "ns.is_case_sensitive = %s" % bool(op[1])
    if k == "touch":
        return "ns.taxon_bitmask(ns[%d])" % op[1]
    if k == "ctor":
        return "ns = TaxonNamespace(%s, is_case_sensitive=%s)" % (
            "[%s]" % ", ".join(("Taxon(%r)" % l) if op[2] else repr(l) for l in op[1]), bool(op[3]))
    return repr(op)


# ---------------------------------------------------------------------------
# running one operation on the live object

_BUDGET = [None]


def _run(fn):
    """('ok', value) | ('exc', e) | ('hang', where)"""
    if _BUDGET[0] is None:
        try:
            return ("ok", fn())
        except Exception as e:
            return ("exc", e)
    st, v, _n = budget.budgeted(fn, _BUDGET[0])
    return (st, v)


def do(op, ns, old, args):
    k = op[0]
    if k == "add_new":
        args[0] = Taxon(label=op[1])
        return ns.add_taxon(args[0])
    if k == "add_member":
        return ns.add_taxon(old[op[1]])
    if k == "new_taxon":
        return ns.new_taxon(op[1])
    if k == "new_taxa":
        return ns.new_taxa(list(op[1]))
    if k == "add_taxa":
        lst = []
        for it in op[1]:
            if it[0] == "m":
                lst.append(old[it[1]])
            else:
                if it[2] not in args:
                    args[it[2]] = Taxon(label=it[1])
                lst.append(args[it[2]])
        return ns.add_taxa(lst)
    if k == "require":
        return ns.require_taxon(op[1], is_case_sensitive=CSVAL[op[2]])
    if k == "remove":
        return ns.remove_taxon(old[op[1]])
    if k == "del":
        del ns[op[1]]
        return None
    if k == "remove_nonmember":
        return ns.remove_taxon(Taxon(label=op[1]))
    if k == "remove_label":
        return ns.remove_taxon_label(op[1], is_case_sensitive=CSVAL[op[2]], first_match_only=bool(op[3]))
    if k == "discard_label":
        return ns.discard_taxon_label(op[1], is_case_sensitive=CSVAL[op[2]], first_match_only=bool(op[3]))
    if is_warm(op):
        warm_lookups(ns)
    if k == "lookup":
        kw = {"is_case_sensitive": CSVAL[op[3]]}
        api = op[1]
        if api == "get_taxon":
            return ns.get_taxon(op[2], **kw)
        if api == "has_taxon_label":
            return ns.has_taxon_label(op[2], **kw)
        if api == "findall":
            return ns.findall(op[2], **kw)
        if api == "get_taxa_first":
            return ns.get_taxa([op[2]], first_match_only=True, **kw)
        if api == "get_taxa_all":
            return ns.get_taxa([op[2]], first_match_only=False, **kw)
        if api == "has_taxa_labels":
            return ns.has_taxa_labels([op[2]], **kw)
        raise ValueError(api)
    if k == "sort":
        if op[1] == "default":
            return ns.sort()
        if op[1] == "reverse":
            return ns.sort(reverse=True)
        return ns.sort(key=lambda t: t.label.lower())
    if k == "reverse":
        return ns.reverse()
    if k == "clear":
        return ns.clear()
    if k == "readd":
        t = old[op[1]]
        ns.remove_taxon(t)
        return ns.add_taxon(t)
    if k == "clear_readd":
        t = old[op[1]]
        ns.clear()
        return ns.add_taxon(t)
    if k == "relabel":
        t = old[op[1]]
        if op[3]:
            t.lower_cased_label
        t.label = op[2]
        return None
    if k == "copy":
        if op[1] == "ctor":
            return TaxonNamespace(ns)
        if op[1] == "copy":
            return copy.copy(ns)
        return copy.deepcopy(ns)
    if k == "set_mutable":
        ns.is_mutable = bool(op[1])
        return None
    if k == "set_cs":
        ns.is_case_sensitive = bool(op[1])
        return None
    if k == "touch":
        return ns.taxon_bitmask(old[op[1]])
    raise ValueError("unknown op %r" % (op,))


EXC = {"immutable": (TypeError, "ImmutableTaxonNamespaceError/TypeError"),
       "value": (ValueError, "ValueError"), "lookup": (LookupError, "LookupError")}


def single_bit(b):
    return isinstance(b, int) and b > 0 and (b & (b - 1)) == 0


def _light(ns, live, bits, ns_cs, first_match=False):
    """Cheap observation suite: full-set and singleton round trips, all_taxa_bitmask, findall for
    every label x case rule (with first_match: also the first-match lookups).  Returns [(signature, message)] of failed observations (signatures
    are the same as those of the full suite in check_state)."""
    fails = []
    want = 0
    for b in bits:
        want |= b
    full = None
    try:
        full = ns.taxa_bitmask(taxa=list(live))
        if full != want:
            fails.append(("taxa_bitmask|wrong-mask", "taxa_bitmask(all members)=%s, members' bits give %s" % (bin(full), bin(want))))
            full = None
    except Exception as e:
        fails.append(("taxa_bitmask|exception:%s" % type(e).__name__, "taxa_bitmask(taxa=all members) raised %r" % (e,)))
    try:
        if full is not None:
            back = ns.bitmask_taxa_list(full)
            if len(back) != len(live) or set(map(id, back)) != set(map(id, live)):
                fails.append(("bitmask_taxa_list|wrong-taxa", "bitmask_taxa_list(%s) returned %s, members are %s" % (
                    bin(full), [t._label for t in back], [t._label for t in live])))
        for t, b in zip(live, bits):
            back = ns.bitmask_taxa_list(b)
            if len(back) != 1 or back[0] is not t:
                fails.append(("bitmask_taxa_list|wrong-taxa", "bitmask_taxa_list(%s) returned %s, the bit belongs to %r" % (
                    bin(b), [x._label for x in back], t._label)))
                break
    except Exception as e:
        fails.append(("bitmask_taxa_list|exception:%s" % type(e).__name__, "bitmask_taxa_list raised %r" % (e,)))
    try:
        am = ns.all_taxa_bitmask()
        if (am & want) != want:
            fails.append(("all_taxa_bitmask|misses-member-bit", "all_taxa_bitmask()=%s does not contain members' bits %s" % (bin(am), bin(want))))
    except Exception as e:
        fails.append(("all_taxa_bitmask|exception:%s" % type(e).__name__, repr(e)))
    labels = [t._label for t in live]
    for q in A()["labels"]:
        for c in CS3:
            e = eff_cs(c, ns_cs)
            wantl = [live[i] for i in scan(labels, q, e)]
            try:
                got = ns.findall(q, is_case_sensitive=CSVAL[c])
            except Exception as ex:
                fails.append(("lookup|exception:%s" % type(ex).__name__, "findall(%r) raised %r" % (q, ex)))
                return fails
            if not isinstance(got, list) or len(got) != len(wantl) or any(x is not y for x, y in zip(got, wantl)):
                fails.append(("findall|wrong-result|%s" % ("case-sensitive" if e else "case-insensitive"),
                              "findall(%r, is_case_sensitive=%s) on labels %s (namespace is_case_sensitive=%s) returned %s, linear scan gives %s" % (
                                  q, CSVAL[c], labels, ns_cs, [t._label for t in got] if isinstance(got, list) else got,
                                  [t._label for t in wantl])))
            if first_match:
                feature = "case-sensitive" if e else "case-insensitive"
                first = wantl[0] if wantl else None
                try:
                    got = ns.get_taxon(q, is_case_sensitive=CSVAL[c])
                    if got is not first:
                        fails.append(("get_taxon|wrong-result|%s" % feature, "get_taxon(%r, is_case_sensitive=%s) on labels %s returned %s, first match is %s" % (
                            q, CSVAL[c], labels, _where(got, live), _where(first, live))))
                    got = ns.get_taxa([q], is_case_sensitive=CSVAL[c], first_match_only=True)
                    if not isinstance(got, list) or len(got) != len(wantl[:1]) or any(x is not y for x, y in zip(got, wantl[:1])):
                        fails.append(("get_taxa|wrong-result|%s" % feature, "get_taxa([%r], is_case_sensitive=%s, first_match_only=True) on labels %s returned %s, first match is %s" % (
                            q, CSVAL[c], labels, [_where(x, live) for x in got] if isinstance(got, list) else got, _where(first, live))))
                    got = ns.has_taxon_label(q, is_case_sensitive=CSVAL[c])
                    if got is not bool(wantl):
                        fails.append(("has_taxon_label|wrong-result|%s" % feature, "has_taxon_label(%r, is_case_sensitive=%s)=%r over %s" % (q, CSVAL[c], got, labels)))
                except Exception as ex:
                    fails.append(("lookup|exception:%s" % type(ex).__name__, "first-match lookup of %r raised %r" % (q, ex)))
                    return fails
    return fails


def _where(t, live):
    if t is None:
        return None
    for i, x in enumerate(live):
        if x is t:
            return "member %d (%r)" % (i, x._label)
    return "non-member %r" % (getattr(t, "_label", t),)


def light_observations(sig_site, ns, live, bits, ns_cs, V, succ=None, first_match=False):
    """Run the cheap suite on the live object an operation has just been applied to.  An observation
    that also fails on a fresh rebuild of the same snapshot (without any state the harness does not
    know by name) is a defect of the observer and keeps its plain signature; one that fails only on
    the live object was caused by the operation and is reported as '<observer signature>|after:<operation>'."""
    fails = _light(ns, live, bits, ns_cs, first_match)
    if not fails:
        return
    base = None
    if succ is not None:
        ns2, live2 = build(strip_hidden(succ))
        base = set(sig for sig, _m in _light(ns2, live2, [1 << m[1] for m in succ[3]], succ[0], first_match))
    for sig, msg in fails:
        if base is not None and sig in base:
            V(sig, msg)
        else:
            V("%s|after:%s" % (sig, sig_site), msg)


def check_lookup(state, op, ctx):
    """A label lookup as an operation of the history: judged by the linear scan, must not change
    membership or bits; the successor differs from the state only in fields the harness does not
    know by name (if the library keeps any)."""
    case = {"kind": "trans", "layer": _LAYER[0], "state": state, "op": op, "py": opstr(op), "pre": pretty(state)}

    def V(sig, msg):
        ctx.violation(sig, "%s   [state %s; op %s]" % (msg, pretty(state), opstr(op)), case)

    cs, mut, counter, members = state[:4]
    ns, live = build(state)
    labels = [m[0] for m in members]
    _k, api, q, c = op
    e = eff_cs(c, cs)
    feature = "case-sensitive" if e else "case-insensitive"
    hit = [live[i] for i in scan(labels, q, e)]
    st, val = _run(lambda: do(op, ns, live, {}))
    if st == "hang":
        V("%s|hang" % site(op), "step budget exceeded at %s" % (val,))
        return None
    if st == "exc":
        V("lookup|exception:%s" % type(val).__name__, "%s raised %r" % (opstr(op), val))
        return None
    if api == "get_taxon":
        good = val is (hit[0] if hit else None)
    elif api in ("has_taxon_label", "has_taxa_labels"):
        good = val is bool(hit)
    else:
        want = hit[:1] if api == "get_taxa_first" else hit
        good = isinstance(val, list) and len(val) == len(want) and all(x is y for x, y in zip(val, want))
    if not good:
        shown = [_where(x, live) for x in val] if isinstance(val, list) else (_where(val, live) if isinstance(val, Taxon) else val)
        V("%s|wrong-result|%s" % (site(op), feature), "%s over labels %s returned %s; linear scan: matches are %s" % (
            opstr(op), labels, shown, [_where(x, live) for x in hit]))
    succ, probs = snapshot(ns)
    if succ is None or succ[:3] != state[:3] or [m[:2] for m in succ[3]] != [m[:2] for m in members] or \
            any(a is not b2 for a, b2 in zip(ns._taxa, live)):
        V("observation|changed-state", "a read-only call changed the namespace: %s" % (probs or pretty(succ),))
        return None
    return succ


def judged(fn, state, ctx):
    """Run fn(state, ctx).  If the state carries fields the harness does not know by name whose value
    differs from a fresh namespace's, a violation that does not also occur on the same state without
    them is reported as '<signature>|hidden-state:<field names>'."""
    hid = hidden_names(state)
    if not hid:
        return fn(state, ctx)
    from mc.runner import Ctx
    sub = Ctx()
    r = fn(state, sub)
    if sub.viol:
        base = Ctx()
        fn(strip_hidden(state), base)
        for sig, ent in sub.viol.items():
            sig2 = sig if (sig in base.viol or "|after:" in sig) else "%s|hidden-state:%s" % (sig, ",".join(hid))
            for v in ent["first"]:
                ctx.violation(sig2, v["message"], v["case"])
            ctx.viol[sig2]["count"] += ent["count"] - len(ent["first"])
        sub.viol = {}
    ctx.merge(sub)
    return r


def check_transition(state, op, ctx):
    """Apply op to a fresh rebuild of state; compare with the model; returns the successor
    state (or None when the transition violated the model / has no representable result)."""
    state = norm_state(state)
    op = tup(op)
    if op[0] == "lookup":
        return check_lookup(state, op, ctx)
    case = {"kind": "trans", "layer": _LAYER[0], "state": state, "op": op, "py": opstr(op), "pre": pretty(state)}
    s_site = site(op)
    bad = [False]

    def V(sig, msg, fatal=True):
        # fatal: the resulting state is not a valid model state -> no successor
        if fatal:
            bad[0] = True
        ctx.violation(sig, "%s   [state %s; op %s]" % (msg, pretty(state), opstr(op)), case)

    def Vobs(sig, msg):
        V(sig, msg, fatal=False)

    cs, mut, counter, members = state[:4]
    ns, old = build(state)
    old_bits = [1 << m[1] for m in members]
    exp = model(state, op)
    args = {}
    st, val = _run(lambda: do(op, ns, old, args))
    if st == "hang":
        V("%s|hang" % s_site, "step budget exceeded at %s" % (val,))
        return None
    # 1. exceptions
    if st == "exc":
        if exp["exc"] is None or not isinstance(val, EXC[exp["exc"]][0]):
            V("%s|exception:%s" % (s_site, type(val).__name__), "raised %r, expected %s" % (
                val, "no exception" if exp["exc"] is None else EXC[exp["exc"]][1]))
            return None
    elif exp["exc"] is not None:
        V("%s|missing-exception:%s" % (s_site, EXC[exp["exc"]][1]), "no exception raised, documented: %s" % EXC[exp["exc"]][1], fatal=False)
    # 2. the object that carries the result
    is_copy = op[0] == "copy"
    target = val if is_copy else ns
    if is_copy:
        if not isinstance(val, TaxonNamespace) or val is ns:
            V("%s|not-a-new-namespace" % s_site, "copy returned %r" % (val,))
            return None
        s2, probs = snapshot(ns)
        if s2 != state:
            V("%s|source-changed" % s_site, "copying changed the source namespace: %s" % (probs or pretty(s2),), fatal=False)
    live = list(target._taxa)
    # 3. membership
    oldids = set(map(id, old))
    new_bits_needed = []      # positions whose bit is the library's choice
    keep = {}                 # position -> expected bit
    if is_copy:
        if len(live) != len(old):
            V("%s|wrong-members" % s_site, "copy has %d members, source has %d" % (len(live), len(old)))
            return None
        for pos, (t, o) in enumerate(zip(live, old)):
            if t._label != o._label:
                V("%s|wrong-members" % s_site, "copy member %d is %r, source member is %r" % (pos, t._label, o._label))
                return None
            keep[pos] = old_bits[pos]
        if len(set(map(id, live))) != len(live):
            V("%s|wrong-members" % s_site, "copy lists a taxon twice")
            return None
    elif exp["after"] is None:
        # sort: any permutation sorted by the key
        if sorted(map(id, live)) != sorted(oldids) or len(live) != len(old):
            V("%s|wrong-members" % s_site, "sort changed the membership: %s" % ([t._label for t in live],))
            return None
        keyf = (lambda l: l.lower()) if op[1] == "key_lower" else (lambda l: l)
        ks = [keyf(t._label) for t in live]
        okorder = all(ks[i] >= ks[i + 1] for i in range(len(ks) - 1)) if op[1] == "reverse" else \
            all(ks[i] <= ks[i + 1] for i in range(len(ks) - 1))
        if not okorder:
            V("%s|not-sorted" % s_site, "labels after sort: %s" % ([t._label for t in live],), fatal=False)
        pos_of = {id(t): i for i, t in enumerate(old)}
        for pos, t in enumerate(live):
            keep[pos] = old_bits[pos_of[id(t)]]
    else:
        after = exp["after"]
        okm = len(live) == len(after) and len(set(map(id, live))) == len(live)
        if okm:
            for pos, (t, e) in enumerate(zip(live, after)):
                if isinstance(e, int):
                    if t is not old[e]:
                        okm = False
                    keep[pos] = old_bits[e]
                elif e[0] == "re":
                    if t is not old[e[1]]:
                        okm = False
                    new_bits_needed.append(pos)
                else:
                    if id(t) in oldids or t._label != e[1] or (e[2] is not None and t is not args.get(e[2])):
                        okm = False
                    new_bits_needed.append(pos)
        if not okm:
            gained = [t for t in live if id(t) not in oldids]
            if not mut and gained:
                V("%s|gained-member-while-immutable" % s_site, "immutable namespace gained %s" % ([t._label for t in gained],))
            else:
                def show(e):
                    return members[e][0] if isinstance(e, int) else (members[e[1]][0] + "(re-added)" if e[0] == "re" else e[1] + "(new)")
                V("%s|wrong-members" % s_site, "members after the call: %s; expected: %s" % (
                    [t._label + ("" if id(t) in oldids else "(new)") for t in live], [show(e) for e in after]))
            return None
    # 4. snapshot before any observation touches the cache
    succ, probs = snapshot(target)
    # 5. bits: stability and one-to-one
    bits = []
    try:
        for pos, t in enumerate(live):
            bits.append(target.taxon_bitmask(t))
    except Exception as e:
        V("taxon_bitmask|exception:%s|after:%s" % (type(e).__name__, s_site), "taxon_bitmask(member) raised %r" % (e,))
        return None
    for pos, b in enumerate(bits):
        if pos in keep and b != keep[pos]:
            V("%s|bit-changed" % s_site, "member %r had bit %s before the call and has %s after it" % (
                live[pos]._label, bin(keep[pos]), bin(b) if isinstance(b, int) else b))
    for pos in new_bits_needed:
        if not single_bit(bits[pos]):
            V("%s|bit-not-single" % s_site, "new member %r got bitmask %r" % (live[pos]._label, bits[pos]))
    if len(set(bits)) != len(bits):
        V("%s|bit-shared" % s_site, "two members share a bit: %s" % ([(t._label, bin(b)) for t, b in zip(live, bits)],))
    if op[0] == "relabel" and old[op[1]].label != op[2]:
        V("%s|label-not-set" % s_site, "label reads %r after assignment of %r" % (old[op[1]].label, op[2]))
    if op[0] == "touch" and st == "ok" and val != old_bits[op[1]]:
        V("%s|bit-changed" % s_site, "taxon_bitmask returned %r, the member's bit is %s" % (val, bin(old_bits[op[1]])))
    if bad[0]:
        return None
    # 6. return values (reported; not fatal for the successor)
    r = exp["ret"]
    if st == "ok" and r is not None:
        if r[0] == "pos":
            if val is not live[r[1]]:
                Vobs("%s|return-value" % s_site, "returned %r, expected the member %r at position %d" % (val, live[r[1]]._label, r[1]))
        elif r[0] == "poslist":
            if not isinstance(val, list) or len(val) != len(r[1]) or any(v is not live[p] for v, p in zip(val, r[1])):
                Vobs("%s|return-value" % s_site, "returned %r, expected the new members in order" % (val,))
    # 7. observations on the live object (a failing observation is reported but does not
    #    invalidate the state itself, so the successor is still explored)
    if bad[0]:
        return None
    light_observations(s_site, target, live, bits, target.is_case_sensitive, Vobs, succ, first_match=is_warm(op))
    if succ is None:
        V("%s|inconsistent-internal-maps" % s_site, "; ".join(probs))
        return None
    return succ


# ---------------------------------------------------------------------------
# full observation suite in a state

_SPLIT_RE = re.compile(r"\(([^()]*)\)\s*,\s*\(([^()]*)\)")


def _toks(x):
    return [w.strip() for w in x.split(",") if w.strip() != ""]


def parse_rendering(s):
    """'((a, b), (c));' -> ('split', [a,b], [c]);  '(a,b,c);' -> ('star', [a,b,c]);  else None"""
    if not isinstance(s, str):
        return None
    s = s.strip()
    if not s.endswith(";"):
        return None
    body = s[:-1].strip()
    if not (body.startswith("(") and body.endswith(")")):
        return None
    inner = body[1:-1].strip()
    if inner.startswith("("):
        m = _SPLIT_RE.fullmatch(inner)
        if not m:
            return None
        return ("split", _toks(m.group(1)), _toks(m.group(2)))
    if "(" in inner or ")" in inner:
        return None
    return ("star", _toks(inner))


def label_lists():
    ll = A()["list"]
    return [()] + [(x,) for x in ll] + [(x, y) for x in ll for y in ll]


def check_state(state, ctx):
    state = norm_state(state)
    case = {"kind": "state", "layer": _LAYER[0], "state": state, "pre": pretty(state)}

    def V(sig, msg):
        ctx.violation(sig, "%s   [state %s]" % (msg, pretty(state)), case)

    cs, mut, counter, members = state[:4]
    ns, live = build(state)
    k = len(live)
    labels = [m[0] for m in members]
    bits = [1 << m[1] for m in members]
    order_feature = "bit-order-equals-list-order" if all(m[1] == i for i, m in enumerate(members)) else "bit-order-differs-from-list-order"
    # -- bits
    for t, b in zip(live, bits):
        for _rep in (0, 1):   # second call answers from the cache
            try:
                got = ns.taxon_bitmask(t)
            except Exception as e:
                V("taxon_bitmask|exception:%s" % type(e).__name__, "taxon_bitmask raised %r" % (e,))
                return
            if got != b:
                V("taxon_bitmask|wrong-bit", "taxon_bitmask(%r)=%r, accession bit is %s" % (t._label, got, bin(b)))
    try:
        am = ns.all_taxa_bitmask()
    except Exception as e:
        V("all_taxa_bitmask|exception:%s" % type(e).__name__, repr(e))
        return
    allbits = 0
    for b in bits:
        allbits |= b
    if (am & allbits) != allbits:
        V("all_taxa_bitmask|misses-member-bit", "all_taxa_bitmask()=%s does not contain members' bits %s" % (bin(am), bin(allbits)))
    # -- every subset
    nsub = 0
    for r in range(k + 1):
        for idxs in itertools.combinations(range(k), r):
            nsub += 1
            S = [live[i] for i in idxs]
            want = 0
            for i in idxs:
                want |= bits[i]
            try:
                m = ns.taxa_bitmask(taxa=S)
            except Exception as e:
                V("taxa_bitmask|exception:%s" % type(e).__name__, "taxa_bitmask(taxa=...) raised %r" % (e,))
                continue
            if m != want:
                V("taxa_bitmask|wrong-mask", "taxa_bitmask(%s)=%s, members' bits give %s" % ([labels[i] for i in idxs], bin(m), bin(want)))
                continue
            try:
                back = ns.bitmask_taxa_list(m)
                if len(back) != len(S) or set(map(id, back)) != set(map(id, S)):
                    V("bitmask_taxa_list|wrong-taxa", "bitmask_taxa_list(%s) returned %s, the mask was made from %s" % (
                        bin(m), [t._label for t in back], [labels[i] for i in idxs]))
            except Exception as e:
                V("bitmask_taxa_list|exception:%s" % type(e).__name__, "bitmask_taxa_list(%s) raised %r" % (bin(m), e))
            # an empty label is rendered as an empty token, which cannot be told from "no taxon":
            # members labelled '' are left out of the comparison of renderings (non-deciding)
            inside = sorted(labels[i] for i in idxs if labels[i] != "")
            outside = sorted(labels[i] for i in range(k) if i not in idxs and labels[i] != "")
            for fname in ("bitmask_as_newick_string", "split_as_newick_string"):
                try:
                    s = getattr(ns, fname)(m)
                except Exception as e:
                    V("%s|exception:%s" % (fname, type(e).__name__), "%s(%s) raised %r" % (fname, bin(m), e))
                    continue
                p = parse_rendering(s)
                if p is None:
                    V("%s|unparsable" % fname, "%s(%s) returned %r" % (fname, bin(m), s))
                    continue
                if p[0] == "star":
                    good = (r == 0 or r == k) and sorted(p[1]) == sorted(l for l in labels if l != "")
                else:
                    good = sorted(p[1]) == inside and sorted(p[2]) == outside
                if not good:
                    V("%s|wrong-taxa|%s" % (fname, order_feature),
                      "%s(%s) = %r but the mask stands for %s (other members: %s)" % (fname, bin(m), s, inside, outside))
            try:
                s = ns.bitmask_as_bitstring(m)
                if not isinstance(s, str) or (set(s) - set("01")) or s == "" or int(s, 2) != m:
                    V("bitmask_as_bitstring|wrong-bits", "bitmask_as_bitstring(%s) = %r" % (bin(m), s))
            except Exception as e:
                V("bitmask_as_bitstring|exception:%s" % type(e).__name__, "bitmask_as_bitstring(%s) raised %r" % (bin(m), e))
    ctx.count("subsets_roundtripped_and_rendered", nsub)
    # -- label lookups
    nlook = 0

    def cmp_list(fname, feature, got, wantidx, desc):
        want = [live[i] for i in wantidx]
        if not isinstance(got, list) or len(got) != len(want) or any(x is not y for x, y in zip(got, want)):
            V("%s|wrong-result|%s" % (fname, feature), "%s returned %s, linear scan over %s gives %s" % (
                desc, [t._label for t in got] if isinstance(got, list) else got, labels, [labels[i] for i in wantidx]))

    for c in CS3:
        e = eff_cs(c, cs)
        feature = "case-sensitive" if e else "case-insensitive"
        kw = {"is_case_sensitive": CSVAL[c]}
        for q in A()["query"]:
            hit = scan(labels, q, e)
            nlook += 5
            try:
                cmp_list("findall", feature, ns.findall(q, **kw), hit, "findall(%r, is_case_sensitive=%s)" % (q, CSVAL[c]))
                got = ns.get_taxon(q, **kw)
                if (got is not live[hit[0]]) if hit else (got is not None):
                    V("get_taxon|wrong-result|%s" % feature, "get_taxon(%r, is_case_sensitive=%s) returned %r, first match in %s is %s" % (
                        q, CSVAL[c], got, labels, ("member %d" % hit[0]) if hit else None))
                got = ns.has_taxon_label(q, **kw)
                if got is not bool(hit):
                    V("has_taxon_label|wrong-result|%s" % feature, "has_taxon_label(%r, is_case_sensitive=%s)=%r over %s" % (q, CSVAL[c], got, labels))
                cmp_list("get_taxa", feature, ns.get_taxa([q], first_match_only=False, **kw), hit,
                         "get_taxa([%r], is_case_sensitive=%s)" % (q, CSVAL[c]))
                cmp_list("get_taxa", feature, ns.get_taxa([q], first_match_only=True, **kw), hit[:1],
                         "get_taxa([%r], is_case_sensitive=%s, first_match_only=True)" % (q, CSVAL[c]))
            except Exception as ex:
                V("lookup|exception:%s" % type(ex).__name__, "label lookup of %r raised %r" % (q, ex))
        for ll in label_lists():
            hits = [scan(labels, q, e) for q in ll]
            union = set(i for h in hits for i in h)
            firsts = set(h[0] for h in hits if h)
            nlook += 3
            try:
                if len(ll) != 1:
                    got = ns.get_taxa(list(ll), first_match_only=False, **kw)
                    if not isinstance(got, list) or set(map(id, got)) != set(id(live[i]) for i in union):
                        V("get_taxa|wrong-result|%s" % feature, "get_taxa(%r, is_case_sensitive=%s) returned %s over %s" % (
                            list(ll), CSVAL[c], [t._label for t in got], labels))
                    got = ns.get_taxa(list(ll), first_match_only=True, **kw)
                    if not isinstance(got, list) or set(map(id, got)) != set(id(live[i]) for i in firsts):
                        V("get_taxa|wrong-result|%s" % feature, "get_taxa(%r, is_case_sensitive=%s, first_match_only=True) returned %s over %s" % (
                            list(ll), CSVAL[c], [t._label for t in got], labels))
                got = ns.has_taxa_labels(list(ll), **kw)
                if got is not all(bool(h) for h in hits):
                    V("has_taxa_labels|wrong-result|%s" % feature, "has_taxa_labels(%r, is_case_sensitive=%s)=%r over %s" % (
                        list(ll), CSVAL[c], got, labels))
            except Exception as ex:
                V("lookup|exception:%s" % type(ex).__name__, "label-list lookup of %r raised %r" % (ll, ex))
    # taxa_bitmask(labels=...) uses the namespace's own rule
    for ll in label_lists():
        want = 0
        for q in ll:
            for i in scan(labels, q, cs):
                want |= bits[i]
        nlook += 1
        try:
            got = ns.taxa_bitmask(labels=list(ll))
            if got != want:
                V("taxa_bitmask(labels)|wrong-mask|%s" % ("case-sensitive" if cs else "case-insensitive"),
                  "taxa_bitmask(labels=%r)=%s, matching members' bits give %s (labels %s)" % (list(ll), bin(got), bin(want), labels))
        except Exception as ex:
            V("taxa_bitmask(labels)|exception:%s" % type(ex).__name__, "taxa_bitmask(labels=%r) raised %r" % (list(ll), ex))
    ctx.count("label_lookups_compared", nlook)
    # the observations must not have changed the membership
    s2, probs = snapshot(ns)
    if s2 is None or (s2[0], s2[1], s2[2], tuple((l, i) for l, i, _c in s2[3])) != (cs, mut, counter, tuple((l, i) for l, i, _c in members)):
        V("observation|changed-state", "read-only calls changed the namespace: %s" % (probs or pretty(s2),))


# ---------------------------------------------------------------------------
# start states: constructor calls

def ctor_ops(b):
    out = []
    L = b["labels"]
    for cs in (0, 1):
        for n in range(0, b["start_label_sequences_up_to"] + 1):
            for seq in itertools.product(L, repeat=n):
                out.append(("ctor", seq, 0, cs))
                if n:
                    out.append(("ctor", seq, 1, cs))
    return out


def check_ctor(op, ctx):
    op = tup(op)
    _k, seq, as_taxa, cs = op
    case = {"kind": "ctor", "layer": _LAYER[0], "op": op, "py": opstr(op)}
    bad = [False]

    def V(sig, msg, fatal=True):
        if fatal:
            bad[0] = True
        ctx.violation(sig, "%s   [%s]" % (msg, opstr(op)), case)

    given = [Taxon(label=l) for l in seq] if as_taxa else None
    try:
        if not seq:
            ns = TaxonNamespace(is_case_sensitive=bool(cs))
        else:
            ns = TaxonNamespace(given if as_taxa else list(seq), is_case_sensitive=bool(cs))
    except Exception as e:
        V("TaxonNamespace(iterable)|exception:%s" % type(e).__name__, "constructor raised %r" % (e,))
        return None
    live = list(ns._taxa)
    if [t._label for t in live] != list(seq) or len(set(map(id, live))) != len(live) or \
            (as_taxa and any(a is not b2 for a, b2 in zip(live, given))):
        V("TaxonNamespace(iterable)|wrong-members", "members %s" % ([t._label for t in live],))
        return None
    succ, probs = snapshot(ns)
    bits = [ns.taxon_bitmask(t) for t in live]
    if any(not single_bit(x) for x in bits):
        V("TaxonNamespace(iterable)|bit-not-single", "bits %r" % (bits,))
    if len(set(bits)) != len(bits):
        V("TaxonNamespace(iterable)|bit-shared", "bits %r" % (bits,))
    if ns.is_case_sensitive is not bool(cs):
        V("TaxonNamespace(iterable)|flag-lost", "is_case_sensitive=%r" % (ns.is_case_sensitive,))
    if bad[0]:
        return None
    light_observations("TaxonNamespace(iterable)", ns, live, bits, bool(cs), lambda sig, msg: V(sig, msg, fatal=False), succ)
    if succ is None:
        V("TaxonNamespace(iterable)|inconsistent-internal-maps", "; ".join(probs))
    return succ


def run_starts(chunk, ctx):
    set_layer(chunk.get("layer", "main"))
    out = []
    for op in chunk["ops"]:
        op = tup(op)
        ctx.case(("ctor", _LAYER[0], op), nontrivial=len(op[1]) >= 2)
        ctx.count("transitions")
        ctx.count("constructor_calls")
        s = check_ctor(op, ctx)
        if s is not None:
            out.append((s, op))
    return out


# ---------------------------------------------------------------------------
# one BFS level

def _expand_state(state, b, expand, ctx, out, seen_local, pidx):
    ctx.case(("s", _LAYER[0], state), nontrivial=len(state[3]) >= 2)
    ctx.count("states")
    ctx.maximum("members", len(state[3]))
    ctx.maximum("accession_count", state[2])
    if any(m[1] != i for i, m in enumerate(state[3])):
        ctx.count("states_where_bit_order_differs_from_list_order")
    if len(set(m[0] for m in state[3])) < len(state[3]):
        ctx.count("states_with_duplicate_labels")
    if len(set(m[0].lower() for m in state[3])) < len(set(m[0] for m in state[3])):
        ctx.count("states_with_case_variant_labels")
    if not state[1]:
        ctx.count("states_immutable")
    if _LAYER[0] != "main":
        ctx.count(LAYER_PREFIX[_LAYER[0]] + "states")
    if any(m[0] == "" for m in state[3]):
        ctx.count("states_with_empty_label")
    # fields of TaxonNamespace / Taxon the harness does not know by name (carried generically)
    ctx.maximum("unknown_namespace_fields_seen", len(set(n for n, _e in state[4] if not n.startswith("taxon["))))
    ctx.maximum("unknown_taxon_fields_seen", len(set(n.split("].", 1)[1] for n, _e in state[4] if n.startswith("taxon["))))
    if hidden_names(state):
        ctx.count("states_with_nondefault_unknown_fields")
    if any(_has_type_tag(e) for _n, e in state[4]):
        ctx.count("states_with_unrestorable_unknown_fields")
    judged(check_state, state, ctx)
    if not expand:
        return
    ops = enabled_ops(state, b)
    for op in ops:
        ctx.case(("t", _LAYER[0], state, op), nontrivial=len(state[3]) >= 2)
        ctx.count("transitions")
        if op[0] == "lookup":
            ctx.count("lookup_transitions")
        succ = judged(lambda st_, c_: check_transition(st_, op, c_), state, ctx)
        if succ is None:
            ctx.count("transitions_without_successor")
            continue
        if succ == state:
            ctx.count("transitions_self_loop")
        if succ not in seen_local:
            seen_local.add(succ)
            out.append((succ, pidx, op))
    ctx.maximum("ops_enabled_in_one_state", len(ops))


def run_level(chunk, ctx):
    from mc.runner import Ctx
    set_layer(chunk.get("layer", "main"))
    b = layer_bounds(chunk["tier"], _LAYER[0])
    out = []
    seen_local = set()
    for pidx, state in enumerate(chunk["states"]):
        state = tup(state)
        sub = Ctx()
        mark = (len(out), set(seen_local))
        _st, _val = budget.run_limited(lambda: _expand_state(state, b, chunk["expand"], sub, out, seen_local, pidx), 60.0)
        if _st == "exc":
            raise _val
        if _st == "timeout":
            # deterministic verdict: redo this state with every library call under the line budget
            sub = Ctx()
            del out[mark[0]:]
            seen_local = mark[1]
            _BUDGET[0] = 500000
            try:
                _expand_state(state, b, chunk["expand"], sub, out, seen_local, pidx)
            finally:
                _BUDGET[0] = None
        ctx.merge(sub)
    if chunk["expand"] and chunk["states"]:
        st = tup(chunk["states"][len(chunk["states"]) // 2])
        ops = enabled_ops(st, b)
        scratch = Ctx()
        written = []
        for o in ops[::max(1, len(ops) // 5)][:6]:
            nxt = check_transition(st, o, scratch)
            written.append({"op": opstr(o), "result": pretty(nxt) if nxt is not None else "(violation, no successor)"})
        ctx.sample({"depth": chunk["depth"], "state": pretty(st), "enabled_ops": len(ops), "some_transitions": written}, 3)
    return out


def explore(tier, runner):
    ctx = runner.ctx
    for layer in ("main", "empty", "eszett", "sigma"):
        set_layer(layer)
        _explore_layer(tier, runner, layer, LAYER_PREFIX[layer])
    set_layer("main")


def _explore_layer(tier, runner, layer, prefix):
    b = layer_bounds(tier, layer)
    ctx = runner.ctx
    res = runner.map("run_starts", [{"ops": ctor_ops(b), "tier": tier, "layer": layer}])
    parent = {}
    frontier = []
    for s, op in res[0]:
        if s not in parent:
            parent[s] = (None, op)
            frontier.append(s)
    frontier.sort()
    ctx.count(prefix + "start_states", len(frontier))
    depth = 0
    D = b["depth"]
    while frontier:
        expand = depth < D
        n = b["chunk_states"] if expand else b["chunk_states"] * 12
        chunks = [{"states": frontier[i:i + n], "expand": expand, "tier": tier, "depth": depth, "layer": layer}
                  for i in range(0, len(frontier), n)]
        ctx.count(prefix + "states_at_depth_%d" % depth, len(frontier))
        ctx.maximum(prefix + "depth_completed", depth)
        results = runner.map("run_level", chunks)
        new = []
        for ch, res in zip(chunks, results):
            for succ, pidx, op in res:
                if succ not in parent:
                    parent[succ] = (ch["states"][pidx], op)
                    new.append(succ)
        new.sort()
        frontier = new
        depth += 1
        if not expand:
            break
    # attach the shortest real history (from a constructor call) to every kept witness of this layer
    for sig, ent in ctx.viol.items():
        for v in ent["first"]:
            c = v["case"]
            if isinstance(c, dict) and "state" in c and c.get("layer", "main") == layer and "history" not in c:
                c["history"] = history(parent, tup(c["state"])) + ([c["py"]] if c.get("kind") == "trans" else [])
    runner.notes.append("%s layer (labels %s): BFS completed to depth %d (every state reached by <= %d operations from a "
                        "constructor call was checked; states at depth < %d were expanded with the whole alphabet)" % (
                            layer, list(ALPHA[layer]["labels"]), depth - 1, depth - 1, D))


def history(parent, state):
    steps = []
    s = state
    guard = 0
    while s is not None and s in parent and guard < 100:
        p, op = parent[s]
        steps.append(opstr(op))
        s = p
        guard += 1
    return steps[::-1]


# ---------------------------------------------------------------------------

def replay(case, ctx):
    set_layer(case.get("layer", "main"))
    k = case.get("kind")
    if k == "state":
        judged(check_state, norm_state(case["state"]), ctx)
    elif k == "trans":
        op = tup(case["op"])
        judged(lambda st_, c_: check_transition(st_, op, c_), norm_state(case["state"]), ctx)
    elif k == "ctor":
        check_ctor(tup(case["op"]), ctx)
    else:
        raise ValueError("unknown case kind %r" % k)
