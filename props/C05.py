"""C05 - split frequencies, consensus trees, support annotations, collapse and
maximum-credibility trees are exact (DESIGN 3/C05).

Engine E1: exhaustive enumeration of multisets of trees of U(n) over one namespace
x rooting x tree-weight vectors x use_tree_weights x edge-length patterns x namespace
configurations, and for every collection the *complete* threshold menu (every
attainable frequency, every midpoint between consecutive attainable frequencies, 1/2,
1.0 and the library default), every route to a consensus tree, every member (and,
for small collections, every tree of U(n)) as summarisation / collapse target, every
summarisation setting, and both credibility scores through both collection classes.

The reference model is plain Python on label sets (mc/ref.py): a split is a clade
(rooted) or an unordered pair of sides (unrooted); nothing in an oracle calls the
library.
"""
import inspect
import itertools
import math
import warnings

import dendropy
from dendropy import TreeList, TreeArray
from dendropy.datamodel.treecollectionmodel import SplitDistribution
from dendropy.utility import constants

from mc import ref, build
from mc import universe as U

warnings.simplefilter("ignore")

ID = "C05"
LEVEL = "exploration"
EXHAUSTIVE = True
RULE = ("every multiset (size <= bound) of trees of U(n) (all rooted shapes on n labelled leaves, n <= 5; bounds per layer "
        "in coverage.bounds) over one shared namespace x rooting {rooted, unrooted; undefined for n <= 4, <= 2 trees} x "
        "tree-weight vectors {None, {1,2}^k, {0.5,3}^k} x use_tree_weights {T,F} x edge-length pattern {position-dependent "
        "integers, none, non-dyadic, ultrametric} x namespace configuration {exact, reversed, lowest-bit-removed}; per "
        "collection the complete threshold menu {every attainable frequency, every midpoint between consecutive attainable "
        "frequencies (and below the lowest), 1/2, 1.0, the library default} x consensus routes {TreeArray.consensus_tree, "
        "SplitDistribution.consensus_tree, TreeList.consensus}; every member (for <= 2-tree collections on <= 4 leaves every "
        "tree of U(n)) as summarisation and collapse target x summarisation settings; both credibility scores via TreeArray "
        "and TreeList; plus histories: a TreeArray / SplitDistribution filled tree by tree (<= 3 trees, n <= 4) with every "
        "pattern of {no read, one read, ordered pair of different reads} from {frequencies, edge-length summaries, node-age "
        "summaries, consensus_tree, summarize_splits_on_tree} after every addition, each read compared with the reference over "
        "the trees counted so far; plus a stated set of large representatives (ladders, balanced, stars, brooms and locally "
        "rearranged copies with 12..100 leaves, collections of 2-4 equal-sized trees, both rootings, weights {None,{1,2}}; "
        "exhaustive over that set only, listed in coverage.bounds.G_large). A case = one history (tuple of trees, object, read pattern), one (collection, route) frequency table, one (collection, threshold, route) consensus tree, one "
        "(collection, target, setting, route) summarisation, one (collection, target, threshold, route) collapse, or one "
        "(collection, score, route) credibility tree; non-trivial = the collection contains at least one non-trivial split")
ASSUMPTIONS = [
    "reference bit index of a taxon = order of accession recorded by the harness (mc/build.make_namespace); the key under which "
    "a split is looked up is the clade bitmask (rooted) or the bitmask of the side not containing the lowest-bit leaf (unrooted), "
    "which is what C01 verifies encode_bipartitions to produce",
    "reference topology, clades, merged per-split edge lengths and node ages are computed from Node._child_nodes / edge lengths by mc/ref.py and this module",
    "a split's edge-length value in one tree is the sum of the lengths of all edges of that tree inducing the split (the two basal edges of an unrooted tree drawn with a bifurcating seed)",
    "standard deviation = sample standard deviation (documented in statistics.summarize); it is not checked for splits seen in exactly one tree",
    "edge-length and node-age summaries are unweighted (the statement names 'the values over the input trees'); they are checked only when every input edge has a length",
    "rooting state is compared as rooted / not rooted (undefined rooting counts as not rooted)",
    "a tree whose seed is bifurcating and which is treated as unrooted is normalised by encode_bipartitions() (documented side effect) before it is used as a collapse target, so that 'root-to-tip distance' is well defined",
    "the library default threshold is taken at its numeric value (inspect.signature); that the named constant GREATER_THAN_HALF is above one half is checked once, separately",
    "tree weights come from {1,2} and {0.5,3} (dyadic, positive): all weighted counts are exact floats, so frequencies and thresholds are compared exactly",
    "node ages are checked on rooted ultrametric inputs only",
]
MANIFEST = {
    "engine": "E1-ENUM",
    "text": ("For every multiset of up to 3 trees (thorough: 4) of all 26 shapes on 4 labelled leaves, every pair of binary (thorough: "
             "all 236) rooted shapes and every multiset of up to 3 unrooted topologies on 5 leaves (thorough: also every rooted binary "
             "triple), every weight vector over {1,2} / {0.5,3} with and without use_tree_weights: split frequencies equal the weighted "
             "fractions and no absent split is reported, also when the table is read between accessions; at every threshold of the "
             "complete menu (attainable frequencies, midpoints, 1/2, 1, default) the consensus tree spans the namespace once, has the "
             "inputs' rooting, is exactly {f >= t} above one half and a maximal compatible set chosen in decreasing frequency order "
             "below; support, edge-length and node-age summaries on every target equal the reference statistics under every "
             "summarisation setting; collapsing removes exactly the edges below the threshold and keeps root-to-tip distances; "
             "credibility trees have the topology of an argmax of the scores the collection reports.  Incremental use: on a "
             "TreeArray / SplitDistribution filled tree by tree (<= 3 trees on <= 4 leaves), under all 26^k patterns of reads between "
             "the additions, every frequency table, edge-length / node-age summary table, consensus tree and summarised target "
             "equals the reference over exactly the trees counted so far (no stale cache in any read order)."),
    "note": "trusted: mc/ref.py clade/split/length arithmetic, harness accession log for bit indices, C01 for the split bitmask convention",
    "technique": "bounded-exhaustive enumeration against a set-based reference model",
}

DEFAULT_MIN_FREQ = inspect.signature(SplitDistribution.consensus_tree).parameters["min_freq"].default
MISSING = object()

# ---------------------------------------------------------------------------
# profiles: what is evaluated on one collection

CONS_ALL = ("TreeArray.consensus_tree", "SplitDistribution.consensus_tree", "TreeList.consensus")
# cons: routes evaluated at EVERY threshold of the menu; cons_few: routes evaluated only at the thresholds named by
# `few` (default, lowest[, 1.0]).  Consensus trees are summarised (supports and summaries checked on them) at the
# `few` thresholds (cons_few routes: at the default only); elsewhere they are built with summarize_splits=False.
PROFILES = {
    # everything, every tree of U(n) as target
    "full": dict(cons=CONS_ALL, cons_few=(), few=lambda menu: ("default", menu[0], 1.0), summ=True, settings=True, collapse=True, mcc=True, extra=True),
    # as full, members only as targets
    "std": dict(cons=CONS_ALL, cons_few=(), few=lambda menu: ("default", menu[0], 1.0), summ=True, settings=True, collapse=True, mcc=True, extra=False),
    # larger trees / weighted collections
    "lean": dict(cons=("TreeArray.consensus_tree",), cons_few=("TreeList.consensus", "SplitDistribution.consensus_tree"),
                 few=lambda menu: ("default", menu[0]), summ=True, settings=False, collapse=True, mcc=True, extra=False),
    # use_tree_weights=False on weighted trees: frequency tables, consensus at the default and lowest threshold
    "flagoff": dict(cons=(), cons_few=("TreeArray.consensus_tree", "TreeList.consensus"), few=lambda menu: ("default", menu[0]),
                    summ=True, settings=False, collapse=False, mcc=False, extra=False),
    "freq": dict(cons=(), cons_few=(), few=lambda menu: (), summ=False, settings=False, collapse=False, mcc=False, extra=False),
    "ages": dict(cons=("TreeArray.consensus_tree",), cons_few=("TreeList.consensus",), few=lambda menu: ("default", menu[0]), summ=True, settings=True,
                 collapse=False, mcc=True, extra=False),
}

SETTINGS = {
    "default": {},
    "pct-label": {"support_as_percentages": True, "set_support_as_node_label": True},
    "label-2dp": {"set_support_as_node_label": True, "support_label_decimals": 2},
    "mean-length": {"set_edge_lengths": "mean-length"},
    "median-length": {"set_edge_lengths": "median-length"},
    "support-length": {"set_edge_lengths": "support"},
    "attr-only": {"add_support_as_node_annotation": False, "add_edge_length_summaries_as_edge_annotations": False,
                  "add_node_age_summaries_as_node_annotations": False},
}
ATTR_ONLY = SETTINGS["attr-only"]
AGE_SETTINGS = {
    "default": {},
    "mean-age": {"set_edge_lengths": "mean-age"},
    "median-age": {"set_edge_lengths": "median-age"},
}


def tup(x):
    if isinstance(x, list):
        return tuple(tup(y) for y in x)
    return x


# ---------------------------------------------------------------------------
# universe pieces

_pool_cache = {}


def pool(n, name):
    key = (n, name)
    if key in _pool_cache:
        return _pool_cache[key]
    shapes = U.shapes(n)
    if name == "all":
        res = shapes
    elif name == "binary":
        res = [s for s in shapes if U.is_binary(s)]
    elif name == "topo":
        # one drawing per unrooted topology, a drawing without basal bifurcation when there is one
        best = {}
        order = []
        for s in shapes:
            k = ref.topology_key(ref.mk(s), False)
            good = (not isinstance(s, int)) and len(s) >= 3
            if k not in best:
                best[k] = (good, s)
                order.append(k)
            elif good and not best[k][0]:
                best[k] = (good, s)
        res = [best[k][1] for k in order]
    else:
        raise ValueError(name)
    _pool_cache[key] = res
    return res


def weight_vectors(k, alphabets):
    out = [None]
    for al in alphabets:
        for v in itertools.product(al, repeat=k):
            out.append(list(v))
    return out


def mk_ultra(shape, k, labels=U.LABELS):
    """ultrametric snapshot with integer lengths; internal node age = base*(k+1)+k"""
    memo = {}

    def base(s):
        if isinstance(s, int):
            return 0
        if id(s) not in memo:
            memo[id(s)] = 1 + max(base(c) for c in s)
        return memo[id(s)]

    def age(s):
        return 0 if isinstance(s, int) else base(s) * (k + 1) + k

    def rec(s, pa):
        a = age(s)
        L = 1 if pa is None else pa - a
        if isinstance(s, int):
            return (labels[s], None, L, ())
        return (None, None, L, tuple(rec(c, a) for c in s))
    return rec(shape, None)


def mk_snap(shape, pattern, k, labels=U.LABELS):
    if pattern == "none":
        return ref.mk(shape, None, labels)
    if pattern == "unit":
        return ref.mk(shape, 1, labels)
    if pattern == "pos":
        return ref.mk(shape, lambda i, leaf, d: (k + 1) * (1 + i % 3), labels)
    if pattern == "nd":
        return ref.mk(shape, lambda i, leaf, d: 0.1 * (i + 1) * (k + 1), labels)
    if pattern == "ultra":
        return mk_ultra(shape, k, labels)
    raise ValueError(pattern)


# ---------------------------------------------------------------------------
# large representatives (a stated finite set; see bounds()["G_large"])

BIG_LABEL_FMT = "t%03d"


def big_shape(name, N):
    """nested tuple over leaves 0..N-1"""
    def swap(s, a, b):
        if isinstance(s, int):
            return b if s == a else (a if s == b else s)
        return tuple(swap(c, a, b) for c in s)

    def balanced(lo, hi):
        if hi - lo == 1:
            return lo
        mid = (lo + hi + 1) // 2
        return (balanced(lo, mid), balanced(mid, hi))
    if name == "ladderL":
        t = 0
        for i in range(1, N):
            t = (t, i)
        return t
    if name == "ladderR":
        t = N - 1
        for i in range(N - 2, -1, -1):
            t = (i, t)
        return t
    if name == "balanced":
        return balanced(0, N)
    if name == "star":
        return tuple(range(N))
    if name == "broom":            # ladder of N//3 tips ending in a star of the remaining tips
        h = N // 3
        t = tuple(range(h, N))
        for i in range(h - 1, -1, -1):
            t = (i, t)
        return t
    if name == "ladderL-swap":     # local rearrangement: two tips two rungs apart exchanged
        return swap(big_shape("ladderL", N), N // 2, N // 2 + 2)
    if name == "balanced-swap":    # first and last tip exchanged
        return swap(big_shape("balanced", N), 0, N - 1)
    if name == "broom-swap":       # last handle tip exchanged with a tip of the star
        return swap(big_shape("broom", N), N // 3 - 1, N - 1)
    raise ValueError(name)


BIG_SIZES = (12, 16, 17, 32, 33, 40, 64, 65)
BIG_TUPLES = ([(N, t) for N in BIG_SIZES for t in (("ladderL", "ladderL-swap"), ("ladderL", "ladderR", "balanced"),
                                                    ("balanced", "balanced-swap", "star", "ladderL-swap"))]
              + [(60, ("broom", "broom-swap")), (60, ("broom", "broom-swap", "star", "ladderR")),
                 (100, ("star", "ladderL", "ladderL-swap"))])
BIG_AGES = [(17, ("ladderL", "ladderL-swap", "balanced")), (40, ("ladderR", "balanced", "balanced-swap")),
            (65, ("ladderL", "ladderL-swap"))]


def big_configs():
    """every collection of the large-representatives layer"""
    out = []
    for N, names in BIG_TUPLES:
        for rooted in (True, False):
            for weights in (None, [1, 2, 1, 2][:len(names)]):
                out.append({"n": N, "rooted": rooted, "ns": "exact", "big": list(names), "weights": weights, "utw": True,
                            "lens": "pos", "profile": "lean", "labels": "t"})
    for N, names in BIG_AGES:
        out.append({"n": N, "rooted": True, "ns": "exact", "big": list(names), "weights": None, "utw": True, "lens": "ultra",
                    "profile": "ages", "labels": "t"})
    # use_tree_weights switched off on weighted big trees
    for N in (33, 65):
        out.append({"n": N, "rooted": True, "ns": "exact", "big": ["ladderL", "ladderR", "balanced"], "weights": [1, 2, 2], "utw": False,
                    "lens": "none", "profile": "flagoff", "labels": "t"})
    return out


# ---------------------------------------------------------------------------
# reference statistics

def r_mean(v):
    return math.fsum(v) / len(v)


def r_median(v):
    s = sorted(v)
    m = len(s)
    return s[m // 2] if m % 2 else (s[m // 2 - 1] + s[m // 2]) / 2.0


def r_sd(v):
    m = r_mean(v)
    return math.sqrt(math.fsum((x - m) ** 2 for x in v) / (len(v) - 1))


def feq(a, b, tol=1e-9):
    if a is None or b is None:
        return a is b
    try:
        return abs(a - b) <= tol * max(1.0, abs(a), abs(b))
    except TypeError:
        return False


def live_walk(tree):
    """[(node, clade)] in pre-order from primitive links"""
    out = []

    def rec(nd):
        idx = len(out)
        out.append(None)
        if not nd._child_nodes:
            cl = frozenset([nd.taxon._label]) if nd.taxon is not None else frozenset()
        else:
            cl = frozenset()
            for c in nd._child_nodes:
                cl = cl | rec(c)
        out[idx] = (nd, cl)
        return cl
    rec(tree._seed_node)
    return out


# ---------------------------------------------------------------------------

class Coll(object):
    """One collection: reference side and factory for the library side."""

    def __init__(self, cfg, shared_ns=None, case_hook=None):
        self.cfg = cfg
        self.case_hook = case_hook
        self.n = cfg["n"]
        self.rooted = cfg["rooted"]
        self.is_rooted = bool(self.rooted)
        self.nscfg = cfg.get("ns", "exact")
        if cfg.get("big"):
            self.shapes = tuple(big_shape(nm, cfg["n"]) for nm in cfg["big"])
        else:
            self.shapes = tup(cfg["shapes"])
        self.weights = cfg.get("weights")
        self.utw = cfg.get("utw", True)
        self.lens = cfg.get("lens", "pos")
        self.profile = cfg.get("profile", "std")
        self.labels = [BIG_LABEL_FMT % i for i in range(self.n)] if cfg.get("labels") == "t" else U.LABELS[:self.n]
        self.big = self.n > 8
        self.allc = frozenset(self.labels)
        self.ns, self.bit = shared_ns if shared_ns is not None else build.make_namespace(self.labels, self.nscfg)
        self.lowlabel = min(self.labels, key=lambda l: self.bit[l])
        self.allmask = sum(1 << self.bit[l] for l in self.labels)
        self.rootmask = self.allmask if self.is_rooted else 0
        self.sns = [mk_snap(s, self.lens, k, self.labels) for k, s in enumerate(self.shapes)]
        self.tsplits = [self.split_keys(sn) for sn in self.sns]
        if self.weights is not None and self.utw:
            w = [float(x) for x in self.weights]
        else:
            w = [1.0] * len(self.shapes)
        self.w = w
        den = math.fsum(w)
        num = {}
        for wi, ts in zip(w, self.tsplits):
            for s in ts:
                num[s] = num.get(s, 0.0) + wi
        self.freq = dict((s, v / den) for s, v in num.items())
        self.nontrivial = set(s for s in self.freq if self.is_nontrivial(s))
        self.has_lengths = self.lens != "none"
        self.vals = {}
        if self.has_lengths:
            for sn in self.sns:
                sl, _missing = ref.split_lengths(sn, self.is_rooted)
                for s, L in sl.items():
                    self.vals.setdefault(s, []).append(L)
        self.ages = {}
        if self.lens == "ultra" and self.is_rooted:
            for sn in self.sns:
                for cl, a in self.ref_ages(sn).items():
                    self.ages.setdefault(cl, []).append(a)
        if self.weights is None:
            self.wclass = "unweighted"
        elif self.utw:
            self.wclass = "weighted"
        else:
            self.wclass = "weights-switched-off"
        self.tag = "rooted" if self.is_rooted else "unrooted"
        self.tag3 = "rooted" if self.rooted else ("unrooted" if self.rooted is False else "undefined-rooting")
        # splits induced by two edges of one input tree (after the documented collapse of an unrooted basal
        # bifurcation): only the two-leaf unrooted tree in this universe
        self.twice = set()
        for sn in self.sns:
            seen1 = {}
            for cl, nd in ref.clade_list(sn):
                k1 = self.key_of(cl)
                if k1 is not None:
                    seen1[k1] = seen1.get(k1, 0) + 1
            basal = (not self.is_rooted) and len(sn[3]) == 2 and any(ch[3] for ch in sn[3])
            for k1, m1 in seen1.items():
                if m1 - (1 if basal and k1 == self.key_of(ref.clade(sn[3][0])) else 0) > 1:
                    self.twice.add(k1)
        self.base_key = (self.n, self.rooted, self.nscfg, self.shapes, tuple(self.weights) if self.weights else None,
                         self.utw, self.lens)

    # -- reference helpers ------------------------------------------------------
    def key_of(self, cl):
        if self.is_rooted:
            return cl if cl else None
        other = self.allc - cl
        if not cl or not other:
            return None
        return frozenset([cl, other])

    def split_keys(self, sn):
        if self.is_rooted:
            return frozenset(c for c in ref.rooted_clades(sn) if c)
        return frozenset(ref.unrooted_splits(sn))

    def is_nontrivial(self, s):
        if self.is_rooted:
            return 1 < len(s) < self.n
        return all(len(side) >= 2 for side in s)

    def nontrivial_of(self, sn):
        return set(s for s in self.split_keys(sn) if self.is_nontrivial(s))

    def compat(self, a, b):
        if self.is_rooted:
            return ref.compatible_rooted(a, b)
        return ref.compatible_unrooted(next(iter(a)), next(iter(b)), self.allc)

    def mask_of(self, s):
        if self.is_rooted:
            side = s
        else:
            a, b = tuple(s)
            side = b if self.lowlabel in a else a
        return sum(1 << self.bit[l] for l in side)

    def show(self, s):
        def side(x):
            x = sorted(x)
            if len(x) > 6:
                return ",".join(x[:3]) + ",..(%d).." % (len(x) - 4) + x[-1]
            return ",".join(x)
        if self.is_rooted:
            return "{%s}" % side(s)
        return "|".join(sorted(side(x) for x in s))

    def tree_text(self, sn, with_len=True):
        t = ref.to_newick(sn, with_len)
        return t if len(t) <= 200 else t[:90] + " ...(%d chars)... " % (len(t) - 180) + t[-90:]

    @staticmethod
    def ref_ages(sn):
        out = {}

        def rec(nd):
            if not nd[3]:
                a = 0
            else:
                cand = [rec(c) + c[2] for c in nd[3]]
                assert max(cand) == min(cand), "harness: input not ultrametric"
                a = cand[0]
            out[ref.clade(nd)] = a
            return a
        rec(sn)
        return out

    def thresholds(self):
        A = sorted(set(self.freq.values()) | set([1.0]))
        menu = set(A)
        prev = 0.0
        for a in A:
            menu.add((prev + a) / 2.0)
            prev = a
        menu.add(0.5)
        return sorted(menu) + ["default"]

    # -- library side -------------------------------------------------------------
    def fresh(self, i):
        t = build.build_tree((self.rooted, self.sns[i]), self.ns)
        if self.weights is not None:
            t.weight = self.weights[i]
        return t

    def fresh_from(self, sn):
        return build.build_tree((self.rooted, sn), self.ns)

    def treelist(self):
        tl = TreeList(taxon_namespace=self.ns)
        for i in range(len(self.shapes)):
            tl.append(self.fresh(i))
        return tl

    def case(self, **detail):
        if self.case_hook is not None:
            return self.case_hook(detail)
        c = dict(self.cfg)
        c["kind"] = "coll"
        c["trees"] = [self.tree_text(sn) for sn in self.sns]
        c["detail"] = detail
        return c


# ---------------------------------------------------------------------------
# oracle (1): frequencies

def check_freqs(c, sd, route, ctx, step=None):
    """sd: a SplitDistribution.  True when everything agrees."""
    ctx.case(("freq", c.base_key, route, step), nontrivial=bool(c.nontrivial))
    ctx.count("frequency_tables")
    want = {}
    for s, f in c.freq.items():
        want[c.mask_of(s)] = (f, s)
    try:
        keys = list(sd)
        n_reported = len(sd)
    except Exception as e:
        ctx.violation("freq:%s|exception|%s" % (route, type(e).__name__), repr(e), c.case(route=route))
        return False
    ok = True
    for m in keys:
        if m not in want and m != c.rootmask:
            ctx.violation("freq:%s|reports-split-in-no-tree|%s" % (route, c.tag),
                          "split bitmask %s is reported (frequency %r) but occurs in no input tree" % (bin(m), sd[m]),
                          c.case(route=route, mask=m))
            ok = False
            break
    if len(set(keys)) != len(keys) or n_reported != len(keys):
        ctx.violation("freq:%s|len" % route, "len()=%d, iteration yields %d keys (%d distinct)" % (
            n_reported, len(keys), len(set(keys))), c.case(route=route))
        ok = False
    for m, (f, s) in want.items():
        got = sd[m]
        if got != f:
            if feq(got, f, 1e-12):
                ctx.count("frequency_inexact_but_close")
                continue
            if m not in keys:
                ctx.violation("freq:%s|split-missing|%s" % (route, c.tag),
                              "split %s occurs in the trees (frequency %r) but is not reported" % (c.show(s), f),
                              c.case(route=route, split=c.show(s)))
            else:
                ctx.violation("freq:%s|value|%s|%s%s" % (route, c.wclass, c.tag, "|split-on-two-edges-of-one-tree" if s in c.twice else ""),
                              "frequency of split %s is %r, weighted fraction of trees is %r (weights %r, use_tree_weights=%r)" % (
                                  c.show(s), got, f, c.weights, c.utw), c.case(route=route, split=c.show(s), got=got, want=f))
            ok = False
            break
    if ok:
        nbits = max(c.bit.values()) + 1
        if nbits <= 8:
            probes = range(1 << nbits)
        else:
            # large trees: a stated set of absent splits - every reference split with one more / one fewer taxon
            # (lowest, middle, highest bit toggled), and the 'every other taxon' split
            probes = set()
            for m0 in want:
                for b in (1, nbits // 2, nbits - 1):
                    probes.add((m0 ^ (1 << b)) & c.allmask)
            probes.add(sum(1 << b for b in range(1, nbits, 2)) & c.allmask)
            probes = sorted(probes)
        for m in probes:
            if m in want or m == c.rootmask:
                continue
            got = sd[m]
            if got != 0:
                ctx.violation("freq:%s|absent-split-nonzero|%s" % (route, c.tag),
                              "sd[%s] = %r for a split in no tree" % (bin(m), got), c.case(route=route, mask=m))
                ok = False
                break
    return ok


# ---------------------------------------------------------------------------
# oracle (3): summaries on a live tree

def check_summary(c, tree, route, setting, kw, ctx, detail):
    """tree has just been summarised by the library.  One violation at most."""
    pct = bool(kw.get("support_as_percentages"))
    lab = bool(kw.get("set_support_as_node_label"))
    places = kw.get("support_label_decimals", 4)
    sel = kw.get("set_edge_lengths")
    attr_only = "add_support_as_node_annotation" in kw
    sig0 = "summarize:%s|" % route
    walk = live_walk(tree)
    ages_on = bool(c.ages)
    for nd, cl in walk:
        key = c.key_of(cl)
        if key is None:
            continue
        f = c.freq.get(key, 0.0)
        want = f * 100 if pct else f
        got = getattr(nd, "support", MISSING)
        if got is MISSING or not feq(got, want, 1e-12):
            ctx.violation(sig0 + "support|%s" % c.tag,
                          "node of split %s: support %r, frequency of the split is %r (setting %s)" % (
                              c.show(key), None if got is MISSING else got, want, setting),
                          c.case(route=route, setting=setting, split=c.show(key), **detail))
            return False
        if not attr_only:
            a = nd.annotations.find(name="support")
            if a is None or not feq(a.value, want, 1e-12):
                ctx.violation(sig0 + "support-annotation|%s" % c.tag,
                              "node of split %s: support annotation %r, frequency %r" % (
                                  c.show(key), None if a is None else a.value, want),
                              c.case(route=route, setting=setting, split=c.show(key), **detail))
                return False
        if lab:
            try:
                lv = float(nd.label)
            except Exception:
                lv = None
            if lv is None or abs(lv - want) > 0.5 * 10 ** (-places) + 1e-9:
                ctx.violation(sig0 + "support-label|%s" % c.tag,
                              "node of split %s: label %r does not render support %r to %d places" % (
                                  c.show(key), nd.label, want, places),
                              c.case(route=route, setting=setting, split=c.show(key), **detail))
                return False
        e = nd._edge
        if sel == "support" and not feq(e.length, want, 1e-12):
            ctx.violation(sig0 + "edge-length-from-support|%s" % c.tag,
                          "edge of split %s: length %r, support %r" % (c.show(key), e.length, want),
                          c.case(route=route, setting=setting, split=c.show(key), **detail))
            return False
        vals = c.vals.get(key) if c.has_lengths else None
        if vals:
            exp = [("length_mean", r_mean(vals)), ("length_median", r_median(vals)),
                   ("length_range", (min(vals), max(vals)))]
            if len(vals) >= 2:
                exp.append(("length_sd", r_sd(vals)))
            for name, w in exp:
                g = getattr(e, name, MISSING)
                if name == "length_range":
                    good = g is not MISSING and g is not None and len(g) == 2 and feq(g[0], w[0]) and feq(g[1], w[1])
                else:
                    good = g is not MISSING and feq(g, w)
                if not good:
                    ctx.violation(sig0 + "edge-length-summary|%s" % c.tag,
                                  "edge of split %s: %s = %r, reference over values %r is %r" % (
                                      c.show(key), name, None if g is MISSING else g, vals, w),
                                  c.case(route=route, setting=setting, split=c.show(key), **detail))
                    return False
            if sel in ("mean-length", "median-length"):
                w = r_mean(vals) if sel == "mean-length" else r_median(vals)
                if not feq(e.length, w):
                    ctx.violation(sig0 + "edge-length-from-%s|%s" % (sel, c.tag),
                                  "edge of split %s: length %r, %s of %r is %r" % (c.show(key), e.length, sel, vals, w),
                                  c.case(route=route, setting=setting, split=c.show(key), **detail))
                    return False
        if ages_on:
            av = c.ages.get(key)
            if av:
                exp = [("age_mean", r_mean(av)), ("age_median", r_median(av)), ("age_range", (min(av), max(av)))]
                if len(av) >= 2:
                    exp.append(("age_sd", r_sd(av)))
                for name, w in exp:
                    g = getattr(nd, name, MISSING)
                    if name == "age_range":
                        good = g is not MISSING and g is not None and len(g) == 2 and feq(g[0], w[0]) and feq(g[1], w[1])
                    else:
                        good = g is not MISSING and feq(g, w)
                    if not good:
                        ctx.violation(sig0 + "node-age-summary|%s" % c.tag,
                                      "node of split %s: %s = %r, reference over ages %r is %r" % (
                                          c.show(key), name, None if g is MISSING else g, av, w),
                                      c.case(route=route, setting=setting, split=c.show(key), **detail))
                        return False
                if sel in ("mean-age", "median-age"):
                    w = r_mean(av) if sel == "mean-age" else r_median(av)
                    if not feq(getattr(nd, "age", None), w):
                        ctx.violation(sig0 + "node-age-from-%s|%s" % (sel, c.tag),
                                      "node of split %s: age %r, %s of %r is %r" % (
                                          c.show(key), getattr(nd, "age", None), sel, av, w),
                                      c.case(route=route, setting=setting, split=c.show(key), **detail))
                        return False
    if ages_on and sel in ("mean-age", "median-age"):
        # docstring: edge lengths are set 'such that split age is equal to mean of ages'
        for nd, cl in walk:
            p = nd._parent_node
            if p is None:
                continue
            pa, na = getattr(p, "age", None), getattr(nd, "age", None)
            if pa is None or na is None:
                continue
            if pa - na >= 0 and not feq(nd._edge.length, pa - na):
                ctx.violation(sig0 + "edge-length-from-%s|%s" % (sel, c.tag),
                              "edge length %r, parent age %r - node age %r" % (nd._edge.length, pa, na),
                              c.case(route=route, setting=setting, **detail))
                return False
    return True


# ---------------------------------------------------------------------------
# oracle (2): consensus

def check_consensus(c, C, t_eff, route, ctx, detail):
    sig0 = "consensus:%s|" % route
    probs = ref.wellformed(C)
    if probs:
        ctx.violation(sig0 + "malformed", "; ".join(probs), c.case(route=route, **detail))
        return False
    isr, sn = ref.snapshot(C)
    lv = ref.leaves(sn)
    if None in lv or sorted(lv) != sorted(c.labels):
        ctx.violation(sig0 + "span|%s" % c.tag, "consensus leaves %r, namespace %r" % (lv, c.labels),
                      c.case(route=route, **detail))
        return False
    if any(nd.taxon is not None and nd.taxon not in c.ns._taxa for nd, _cl in live_walk(C)):
        ctx.violation(sig0 + "foreign-taxon", "leaf taxon is not a member of the namespace", c.case(route=route, **detail))
        return False
    if bool(isr) != c.is_rooted:
        ctx.violation(sig0 + "rooting|%s" % c.tag, "consensus is_rooted=%r, inputs %r" % (isr, c.rooted),
                      c.case(route=route, **detail))
        return False
    T = c.nontrivial_of(sn)
    S = set(s for s in c.nontrivial if c.freq[s] >= t_eff)
    txt = lambda X: sorted(c.show(s) + "@%.4g" % c.freq.get(s, 0.0) for s in X)
    if t_eff > 0.5:
        if T != S:
            feat = "lacks-qualifying-split" if S - T else "has-split-below-threshold"
            ctx.violation(sig0 + "majority|%s|%s" % (feat, c.tag),
                          "threshold %r: consensus %s has splits %s, splits with f >= t are %s" % (
                              t_eff, c.tree_text(sn, False), txt(T), txt(S)), c.case(route=route, **detail))
            return False
        return True
    if T - S:
        ctx.violation(sig0 + "greedy|has-split-below-threshold|%s" % c.tag,
                      "threshold %r: consensus %s contains %s" % (t_eff, c.tree_text(sn, False), txt(T - S)),
                      c.case(route=route, **detail))
        return False
    for x in S - T:
        blockers = [y for y in T if not c.compat(x, y)]
        if not blockers:
            ctx.violation(sig0 + "greedy|not-maximal|%s" % c.tag,
                          "threshold %r: split %s (f=%r) is compatible with the whole consensus %s but was left out" % (
                              t_eff, c.show(x), c.freq[x], c.tree_text(sn, False)), c.case(route=route, **detail))
            return False
        if max(c.freq[y] for y in blockers) < c.freq[x]:
            ctx.violation(sig0 + "greedy|not-in-decreasing-frequency-order|%s" % c.tag,
                          "threshold %r: split %s (f=%r) excluded only by less frequent splits %s" % (
                              t_eff, c.show(x), c.freq[x], txt(blockers)), c.case(route=route, **detail))
            return False
    return True


# ---------------------------------------------------------------------------
# oracle (4): collapse

def check_collapse(c, obj, route, sn_target, t, ctx, detail):
    t_eff = DEFAULT_MIN_FREQ if t == "default" else t
    sig0 = "collapse:%s|" % route
    tree = c.fresh_from(sn_target)
    if not c.is_rooted and len(tree._seed_node._child_nodes) == 2:
        tree.encode_bipartitions()
    _r, sn0 = ref.snapshot(tree)
    try:
        if t == "default":
            obj.collapse_edges_with_less_than_minimum_support(tree)
        else:
            obj.collapse_edges_with_less_than_minimum_support(tree, min_freq=t)
    except Exception as e:
        ctx.violation(sig0 + "exception|%s|%s" % (type(e).__name__, c.tag3), repr(e), c.case(route=route, t=t, **detail))
        return False
    probs = ref.wellformed(tree)
    if probs:
        ctx.violation(sig0 + "malformed", "; ".join(probs), c.case(route=route, t=t, **detail))
        return False
    _r, sn1 = ref.snapshot(tree)
    if sorted(ref.leaves(sn1), key=str) != sorted(ref.leaves(sn0), key=str):
        ctx.violation(sig0 + "leaves-changed", "%s -> %s" % (c.tree_text(sn0), c.tree_text(sn1)),
                      c.case(route=route, t=t, **detail))
        return False
    want = set(s for s in c.nontrivial_of(sn0) if c.freq.get(s, 0.0) >= t_eff)
    got = c.nontrivial_of(sn1)
    if got != want:
        feat = "kept-edge-below-threshold" if got - want else "removed-edge-reaching-threshold"
        ctx.violation(sig0 + "%s|%s" % (feat, c.tag),
                      "threshold %r: %s -> %s; internal splits kept %s, splits with f >= t %s" % (
                          t_eff, c.tree_text(sn0), c.tree_text(sn1), sorted(c.show(s) for s in got),
                          sorted(c.show(s) + "@%.4g" % c.freq.get(s, 0.0) for s in want)),
                      c.case(route=route, t=t, **detail))
        return False
    if c.has_lengths:
        d0, d1 = ref.root_distances(sn0), ref.root_distances(sn1)
        bad = [l for l in d0 if not feq(d0[l], d1.get(l))]
        if bad:
            ctx.violation(sig0 + "root-to-tip-distance|%s" % c.tag,
                          "threshold %r: %s -> %s changes the root-to-tip distance of %s" % (
                              t_eff, c.tree_text(sn0), c.tree_text(sn1), bad), c.case(route=route, t=t, **detail))
            return False
    return True


# ---------------------------------------------------------------------------
# oracle (5): credibility trees

def check_mcc(c, tl, ta, ctx):
    for score, calc, tmeth in (("product", "calculate_log_product_of_split_supports", "maximum_product_of_split_support_tree"),
                               ("sum", "calculate_sum_of_split_supports", "maximum_sum_of_split_support_tree")):
        try:
            scores, idx = getattr(ta, calc)()
        except Exception as e:
            ctx.violation("mcc:TreeArray.%s|exception|%s" % (calc, type(e).__name__), repr(e), c.case(score=score))
            continue
        if len(scores) != len(c.shapes):
            ctx.violation("mcc:TreeArray.%s|score-count" % calc, "%d scores for %d trees" % (len(scores), len(c.shapes)),
                          c.case(score=score))
            continue
        best = max(scores)
        arg = [i for i, s in enumerate(scores) if s == best]
        allowed = set(ref.topology_key(c.sns[i], c.is_rooted) for i in arg)
        if idx not in arg:
            ctx.violation("mcc:TreeArray.%s|index-not-at-maximum" % calc, "scores %r, reported index %r" % (scores, idx),
                          c.case(score=score))
        tl = c.treelist()
        for route, holder in (("TreeArray", ta), ("TreeList", tl)):
            ctx.case(("mcc", c.base_key, score, route), nontrivial=bool(c.nontrivial))
            ctx.count("credibility_trees")
            name = "%s.%s" % (route, tmeth)
            try:
                t = getattr(holder, tmeth)()
            except Exception as e:
                ctx.violation("mcc:%s|exception|%s|%s" % (name, type(e).__name__, c.tag3), repr(e), c.case(score=score, route=route))
                continue
            probs = ref.wellformed(t)
            if probs:
                ctx.violation("mcc:%s|malformed" % name, "; ".join(probs), c.case(score=score, route=route))
                continue
            isr, sn = ref.snapshot(t)
            lv = ref.leaves(sn)
            if None in lv or sorted(lv) != sorted(c.labels):
                ctx.violation("mcc:%s|span" % name, "leaves %r" % (lv,), c.case(score=score, route=route))
                continue
            if ref.topology_key(sn, c.is_rooted) not in allowed:
                ctx.violation("mcc:%s|topology|%s" % (name, c.tag),
                              "returned %s; scores %r are maximal at trees %s" % (
                                  c.tree_text(sn, False), scores, [c.tree_text(c.sns[i], False) for i in arg]),
                              c.case(score=score, route=route))
                continue
            if bool(isr) != c.is_rooted:
                ctx.violation("mcc:%s|rooting|%s" % (name, c.tag), "is_rooted=%r, inputs %r" % (isr, c.rooted),
                              c.case(score=score, route=route))
                continue
            if route == "TreeList" and not any(t is m for m in tl):
                ctx.violation("mcc:%s|not-a-member" % name, "returned tree is not one of the trees of the list",
                              c.case(score=score, route=route))
                continue
            if route == "TreeArray":
                # summarize_splits=True by default: the returned tree carries supports and summaries
                ctx.case(("summ", c.base_key, name, "default"), nontrivial=bool(c.nontrivial))
                ctx.count("summarisations")
                check_summary(c, t, name, "default", {}, ctx, {"score": score})


# ---------------------------------------------------------------------------

def call_consensus(route, tl, ta, sd, t, c, kw):
    args = dict(kw)
    if t != "default":
        args["min_freq"] = t
    if route == "TreeArray.consensus_tree":
        return ta.consensus_tree(**args)
    if route == "SplitDistribution.consensus_tree":
        return sd.consensus_tree(**args)
    if route == "TreeList.consensus":
        if c.weights is not None or not c.utw:
            args["use_tree_weights"] = c.utw
        if c.lens == "ultra" and c.is_rooted:
            args["ignore_node_ages"] = False
        # at the default threshold the shared list is used (its trees have been through split_distribution() and
        # earlier calls); elsewhere a fresh list, so that one call's side effects on the trees cannot mask another's result
        return (tl if t == "default" else c.treelist()).consensus(**args)
    raise ValueError(route)


def check_collection(cfg, ctx):
    c = Coll(cfg)
    P = PROFILES[c.profile]
    nt = bool(c.nontrivial)
    ctx.count("collections")
    ctx.count("collections_%s" % c.profile)
    ctx.maximum("max_trees_in_collection", len(c.shapes))
    ages = bool(c.ages)
    sdkw = {"use_tree_weights": c.utw}
    if ages:
        sdkw["ignore_node_ages"] = False
    # ---- build through the three routes; (1) frequencies -----------------------------------------------
    try:
        tl = c.treelist()
        sd = tl.split_distribution(**sdkw)
    except Exception as e:
        ctx.violation("freq:TreeList.split_distribution|exception|%s|%s" % (type(e).__name__, c.tag3), repr(e), c.case())
        return
    ok_sd = check_freqs(c, sd, "TreeList.split_distribution", ctx)
    try:
        ta = c.treelist().as_tree_array(**sdkw)   # a fresh list: the routes do not see each other's side effects
    except Exception as e:
        ctx.violation("freq:TreeArray|exception|%s|%s" % (type(e).__name__, c.tag3), repr(e), c.case(route="TreeList.as_tree_array"))
        return
    ok_ta = check_freqs(c, ta.split_distribution, "TreeArray", ctx, "as_tree_array")
    # incremental accession with the frequency table read (and therefore cached) after every tree
    try:
        ta2 = TreeArray(taxon_namespace=c.ns, **sdkw)
        for i in range(len(c.shapes)):
            ta2.add_tree(c.fresh(i))
            ta2.split_distribution[c.allmask]
            len(ta2.split_distribution.split_frequencies)
            if c.has_lengths:
                ta2.split_distribution.split_edge_length_summaries
    except Exception as e:
        ctx.violation("freq:TreeArray|exception|%s|%s" % (type(e).__name__, c.tag3), repr(e), c.case(route="TreeArray.add_tree"))
        return
    ok_ta2 = check_freqs(c, ta2.split_distribution, "TreeArray", ctx, "add_tree-with-reads-in-between")
    if not (ok_ta and ok_ta2):
        ok_ta = False
    if not ok_sd or not ok_ta:
        ctx.count("downstream_checks_skipped_after_frequency_violation")
    ok = {"TreeArray.consensus_tree": ok_ta, "TreeList.consensus": ok_ta, "SplitDistribution.consensus_tree": ok_sd}
    # distinct member targets (first occurrence of each shape)
    members = []
    seen = set()
    for i, s in enumerate(c.shapes):
        if s not in seen:
            seen.add(s)
            members.append(i)
    extra = []
    if P["extra"] and len(c.shapes) <= 2:
        for s in U.shapes(c.n):
            if s not in seen:
                extra.append(mk_snap(s, c.lens, 0))
    menu = c.thresholds()
    ctx.maximum("max_thresholds_per_collection", len(menu))
    few = P["few"](menu)
    # ---- (2) consensus at every threshold, every route; (4) collapse ----------------------------------
    for t in menu:
        t_eff = DEFAULT_MIN_FREQ if t == "default" else t
        routes = P["cons"] + (P["cons_few"] if t in few else ())
        for route in routes:
            if not ok[route]:
                continue
            ctx.case(("cons", c.base_key, t, route), nontrivial=nt)
            ctx.count("consensus_trees")
            summ = t in few and (t == "default" or route in P["cons"] or c.profile == "flagoff")
            try:
                ckw = {}
                if not summ:
                    ckw = {"summarize_splits": False}
                elif c.profile in ("lean", "flagoff") and t != "default":
                    ckw = ATTR_ONLY
                C = call_consensus(route, tl, ta2 if route == "TreeArray.consensus_tree" and t == "default" else ta, sd, t, c, ckw)
            except Exception as e:
                ctx.violation("consensus:%s|exception|%s|%s" % (route, type(e).__name__, c.tag3), repr(e), c.case(route=route, t=t))
                continue
            if check_consensus(c, C, t_eff, route, ctx, {"t": t}) and summ:
                ctx.case(("cons-summ", c.base_key, t, route), nontrivial=nt)
                ctx.count("summarisations")
                check_summary(c, C, route, "default", ckw, ctx, {"t": t, "target": "consensus"})
        if P["collapse"] and ok_ta:
            for i in members:
                ctx.case(("collapse", c.base_key, t, i), nontrivial=nt)
                ctx.count("collapses")
                check_collapse(c, ta, "TreeArray", c.sns[i], t, ctx, {"target": c.tree_text(c.sns[i])})
            for sn in extra:
                ctx.case(("collapse", c.base_key, t, ref.to_newick(sn, False)), nontrivial=True)
                ctx.count("collapses")
                check_collapse(c, ta, "TreeArray", sn, t, ctx, {"target": c.tree_text(sn)})
            if t in few and ok_sd:
                for i in members:
                    ctx.case(("collapse-sd", c.base_key, t, i), nontrivial=nt)
                    ctx.count("collapses")
                    check_collapse(c, sd, "SplitDistribution", c.sns[i], t, ctx, {"target": c.tree_text(c.sns[i])})
    # ---- (3) summaries on targets ---------------------------------------------------------------------
    if P["summ"]:
        if ages:
            settings = AGE_SETTINGS
        elif P["settings"]:
            settings = SETTINGS
        else:
            settings = {"default": {}}
        targets = [(c.sns[i], "member") for i in members] + [(sn, "non-member") for sn in extra]
        full_settings = c.profile == "full" or len(c.shapes) <= 2
        for ti, (sn, what) in enumerate(targets):
            for sname, kw in settings.items():
                if not c.has_lengths and kw.get("set_edge_lengths") in ("mean-length", "median-length"):
                    continue
                if what == "non-member" and sname not in ("default", "pct-label"):
                    continue
                if ti > 0 and what == "member" and sname != "default" and not full_settings:
                    continue  # larger collections: every setting on the first member, the default on all
                for route, obj, good in (("SplitDistribution.summarize_splits_on_tree", sd, ok_sd),
                                         ("TreeArray.summarize_splits_on_tree", ta, ok_ta)):
                    if not good:
                        continue
                    if route.startswith("TreeArray") and (sname != "default" or (not P["settings"] and ti > 0)):
                        continue
                    kw2 = kw
                    if c.profile == "lean" and route.startswith("TreeArray"):
                        kw2 = ATTR_ONLY
                    ctx.case(("summ", c.base_key, route, sname, ref.to_newick(sn, False)), nontrivial=nt or what == "non-member")
                    ctx.count("summarisations")
                    tree = c.fresh_from(sn)
                    try:
                        obj.summarize_splits_on_tree(tree, **kw2)
                    except Exception as e:
                        ctx.violation("summarize:%s|exception|%s|%s" % (route, type(e).__name__, c.tag3), repr(e),
                                      c.case(route=route, setting=sname, target=c.tree_text(sn)))
                        continue
                    check_summary(c, tree, route, sname, kw2, ctx, {"target": c.tree_text(sn), "target_kind": what})
        # settings through the consensus routes: TreeArray at the default threshold, TreeList at the lowest one
        # (small collections: both routes at both thresholds)
        if len(settings) > 1 and ok_ta:
            for sname, kw in settings.items():
                if sname == "default":
                    continue
                if not c.has_lengths and kw.get("set_edge_lengths") in ("mean-length", "median-length"):
                    continue
                if full_settings:
                    combos = [(t, r) for t in ("default", menu[0]) for r in ("TreeArray.consensus_tree", "TreeList.consensus")]
                else:
                    combos = [("default", "TreeArray.consensus_tree"), (menu[0], "TreeList.consensus")]
                for t, route in combos:
                    ctx.case(("cons-setting", c.base_key, t, route, sname), nontrivial=nt)
                    ctx.count("consensus_trees")
                    ctx.count("summarisations")
                    try:
                        C = call_consensus(route, tl, ta, sd, t, c, kw)
                    except Exception as e:
                        ctx.violation("consensus:%s|exception|%s|%s" % (route, type(e).__name__, c.tag3), repr(e),
                                      c.case(route=route, t=t, setting=sname))
                        continue
                    check_summary(c, C, route, sname, kw, ctx, {"t": t, "target": "consensus"})
    # ---- (5) credibility ------------------------------------------------------------------------------
    if P["mcc"] and ok_ta:
        check_mcc(c, tl, ta, ctx)
    if nt and len(c.shapes) >= 2:
        ctx.sample({"trees": [c.tree_text(sn, c.has_lengths) for sn in c.sns], "rooted": c.rooted, "weights": c.weights,
                    "use_tree_weights": c.utw, "thresholds": [t if t == "default" else round(t, 6) for t in menu],
                    "frequencies": ("%d non-trivial splits" % len(c.nontrivial)) if c.big else
                    dict((c.show(s), round(f, 6)) for s, f in sorted(c.freq.items(), key=lambda kv: c.show(kv[0])) if c.is_nontrivial(s)),
                    "profile": c.profile, "large_shapes": c.cfg.get("big"), "leaves": c.n}, 1)


# ---------------------------------------------------------------------------
# histories: a long-lived TreeArray / SplitDistribution filled tree by tree, with reads in between.
# After the j-th addition every read must equal the reference computed from the first j trees.

READS = ("F", "L", "A", "C", "S")
READ_NAMES = {"F": "split_frequencies", "L": "split_edge_length_summaries", "A": "split_node_age_summaries",
              "C": "consensus_tree", "S": "summarize_splits_on_tree"}


def read_sequences():
    """no read, each single read, each ordered pair of different reads (26)"""
    out = [()]
    out.extend((r,) for r in READS)
    out.extend((r1, r2) for r1 in READS for r2 in READS if r1 != r2)
    return out


READ_SEQS = read_sequences()


class History(object):
    """Reference side of one ordered tuple of trees: one Coll per prefix, all over one namespace."""

    def __init__(self, n, rooted, shapes, ages, route):
        self.n, self.rooted, self.shapes, self.ages, self.route = n, rooted, tup(shapes), ages, route
        self.lens = "ultra" if ages else "pos"
        labels = U.LABELS[:n]
        shared = build.make_namespace(labels, "exact")
        self.ns = shared[0]
        self.reads = None
        self.colls = []
        for j in range(1, len(self.shapes) + 1):
            cfg = {"n": n, "rooted": rooted, "ns": "exact", "shapes": list(self.shapes[:j]), "weights": None, "utw": True,
                   "lens": self.lens, "profile": "std"}
            self.colls.append(Coll(cfg, shared_ns=shared, case_hook=self._case))
        self.full = self.colls[-1]

    def _case(self, detail):
        return {"kind": "hist", "n": self.n, "rooted": self.rooted, "shapes": self.shapes, "ages": self.ages, "route": self.route,
                "reads": [list(r) for r in self.reads], "trees": [ref.to_newick(sn) for sn in self.full.sns],
                "read_names": READ_NAMES, "detail": detail}


def _check_table(c, table, ref_vals, what, route, step, ctx):
    """table: dict split bitmask -> summary dict of the library; ref_vals: split -> values of the first j trees"""
    sig = "history:%s|%s|" % (route, what)
    for s, vals in ref_vals.items():
        ent = table.get(c.mask_of(s))
        if ent is None:
            ctx.violation(sig + "split-missing|%s" % c.tag, "after tree %d: no summary for split %s (values %r)" % (step, c.show(s), vals),
                          c.case(read=what, step=step, split=c.show(s)))
            return False
        exp = [("mean", r_mean(vals)), ("median", r_median(vals)), ("range", (min(vals), max(vals)))]
        if len(vals) >= 2:
            exp.append(("sd", r_sd(vals)))
        for name, w in exp:
            g = ent.get(name, MISSING)
            if name == "range":
                good = g is not MISSING and g is not None and len(g) == 2 and feq(g[0], w[0]) and feq(g[1], w[1])
            else:
                good = g is not MISSING and feq(g, w)
            if not good:
                ctx.violation(sig + "value|%s" % c.tag,
                              "after tree %d: %s of split %s is %r, reference over the %d trees counted so far (values %r) is %r" % (
                                  step, name, c.show(s), None if g is MISSING else g, step, vals, w),
                              c.case(read=what, step=step, split=c.show(s), stat=name))
                return False
    return True


def run_history(h, reads, ctx):
    """reads: tuple (one per tree) of read sequences.  Executes the history on a fresh object; False at the first violation."""
    h.reads = reads
    k = len(h.shapes)
    route = h.route
    if route == "TreeArray":
        obj = TreeArray(taxon_namespace=h.ns, ignore_node_ages=not h.ages)
        sd = obj.split_distribution
    else:
        obj = SplitDistribution(taxon_namespace=h.ns, ignore_node_ages=not h.ages)
        sd = obj
    ctx.case(("hist", route, h.n, h.rooted, h.shapes, h.ages, reads), nontrivial=k >= 2 and any(reads[1:]))
    ctx.count("histories")
    for j in range(1, k + 1):
        c = h.colls[j - 1]
        tree = h.full.fresh(j - 1)
        try:
            if route == "TreeArray":
                obj.add_tree(tree)
            else:
                obj.count_splits_on_tree(tree)
        except Exception as e:
            ctx.violation("history:%s|add|exception|%s" % (route, type(e).__name__), repr(e), c.case(step=j))
            return False
        ctx.count("history_additions")
        for r in reads[j - 1]:
            ctx.count("history_reads")
            try:
                if r == "F":
                    good = True
                    keys = set(sd)
                    want = dict((c.mask_of(s), (f, s)) for s, f in c.freq.items())
                    extra = keys - set(want) - set([c.rootmask])
                    if extra:
                        ctx.violation("history:%s|split_frequencies|reports-split-in-no-tree|%s" % (route, c.tag),
                                      "after tree %d: bitmasks %r reported" % (j, sorted(extra)), c.case(read="F", step=j))
                        good = False
                    for m, (f, s1) in want.items():
                        if s1 in c.twice:
                            continue  # known: the two-leaf unrooted tree counts its split twice (layer A reports it)
                        got = sd[m]
                        if got != f and not feq(got, f, 1e-12):
                            ctx.violation("history:%s|split_frequencies|value|%s" % (route, c.tag),
                                          "after tree %d: frequency of split %s is %r, fraction of the %d trees counted so far is %r" % (
                                              j, c.show(s1), got, j, f), c.case(read="F", step=j, split=c.show(s1)))
                            good = False
                            break
                elif r == "L":
                    good = _check_table(c, sd.split_edge_length_summaries, c.vals, "split_edge_length_summaries", route, j, ctx)
                elif r == "A":
                    table = sd.split_node_age_summaries
                    good = _check_table(c, table, c.ages, "split_node_age_summaries", route, j, ctx) if h.ages else True
                elif r == "C":
                    C = obj.consensus_tree(**ATTR_ONLY)
                    name = "history:%s.consensus_tree" % route
                    good = check_consensus(c, C, DEFAULT_MIN_FREQ, name, ctx, {"read": "C", "step": j}) and \
                        check_summary(c, C, name, "default", ATTR_ONLY, ctx, {"read": "C", "step": j})
                else:
                    target = c.fresh_from(h.full.sns[0])
                    obj.summarize_splits_on_tree(target, **ATTR_ONLY)
                    good = check_summary(c, target, "history:%s.summarize_splits_on_tree" % route, "default", ATTR_ONLY, ctx,
                                         {"read": "S", "step": j, "target": ref.to_newick(h.full.sns[0])})
            except Exception as e:
                ctx.violation("history:%s|%s|exception|%s" % (route, READ_NAMES[r], type(e).__name__), repr(e), c.case(read=r, step=j))
                good = False
            if not good:
                return False
    return True


def history_tuples(tier):
    """[(n, rooted, shapes, ages, route)] - the ordered tuples of trees on which every read pattern is explored"""
    q = tier == "quick"
    out = []
    s3 = pool(3, "all")
    s4 = pool(4, "all")
    rep4 = [s for s in s4 if s in ((0, 1, 2, 3), ((0, 1), (2, 3)), (((0, 1), 2), 3), ((0, 1), 2, 3))]
    variants = ((True, True), (False, False))     # (rooted, node ages): rooted ultrametric with ages; unrooted without
    # one tree: every shape
    for n, shapes in ((3, s3), (4, s4)):
        for s in shapes:
            for rooted, ages in variants:
                for route in ("TreeArray", "SplitDistribution"):
                    out.append((n, rooted, (s,), ages, route))
    # two trees: every ordered pair
    for n, shapes in ((3, s3), (4, rep4 if q else s4)):
        for a in shapes:
            for b in shapes:
                for rooted, ages in variants:
                    out.append((n, rooted, (a, b), ages, "TreeArray"))
                    if n == 3 or (not q and a in rep4 and b in rep4):
                        out.append((n, rooted, (a, b), ages, "SplitDistribution"))
    # three trees (17 576 read patterns each)
    if q:
        trip = [(3, (s3[1], s3[1], s3[1])), (3, (s3[1], s3[2], s3[1])), (4, (rep4[1], rep4[2], rep4[1]))]
    else:
        trip = [(3, t) for t in itertools.combinations_with_replacement(s3, 3)]
        trip += [(3, (s3[1], s3[2], s3[1])), (3, (s3[2], s3[1], s3[1])), (3, (s3[0], s3[1], s3[0]))]
        trip += [(4, (a, b, a)) for a in rep4 for b in rep4]
    for n, t in trip:
        for rooted, ages in variants:
            if q and not rooted and n == 3:
                continue
            out.append((n, rooted, tuple(t), ages, "TreeArray"))
    return out


def history_chunks(tier):
    out = []
    singles = []
    for (n, rooted, shapes, ages, route) in history_tuples(tier):
        base = {"layer": "H", "n": n, "rooted": rooted, "shapes": shapes, "ages": ages, "route": route}
        if len(shapes) == 1:
            singles.append(base)
        elif len(shapes) == 2:
            out.append(dict(base, first=None))
        else:
            for i in range(len(READ_SEQS)):
                out.append(dict(base, first=i))
    for lo in range(0, len(singles), 30):
        out.append({"layer": "H1", "items": singles[lo:lo + 30]})
    return out


def run_history_chunk(chunk, ctx):
    items = chunk["items"] if chunk["layer"] == "H1" else [chunk]
    for it in items:
        h = History(it["n"], it["rooted"], it["shapes"], it["ages"], it["route"])
        k = len(h.shapes)
        firsts = READ_SEQS if it.get("first") is None else [READ_SEQS[it["first"]]]
        for first in firsts:
            for rest in itertools.product(READ_SEQS, repeat=k - 1):
                run_history(h, (first,) + rest, ctx)
        ctx.count("history_tuples_x_first_read", 1)
    if k >= 2:
        ctx.sample({"history_of": [ref.to_newick(sn) for sn in h.full.sns], "rooted": h.rooted, "node_ages": h.ages,
                    "object": h.route, "read_patterns": len(firsts) * len(READ_SEQS) ** (k - 1),
                    "example": [list(r) for r in h.reads]}, 1)


# ---------------------------------------------------------------------------
# the named default threshold

def check_const(ctx):
    ctx.case(("const", "GREATER_THAN_HALF"), nontrivial=True)
    g = constants.GREATER_THAN_HALF
    if not g > 0.5:
        # concrete consequence: the default consensus of two conflicting trees is not a majority-rule tree
        cfg = {"n": 4, "rooted": True, "ns": "exact", "shapes": [((0, 1), (2, 3)), ((0, 2), (1, 3))], "weights": None,
               "utw": True, "lens": "none", "profile": "freq"}
        c = Coll(cfg)
        C = c.treelist().consensus()
        T = c.nontrivial_of(ref.snapshot(C)[1])
        ctx.violation("constants.GREATER_THAN_HALF|not-above-one-half",
                      "constants.GREATER_THAN_HALF == %r (float(Decimal(0.5).next_plus()) rounds back to 0.5): the default "
                      "'majority-rule' threshold admits splits found in exactly half of the trees, e.g. TreeList.consensus() of "
                      "%s gives %s with splits %s, each of frequency 0.5" % (
                          g, [ref.to_newick(sn) for sn in c.sns], ref.to_newick(ref.snapshot(C)[1], False),
                          sorted(c.show(s) for s in T)),
                      {"kind": "const"})
    if DEFAULT_MIN_FREQ != g:
        ctx.violation("constants.GREATER_THAN_HALF|not-the-default", "default min_freq is %r" % (DEFAULT_MIN_FREQ,), {"kind": "const"})


# ---------------------------------------------------------------------------
# enumeration

def bounds(tier):
    q = tier == "quick"
    return {
        "A_small": {"n": [1, 2, 3], "k_max": 3 if q else 4, "rootings": [True, False, None], "profile": "full",
                    "ns": ["exact", "reversed", "removed_low"], "lens": ["pos", "none", "nd"]},
        "A4": {"n": 4, "pool": "all 26 shapes", "k_max": 3 if q else 4, "rootings": [True, False], "lens": "pos",
               "profile": "full for k<=2 (all 26 trees as targets), std for k>=3"},
        "A4_variants": {"n": 4, "k_max": 2, "variants": ["ns=reversed", "ns=removed_low", "lens=none", "lens=nd",
                                                         "rooting undefined"], "profile": "std"},
        "A5_rooted": {"n": 5, "singletons": "all 236 shapes", "pairs": "binary shapes (105)" if q else "all 236 shapes", "lens": "pos",
                      "profile": "lean"},
        "A5_unrooted": {"n": 5, "pool": "one drawing per unrooted topology (26)", "k_max": 3, "lens": "pos", "profile": "lean",
                        "also": None if q else "every pair of the 236 drawings"},
        "A5_rooted_triples": None if q else {"n": 5, "pool": "binary (105)", "k": 3, "profile": "lean"},
        "B_weights": {"n": [3, 4], "k_max": 3, "weight_alphabets": [[1, 2], [0.5, 3]], "zero_weight_vectors": "{0,1}^k with a 0 and a 1, use_tree_weights=True, frequency tables", "use_tree_weights": [True, False],
                      "rootings": [True, False], "lens": "none",
                      "profile": ("use_tree_weights=True: lean (every threshold); False: flagoff (frequency tables, consensus at "
                                  "default and lowest threshold)" if not q else
                                  "k<=2 and n=3: use_tree_weights=True lean, False flagoff; n=4,k=3: lean/flagoff for multisets of binary "
                                  "shapes with weights over {1,2}, frequency tables for every other multiset (use_tree_weights=False: "
                                  "binary multisets only)")},
        "C_ages": {"n": [3, 4] if q else [3, 4, 5], "k_max": "3 (n=5: 2)", "k3_pool": "binary shapes for n=4" if q else "all shapes",
                   "rooted_only": True, "lens": "ultra", "profile": "ages"},
        "thresholds": "complete menu per collection: attainable frequencies, midpoints, 0.5, 1.0, default",
        "H_histories": {"object": "one long-lived TreeArray (add_tree) or SplitDistribution (count_splits_on_tree) filled tree by tree",
                        "reads": READ_NAMES, "after_each_addition": "no read, each single read, each ordered pair of different reads (26)",
                        "patterns_per_tuple": "26^k: every combination over the k additions",
                        "variants": ["rooted ultrametric, ignore_node_ages=False", "unrooted, position-dependent lengths"],
                        "one_tree": "every shape of U(3), U(4), both objects",
                        "two_trees": "every ordered pair of U(3) (both objects) and of %s (TreeArray%s)" % (
                            ("4 representative shapes of U(4)", "") if q else ("U(4)", "; SplitDistribution for the 4 representative shapes")),
                        "three_trees": "3 ordered triples (n=3: s,s,s and s,t,s; n=4: s,t,s), TreeArray" if q else
                                       "every multiset of 3 of U(3) plus 3 re-orderings, and s,t,s for the 4 representative shapes of U(4), TreeArray",
                        "oracle": "every read after the j-th addition equals the reference computed from the first j trees"},
        "G_large": {"note": "exhaustive over this stated set only (same in both tiers); same oracles as the small universe",
                    "labels": "t000..tNNN", "shapes": {"ladderL": "left-leaning ladder", "ladderR": "right-leaning ladder",
                                                       "balanced": "balanced binary", "star": "star", "broom": "ladder of N/3 tips ending in a star",
                                                       "ladderL-swap": "ladderL with tips N/2 and N/2+2 exchanged",
                                                       "balanced-swap": "balanced with first and last tip exchanged",
                                                       "broom-swap": "broom with the last handle tip and a star tip exchanged"},
                    "collections": [[N, list(t)] for N, t in BIG_TUPLES], "x": "rooting {rooted, unrooted} x weights {None, 1,2,1,2..}",
                    "profile": "lean: frequency of every reference split (+ stated absent probes), TreeArray consensus at every threshold of "
                               "the menu, other routes at default/lowest, summaries on every member, collapse of every member at every "
                               "threshold, both credibility scores via TreeArray and TreeList",
                    "node_ages_collections": [[N, list(t)] for N, t in BIG_AGES],
                    "use_tree_weights_off": [[33, ["ladderL", "ladderR", "balanced"], [1, 2, 2]], [65, ["ladderL", "ladderR", "balanced"], [1, 2, 2]]],
                    "absent_split_probes": "each reference split with bit 1, N/2 or N-1 toggled; the every-other-taxon split"},
        "profiles": {"full": "3 consensus routes x every threshold; 7 summarisation settings; every tree of U(n) as target",
                     "std": "as full, members as targets", "lean": "TreeArray.consensus_tree x every threshold, other routes at "
                     "default and lowest threshold; default setting", "freq": "frequency tables only",
                     "ages": "as lean with node ages and the mean-age / median-age settings"},
    }


def _slices(total, step):
    return [(lo, min(total, lo + step)) for lo in range(0, total, step)]


def chunks(tier):
    q = tier == "quick"
    out = [{"layer": "const"}]
    kmax4 = 3 if q else 4
    # small n, everything
    for n in (1, 2, 3):
        for rooted in (True, False, None):
            for nscfg in ("exact", "reversed", "removed_low"):
                out.append({"layer": "A", "n": n, "k": list(range(1, kmax4 + 1)), "rooted": rooted, "ns": nscfg,
                            "lens": ["pos", "none", "nd"], "pool": "all", "profile": "full", "lo": 0, "hi": None})
    # n = 4
    for rooted in (True, False):
        for k in range(1, kmax4 + 1):
            total = _nmultisets(26, k)
            step = {1: 13, 2: 12, 3: 40, 4: 80}[k]
            for lo, hi in _slices(total, step):
                out.append({"layer": "A", "n": 4, "k": [k], "rooted": rooted, "ns": "exact", "lens": ["pos"], "pool": "all",
                            "profile": "full" if k <= 2 else "std", "lo": lo, "hi": hi})
    for k in (1, 2):
        total = _nmultisets(26, k)
        for lo, hi in _slices(total, 60):
            for rooted, nscfg, lens in ((True, "reversed", "pos"), (False, "reversed", "pos"), (True, "removed_low", "pos"),
                                        (False, "removed_low", "pos"), (True, "exact", "none"), (False, "exact", "none"),
                                        (True, "exact", "nd"), (False, "exact", "nd"), (None, "exact", "pos")):
                out.append({"layer": "A", "n": 4, "k": [k], "rooted": rooted, "ns": nscfg, "lens": [lens], "pool": "all",
                            "profile": "std", "lo": lo, "hi": hi})
    # n = 5 rooted: every single tree of the 236; quick: every pair of the 105 binary shapes, thorough: every pair of
    # the 236.  n = 5 unrooted: every multiset of <= 3 of the 26 unrooted topologies (one drawing each; all drawings
    # are covered at n = 4), thorough: also every pair of the 236 drawings
    for lo, hi in _slices(236, 60):
        out.append({"layer": "A", "n": 5, "k": [1], "rooted": True, "ns": "exact", "lens": ["pos"], "pool": "all",
                    "profile": "lean", "lo": lo, "hi": hi})
    pl = "binary" if q else "all"
    total = _nmultisets(len(pool(5, pl)), 2)
    for lo, hi in _slices(total, 150):
        for rooted in ((True,) if q else (True, False)):
            out.append({"layer": "A", "n": 5, "k": [2], "rooted": rooted, "ns": "exact", "lens": ["pos"], "pool": pl,
                        "profile": "lean", "lo": lo, "hi": hi})
    for k in (1, 2, 3):
        total = _nmultisets(len(pool(5, "topo")), k)
        for lo, hi in _slices(total, 200):
            out.append({"layer": "A", "n": 5, "k": [k], "rooted": False, "ns": "exact", "lens": ["pos"], "pool": "topo",
                        "profile": "lean", "lo": lo, "hi": hi})
    if not q:
        total = _nmultisets(len(pool(5, "binary")), 3)
        for lo, hi in _slices(total, 200):
            out.append({"layer": "A", "n": 5, "k": [3], "rooted": True, "ns": "exact", "lens": ["pos"], "pool": "binary",
                        "profile": "lean", "lo": lo, "hi": hi})
    # weights
    for n in (3, 4):
        np_ = len(pool(n, "all"))
        for rooted in (True, False):
            for k in (1, 2, 3):
                total = _nmultisets(np_, k)
                for lo, hi in _slices(total, {1: 30, 2: 30, 3: 40 if q else 16}[k]):
                    out.append({"layer": "B", "n": n, "k": [k], "rooted": rooted, "pool": "all", "lo": lo, "hi": hi, "mode": tier})
    # ages (rooted, ultrametric)
    for n in ((3, 4) if q else (3, 4, 5)):
        for k in (1, 2, 3):
            pl = "all"
            if k == 3 and n == 5:
                continue
            if k == 3 and q and n == 4:
                pl = "binary"
            total = _nmultisets(len(pool(n, pl)), k)
            for lo, hi in _slices(total, 60 if n < 5 else 100):
                out.append({"layer": "C", "n": n, "k": [k], "rooted": True, "pool": pl, "lo": lo, "hi": hi})
    out.extend(history_chunks(tier))
    # large representatives: the same stated set in both tiers, one collection per chunk
    for i in range(len(big_configs())):
        out.append({"layer": "G", "index": i})
    return out


def _nmultisets(N, k):
    return math.comb(N + k - 1, k)


def _multisets(shapes, k, lo, hi):
    it = itertools.combinations_with_replacement(range(len(shapes)), k)
    for idx in itertools.islice(it, lo, hi):
        yield [shapes[i] for i in idx]


def run_chunk(chunk, ctx):
    layer = chunk["layer"]
    if layer == "const":
        check_const(ctx)
        return None
    if layer in ("H", "H1"):
        run_history_chunk(chunk, ctx)
        return None
    if layer == "G":
        ctx.count("collections_large_representatives")
        check_collection(big_configs()[chunk["index"]], ctx)
        return None
    n = chunk["n"]
    shapes = pool(n, chunk["pool"])
    for k in chunk["k"]:
        for ms in _multisets(shapes, k, chunk["lo"], chunk["hi"]):
            if layer == "A":
                for lens in chunk["lens"]:
                    check_collection({"n": n, "rooted": chunk["rooted"], "ns": chunk["ns"], "shapes": ms, "weights": None,
                                      "utw": True, "lens": lens, "profile": chunk["profile"]}, ctx)
            elif layer == "B":
                allbin = all(U.is_binary(s) for s in ms)
                small = k <= 2 or n <= 3 or chunk["mode"] == "thorough"
                for wv in weight_vectors(k, ([1, 2], [0.5, 3])):
                    if wv is None:
                        continue  # unweighted collections are layer A
                    first_alphabet = set(wv) <= set([1, 2])
                    for utw in (True, False):
                        if small:
                            prof = "lean" if utw else "flagoff"
                        elif utw:
                            prof = "lean" if (allbin and first_alphabet) else "freq"
                        elif allbin:
                            prof = "flagoff" if first_alphabet else "freq"
                        else:
                            continue
                        check_collection({"n": n, "rooted": chunk["rooted"], "ns": "exact", "shapes": ms, "weights": wv,
                                          "utw": utw, "lens": "none", "profile": prof}, ctx)
                # a tree of weight exactly 0 next to positive weights: it counts for nothing (frequency tables only)
                for wv in itertools.product((0, 1), repeat=k):
                    if 0 in wv and any(wv):
                        check_collection({"n": n, "rooted": chunk["rooted"], "ns": "exact", "shapes": ms, "weights": list(wv),
                                          "utw": True, "lens": "none", "profile": "freq"}, ctx)
            elif layer == "C":
                check_collection({"n": n, "rooted": True, "ns": "exact", "shapes": ms, "weights": None, "utw": True,
                                  "lens": "ultra", "profile": "ages"}, ctx)
            else:
                raise ValueError(layer)
    return None


def replay(case, ctx):
    k = case.get("kind")
    if k == "const":
        check_const(ctx)
    elif k == "hist":
        h = History(case["n"], case["rooted"], case["shapes"], case["ages"], case["route"])
        run_history(h, tuple(tuple(r) for r in case["reads"]), ctx)
    elif k == "coll":
        cfg = dict((key, case[key]) for key in ("n", "rooted", "ns", "shapes", "weights", "utw", "lens", "profile", "big", "labels") if key in case)
        check_collection(cfg, ctx)
    else:
        raise ValueError("unknown case kind %r" % k)
