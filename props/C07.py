"""C07 - re-rooting / re-orienting never changes the underlying unrooted tree (DESIGN 3/C07).

Engine E1: exhaustive enumeration of
    tree drawing (U(n), child-order variants, unifurcation insertions)
  x edge-length pattern x initial rooting state
  x operation x EVERY target in the documented domain x every flag setting.

The oracle is the reference model of mc/ref.py evaluated on primitive-field snapshots
taken before and after the call: leaf multiset, unrooted split set, total length and
every leaf-to-leaf path length must be unchanged; plus the four placement claims of the
statement (midpoint, edge rooting distances, outgroup first, rooting flag soft/hard).
"""
import gc
import itertools
import random
import warnings

import dendropy  # noqa: F401  (imported so that a broken install fails loudly)

from mc import ref, build, budget
from mc import universe as U

ID = "C07"
LEVEL = "exploration"
EXHAUSTIVE = True
RULE = ("every tree of U(n) (n up to the tier bound) drawn as generated, in child-order variants and with "
        "unifurcation insertions x edge-length pattern (none, unit, non-dyadic, distinct integers, with root edge, "
        "every assignment over {1,2}, {0,1} and - midpoint only - {1,2,3}) x initial rooting {rooted, unrooted, "
        "undefined} x operation (reseed_at, reroot_at_node, reroot_at_edge, reroot_at_midpoint, "
        "to_outgroup_position, randomly_reorient, randomly_rotate, ladderize, reorder) x every target node/edge "
        "of the documented domain x every flag setting x every requested length pair / scripted generator answer; "
        "plus partly-None length assignments (every single / pair of edges without a length, one seed edge without "
        "a length under all child orders) x the five re-seeding / re-rooting operations x all targets and flags; "
        "plus sequences on ONE tree object (every ordered pair over a reduced menu of the nine operations and seven "
        "read-only queries, and selected triples, see bounds), judged after each step: the four invariants against "
        "the original tree, placement / rooting-flag / query answers against the state just before the step; "
        "plus a stated finite set of large representatives (ladders, balanced trees, stars, a broom with 12..100 "
        "leaves, see bounds) x {unit, 1-2-3 cyclic} lengths x {rooted, unrooted} x every operation at a stated "
        "subset of targets and flag settings - exhaustive over that stated set only, same oracle; "
        "a case = one such call on a freshly built tree; non-trivial = the tree has >= 3 leaves")
ASSUMPTIONS = [
    "reference quantities (leaf set, unrooted splits, path lengths, total length, root distances) are computed by "
    "mc/ref.py from Node._child_nodes / Edge.length snapshots; an edge length of None counts as 0",
    "documented argument domains: reseed_at / reroot_at_node take internal nodes, reroot_at_edge internal edges "
    "(head internal, tail present) with length1 + length2 = the edge's length, to_outgroup_position any non-seed "
    "node, reroot_at_midpoint trees with >= 2 leaves and all non-root edge lengths defined; leaves / terminal edges "
    "as targets are explored in the thorough tier as information only and never decide",
    "deciding inputs have a seed node of out-degree >= 2 (or are a single leaf): a seed with one child is a degree-one "
    "vertex of the unrooted tree, for which 'leaf set' is ambiguous; such drawings are explored and only counted; "
    "'leaf' = childless node (DendroPy's leaf_node_iter), so a taxon-bearing node that becomes the root is a lost leaf",
    "total tree length = Tree.length() semantics (sum over all edges including the seed edge)",
    "midpoint oracle is existential over tied most-distant pairs; float comparison exact for dyadic length patterns, "
    "relative 1e-9 otherwise",
    "rooting flag is decided only for operations whose docstring says soft (reseed_at) or hard (reroot_at_node, "
    "reroot_at_edge, reroot_at_midpoint); for the others a changed flag is counted, not reported",
    "with update_bipartitions=True the unrooted split set is additionally read from Tree.bipartition_encoding "
    "(bit index = accession order recorded by the harness) and must equal the reference split set before the call",
    "sequence layer: the invariants are preserved under composition, so each step of a sequence on one object is judged "
    "with the single-call oracle (invariants against the original tree, placement against the state before the step); "
    "mrca is called with is_bipartitions_updated=False because its default documents that it trusts the caller to have "
    "kept the encoding current",
    "after a call with update_bipartitions=True (and after encode_bipartitions) every edge's leafset bitmask must name "
    "the leaves below it in the tree as it is now (docstrings: 'will be updated')",
    "operations taking an rng are driven by random.Random(k) for every k in bounds['rng_seeds'] and by a scripted "
    "generator that answers sample() with every node in turn and shuffle() with every permutation index in "
    "bounds['shuffle_indices']",
]
MANIFEST = {
    "engine": "E1-ENUM",
    "text": ("For every tree of at most 5 (thorough: 6) leaves, in every listed drawing, edge-length pattern and rooting "
             "state, every re-rooting / re-orienting call with every admissible target and flag setting leaves leaf set, "
             "unrooted splits, total length and all path lengths unchanged, puts the root where the statement says "
             "(midpoint incl. midpoint-on-node and ties, edge distances, outgroup first) and treats the rooting flag "
             "as documented - or the failing call is reported with a replayable descriptor."),
    "note": "trusts mc/ref.py (plain-Python tree semantics on snapshots) and mc/build.py (Node API construction)",
    "technique": "bounded exhaustive enumeration with an independent reference model",
}

MENUS = ("full", "reroot", "lengthy", "reroot-noub", "midpoint", "midpoint-noub", "midpoint-default")
OPS = ("reseed_at", "reroot_at_node", "reroot_at_edge", "reroot_at_midpoint", "to_outgroup_position",
       "randomly_reorient", "randomly_rotate", "ladderize", "reorder")
SOFT = ("reseed_at",)
HARD = ("reroot_at_node", "reroot_at_edge", "reroot_at_midpoint")


def bounds(tier):
    q = tier == "quick"
    return {
        "max_leaves": 5 if q else 6,
        "drawings": {
            "base": "every shape of U(n) as generated",
            "child orders": "all orders n <= 4; n = 5: " + ("fully reversed" if q else "fully reversed + every adjacent swap"),
            "unifurcations": ("n <= 2: every <= 2 insertions of chains of 1 or 2; n = 3: every <= 2 single-node insertions; "
                              "n = 4: every single insertion") if q else
                             ("n <= 3: every <= 2 insertions of chains of 1 or 2; n = 4: every <= 2 single-node insertions; "
                              "n = 5: every single insertion"),
            "seed of out-degree one": "explored, never deciding (counted as info_seed_unifurcation_*)",
        },
        "length_patterns": {
            "all operations, all flags": ["none", "unit", "non-dyadic 0.1*i", "distinct integers", "with root edge (n <= 4)",
                                          "every assignment over {1,2} and over {0,1}, n <= %d" % (3 if q else 4)]
                                         + ([] if q else ["every assignment over {0,1,2}, n <= 3"]),
            "length-sensitive operations, update_bipartitions=False": (["every assignment over {1,2} and over {0,1}, n = 4"] if q else []),
            "reroot_at_midpoint only": (["{1,2,3} n <= 4 (update_bipartitions=False)", "{1,2} n = 5 (default flags)"] if q else
                                        ["{1,2,3} and {0,1,2} n <= 4 (all flags)", "{1,2} and {0,1} n = 5 (update_bipartitions=False)",
                                         "{1,2} binary n = 6 (default flags)"]),
        },
        "sequences_on_one_object": {
            "trees": "every shape n <= %d as generated x {distinct integers rooted, distinct integers unrooted, "
                     "ultrametric integers rooted%s, unit lengths with undefined rooting}" % ((4, "") if q else (5, " and unrooted")),
            "menu per state (targets = pre-order indices of the CURRENT state)":
                "reseed_at, reroot_at_node at every internal node; reroot_at_edge (L/4,3L/4) at every internal edge; "
                "reroot_at_midpoint (update_bipartitions False / True); to_outgroup_position at every non-seed node; "
                "reseed_at and to_outgroup_position once with update_bipartitions=True; randomly_reorient, "
                "randomly_rotate (Random(0)); ladderize; reorder; queries distance_from_root, distance_from_tip (all "
                "nodes), calc_node_ages (default check when the state is ultrametric), calc_node_root_distances, "
                "encode_bipartitions, phylogenetic_distance_matrix, mrca(first, last leaf; is_bipartitions_updated=False)",
            "pairs": "every ordered pair (includes the same operation twice)",
            "triples": ("x = every query (in triples also calc_node_root_distances(all nodes), max_distance_from_root, "
                        "minmax_leaf_distance_from_root, num_lineages_at(1.3)) or the midpoint search; [x; y; reroot_at_midpoint], "
                        "[x; y; x again] and [x; y; mrca] with y EVERY re-rooting call of the menu at every target; "
                        "[x; y; q'] with q' every query that has a reference answer and y one call of each re-rooting kind "
                        "(last internal node / edge, first and last node as outgroup, randomly_reorient) on the "
                        "distinct-integer trees; trees with defined rooting") if q else
                       ("n <= 3: every triple; n = 4: every [x; y; z] with x, z queries or midpoint and y any other "
                        "operation; n = 5: the quick tier's triple families"),
            "query answers compared": "path lengths, leaf and all-node root distances, their min / max, lineages spanning a "
                                      "distance, split set / per-edge leafset bitmasks, common "
                                      "ancestor, root age on ultrametric states; distance_from_tip and other node ages "
                                      "are exercised only (C17's subject)",
        },
        "partly_None_lengths": {
            "shapes": "n <= %d, as generated" % (4 if q else 5),
            "None subsets": "every single non-root edge; every pair of non-root edges"
                            + ("" if q else " (n = 5: update_bipartitions=False only)")
                            + "; one of the two seed edges under every enumerated child order",
            "other lengths": "distinct positive integers (pre-order index)", "rootings": [True, False],
            "operations": "reseed_at, reroot_at_node, reroot_at_edge, reroot_at_midpoint, to_outgroup_position, every "
                          "target and flag setting; None read as 0 by the oracle; a TypeError of reroot_at_midpoint on "
                          "a missing length and the position of the midpoint root are noted (maxima *_seen), not decided (the four "
                          "invariants and the rooting flag are)",
        },
        "rootings": "rooted, unrooted; undefined for the unit pattern" + (" (and none / distinct-integer patterns n <= 4)" if q else
                    ", none and distinct-integer patterns (n = 6: unit; binary shapes also distinct integers, non-dyadic, "
                    "none-unrooted, unit-undefined, {1,2}-unrooted)"),
        "edge_length_pairs": ["0,L", "L/2,L/2", "L,0", "L/4,3L/4", "None,None (length-free trees)"],
        "rng_seeds": [0, 1, 2, 3], "shuffle_indices": [0, 1, 2, 3, 4, 5],
        "reorient_scripted_shuffle_index_and_update_flag": [[1, False], [3, True]] if q else [[0, False], [1, False], [1, True], [3, True], [5, False]],
        "informational_leaf_targets": not q,
        "large_representatives": {
            "trees (kind, leaves)": [[k, n] for k, n, _ in big_shapes()],
            "labels": "t000..tNNN", "length_patterns": list(BIG_LENS), "rootings": [True, False],
            "targets": "nodes: seed, first / middle / last non-seed internal node, parent of the first and of the last leaf, "
                       "deepest internal node; edges: those of the non-seed nodes of that list; outgroups: the same plus "
                       "first / middle / last node in pre-order and the deepest leaf",
            "arguments": "each operation with its default flags and with one contrasting flag setting (see big_menu); "
                         "edge pairs L/2,L/2 L/4,3L/4 0,L; Random(0), Random(1), scripted picks first/middle/last node",
            "coverage claim": "exhaustive over this stated set only (both tiers identical)",
        },
    }


def tup(x):
    if isinstance(x, list):
        return tuple(tup(y) for y in x)
    return x


# ---------------------------------------------------------------------------
# enumeration of trees

def n_nodes(shape):
    return sum(1 for _ in U.paths(shape))


def pat_none(k):
    return [None] * k


def pat_unit(k):
    return [None] + [1] * (k - 1)


def pat_nondyadic(k):
    return [None] + [round(0.1 * i, 10) for i in range(1, k)]


def pat_inc(k):
    return [None] + list(range(1, k))


def pat_rootedge(k):
    return [4] + [1 + (i % 3) for i in range(k - 1)]


def pat_product(k, alphabet):
    for combo in itertools.product(alphabet, repeat=k - 1):
        yield [None] + list(combo)


def drawings(n, si, tier):
    """[(layer, shape)] for shape number si of U(n)."""
    shapes = U.shapes(n, binary_only=False)
    shape = shapes[si]
    out = [("base", shape)]
    q = tier == "quick"
    if n >= 2:
        if n <= 4:
            for o in U.all_orders(shape):
                if o != shape:
                    out.append(("order", o))
        elif n == 5:
            if q:
                r = U.reverse_all(shape)
                if r != shape:
                    out.append(("order", r))
            else:
                for o in U.order_variants(shape)[1:]:
                    out.append(("order", o))
        if n <= 2 or (n == 3 and not q):
            us = U.with_unifurcations(shape, 2, (1, 2))
        elif n == 3 or (n == 4 and not q):
            us = U.with_unifurcations(shape, 2, (1,))
        elif n == 4 or (n == 5 and not q):
            us = U.with_unifurcations(shape, 1, (1,))
        else:
            us = []
        for u in us:
            out.append(("unif", u))
    return out


def length_patterns(layer, shape, n, tier):
    """[(pattern name, lens list, dyadic?, menu)]; menu in MENUS"""
    k = n_nodes(shape)
    out = []
    seen = {}
    rank = {m: i for i, m in enumerate(MENUS)}
    q = tier == "quick"

    def add(name, lens, dyadic, menu):
        key = tuple(lens)
        if key in seen and rank[seen[key]] <= rank[menu]:
            return
        if key in seen:
            out[:] = [x for x in out if tuple(x[1]) != key]
        seen[key] = menu
        out.append((name, lens, dyadic, menu))
    if layer == "base":
        if n <= 5 or U.is_binary(shape):
            add("none", pat_none(k), True, "full")
            add("nondyadic", pat_nondyadic(k), False, "full")
        add("unit", pat_unit(k), True, "full")
        if n <= 5 or U.is_binary(shape):
            add("inc", pat_inc(k), True, "full")
        if n <= 4:
            add("rootedge", pat_rootedge(k), True, "full")
            m = "full" if (n <= 3 or not q) else "lengthy"
            for lens in pat_product(k, (1, 2)):
                add("x12", lens, True, m)
            for lens in pat_product(k, (0, 1)):
                add("x01", lens, True, m)
            if not q and n <= 3:
                for lens in pat_product(k, (0, 1, 2)):
                    add("x012", lens, True, "full")
            for lens in pat_product(k, (1, 2, 3)):
                add("x123", lens, True, "midpoint-noub" if q else "midpoint")
            if not q:
                for lens in pat_product(k, (0, 1, 2)):
                    add("x012", lens, True, "midpoint")
        elif n == 5:
            for lens in pat_product(k, (1, 2)):
                add("x12", lens, True, "midpoint-default" if q else "midpoint-noub")
            if not q:
                for lens in pat_product(k, (0, 1)):
                    add("x01", lens, True, "midpoint-noub")
        elif n == 6 and not q and U.is_binary(shape):
            for lens in pat_product(k, (1, 2)):
                add("x12", lens, True, "midpoint-default")
    elif layer == "order":
        add("inc", pat_inc(k), True, "full")
        if n <= 3 or (n == 4 and not q):
            add("unit", pat_unit(k), True, "full")
    elif layer == "unif":
        add("inc", pat_inc(k), True, "full")
        add("none", pat_none(k), True, "full")
        if n <= 3:
            add("unit", pat_unit(k), True, "full")
    # partly-None lengths: the named edges have no length, all others distinct positive integers
    if layer in ("base", "order") and 2 <= n <= (4 if q else 5):
        inc = pat_inc(k)

        def holes(idx):
            return [None if i in idx else x for i, x in enumerate(inc)]
        if not isinstance(shape, int) and len(shape) == 2:
            second = 1 + n_nodes(shape[0])
            for i in (1, second):                       # one of the two seed edges, under every child order
                add("pnseed", holes((i,)), True, "reroot")
        if layer == "base":
            for i in range(1, k):                       # every single edge
                add("pn1", holes((i,)), True, "reroot")
            for i in range(1, k):                       # every pair of edges
                for j in range(i + 1, k):
                    add("pn2", holes((i, j)), True, "reroot" if n <= 4 else "reroot-noub")
    return out


def rootings_for(layer, pname, n, tier, shape=None):
    if n >= 6:
        if pname in ("none", "x12"):
            return (False,)
        if pname == "unit" and U.is_binary(shape):
            return (True, False, None)
        return (True, False)
    if layer == "base" and (pname == "unit" or (pname in ("none", "inc") and (n <= 4 or tier != "quick"))):
        return (True, False, None)
    if layer == "unif" and pname == "none" and n >= 4 and tier == "quick":
        return (False,)
    return (True, False)


def chunks(tier):
    """One chunk = the (drawing, length assignment) items number j, j+P, j+2P, ... of a block of shapes."""
    b = bounds(tier)
    q = tier == "quick"
    out = []
    for n in range(1, b["max_leaves"] + 1):
        ns = len(U.shapes(n))
        step = {1: 1, 2: 1, 3: 1, 4: 1, 5: 1, 6: 16}[n]
        parts = {1: 1, 2: 1, 3: 2, 4: 8 if q else 24, 5: 1 if q else 4, 6: 1}[n]
        for lo in range(0, ns, step):
            for j in range(parts):
                out.append({"n": n, "lo": lo, "hi": min(ns, lo + step), "part": j, "parts": parts, "tier": tier})
    for i in range(len(big_shapes())):
        out.append({"kind": "big", "index": i, "tier": tier})
    for n in range(2, (4 if q else 5) + 1):
        for si in range(len(U.shapes(n))):
            if q or n >= 4:
                out.append({"kind": "seq", "n": n, "si": si, "tier": tier})
            if q or n == 5:
                out.append({"kind": "seq", "n": n, "si": si, "tier": tier, "triples": "memo"})
            elif n <= 4:
                out.append({"kind": "seq", "n": n, "si": si, "tier": tier, "triples": "all" if n <= 3 else "query-op-query"})
    return out


# ---------------------------------------------------------------------------
# large representatives (size-triggered defects are invisible in U(n <= 6))

BIG_LENS = ("unit", "cyc123")


def labels_for(n):
    if n <= len(U.LABELS):
        return U.LABELS[:n]
    return ["t%03d" % i for i in range(n)]


def _ladder(k, left=True):
    s = 0
    for i in range(1, k):
        s = (s, i) if left else (i, s)
    return s


def _balanced(lo, hi):
    if hi - lo == 1:
        return lo
    mid = (lo + hi) // 2
    return (_balanced(lo, mid), _balanced(mid, hi))


def big_shape(kind, n):
    if kind == "ladder-left":
        return _ladder(n, True)
    if kind == "ladder-right":
        return _ladder(n, False)
    if kind == "balanced":
        return _balanced(0, n)
    if kind == "star":
        return tuple(range(n))
    if kind == "broom":      # a ladder of 20 tips whose far end is a star of n - 20 tips
        s = tuple(range(n - 20))
        for i in range(n - 20, n):
            s = (s, i)
        return s
    raise ValueError(kind)


def big_shapes():
    out = []
    for k in (12, 17, 33, 40, 65):
        out.append(("ladder-left", k, None))
        out.append(("ladder-right", k, None))
    for k in (16, 32, 64):
        out.append(("balanced", k, None))
    for k in (12, 33, 40, 100):
        out.append(("star", k, None))
    out.append(("broom", 60, None))
    return out


def big_lens(pat, k):
    if pat == "unit":
        return [None] + [1] * (k - 1)
    if pat == "cyc123":
        return [None] + [1 + (i % 3) for i in range(k - 1)]
    raise ValueError(pat)


def expand(case):
    """(shape, lens, labels, short description) of a case descriptor; large representatives are
    stored as {"big": [kind, n], "lenpat": name} instead of a written-out shape."""
    if "big" in case:
        kind, n = case["big"]
        shape = big_shape(kind, n)
        lens = big_lens(case["lenpat"], n_nodes_iter(shape))
        return shape, lens, labels_for(n), "%s-%d/%s" % (kind, n, case["lenpat"])
    shape = tup(case["shape"])
    return shape, case["lens"], labels_for(max(U.shape_leaves(shape)) + 1), None


def n_nodes_iter(shape):
    c = 0
    stack = [shape]
    while stack:
        x = stack.pop()
        c += 1
        if not isinstance(x, int):
            stack.extend(x)
    return c


def big_targets(bf):
    """Representative node indices (pre-order) of a large tree."""
    k = bf.k
    internal = [i for i in range(1, k) if bf.is_internal(i)]
    leaves = [i for i in range(k) if not bf.is_internal(i)]
    depth = {0: 0}
    for i in range(1, k):
        depth[i] = depth[bf.parent[i]] + 1
    nodes = [0]
    if internal:
        nodes += [internal[0], internal[len(internal) // 2], internal[-1], max(internal, key=lambda i: (depth[i], -i))]
    nodes += [bf.parent[leaves[0]], bf.parent[leaves[-1]]]
    nodes = sorted(set(nodes))
    og = set(i for i in nodes if i != 0)
    og |= {1, k // 2, k - 1, max(leaves, key=lambda i: (depth[i], -i))}
    return nodes, sorted(og)


def big_menu(bf):
    """(op, target, args): every operation once with its default flags and once with a contrasting setting,
    at the representative targets."""
    nodes, og = big_targets(bf)
    k = bf.k
    for i in nodes:
        yield ("reseed_at", i, {"ub": False, "cb": True, "su": True})
        yield ("reseed_at", i, {"ub": True, "cb": False, "su": False})
        yield ("reroot_at_node", i, {"ub": False, "su": True, "cb": True})
        yield ("reroot_at_node", i, {"ub": True, "su": False, "cb": True})
        if i != 0:
            L = bf.nodes[i][2]
            yield ("reroot_at_edge", i, {"l1": L / 2.0, "l2": L / 2.0, "ub": False, "su": True})
            yield ("reroot_at_edge", i, {"l1": L / 4.0, "l2": 3 * L / 4.0, "ub": False, "su": False})
            yield ("reroot_at_edge", i, {"l1": 0, "l2": L, "ub": True, "su": True})
    yield ("reroot_at_midpoint", None, {"ub": False, "su": True, "cb": True})
    yield ("reroot_at_midpoint", None, {"ub": True, "su": False, "cb": True})
    yield ("reroot_at_midpoint", None, {"ub": False, "su": True, "cb": False})
    for i in og:
        yield ("to_outgroup_position", i, {"ub": False, "su": True})
        yield ("to_outgroup_position", i, {"ub": True, "su": False})
    for sd in (0, 1):
        yield ("randomly_reorient", None, {"seed": sd, "ub": bool(sd)})
    for pick in sorted(set([0, k // 2, k - 1])):
        yield ("randomly_reorient", None, {"pick": pick, "perm": 1, "ub": False})
    yield ("randomly_rotate", None, {"seed": 0})
    yield ("randomly_rotate", None, {"perm": 1})
    yield ("randomly_rotate", None, {"perm": 5})
    for asc in BOOL:
        yield ("ladderize", None, {"asc": asc})
        yield ("reorder", None, {"asc": asc})


def run_big(chunk, ctx):
    kind, n, _ = big_shapes()[chunk["index"]]
    shape = big_shape(kind, n)
    k = n_nodes_iter(shape)
    labels = labels_for(n)
    ctx.count("big_trees")
    for pat in BIG_LENS:
        lens = big_lens(pat, k)
        sn = ref.mk(shape, lens=list(lens), labels=labels)
        bf = Before(sn)
        on_node = bf.midpoint_on_node(make_eq(True))
        ctx.count("big_midpoint_on_node_inputs" if on_node else "big_midpoint_in_edge_inputs")
        for rooted in (True, False):
            for op, target, args in big_menu(bf):
                case = {"big": [kind, n], "lenpat": pat, "rooted": rooted, "dyadic": True,
                        "op": op, "target": target, "args": dict(args)}
                ctx.case(("big", kind, n, pat, rooted, op, target, tuple(sorted(args.items()))))
                ctx.count("big_calls")
                ctx.count("big_calls_%s" % op)
                run_case(case, ctx, bf, True)
    ctx.maximum("leaves", n)
    ctx.sample({"large_representative": kind, "leaves": n, "nodes": k, "length_patterns": list(BIG_LENS),
                "midpoint_on_node_with_unit_lengths": Before(ref.mk(shape, lens=big_lens("unit", k), labels=labels)).midpoint_on_node(make_eq(True))}, 1)
    return None


# ---------------------------------------------------------------------------
# scripted generator (every answer is enumerated by the caller)

class ScriptedRNG(random.Random):
    """sample(pop, 1) -> [pop[pick]];  shuffle(x) -> x permuted by the perm-th permutation
    (lexicographic index modulo len(x)!)."""

    def __init__(self, pick, perm):
        random.Random.__init__(self, 0)
        self.pick = pick
        self.perm = perm

    def sample(self, population, k, **kw):
        assert k == 1
        return [list(population)[self.pick]]

    def shuffle(self, x, *a):
        m = len(x)
        if m < 2:
            return
        idx = list(range(m))
        f = 1
        for i in range(2, m + 1):
            f *= i
        r = self.perm % f
        order = []
        for i in range(m, 0, -1):
            f //= i
            q, r = divmod(r, f)
            order.append(idx.pop(q))
        x[:] = [x[i] for i in order]


# ---------------------------------------------------------------------------
# reference helpers on the "before" snapshot

class Before(object):
    """Reference facts of the tree before the call."""

    def __init__(self, sn):
        self.sn = sn
        self.nodes = list(ref.preorder(sn))           # snapshot nodes in pre-order
        self.parent = {}                              # index -> parent index
        self.children = {}
        self._index(sn)
        self.k = len(self.nodes)
        self.leaves = sorted(x if x is not None else "" for x in ref.leaves(sn))
        self.splits = ref.unrooted_splits(sn)
        self.paths = ref.path_table(sn)
        self.total = ref.total_length(sn)
        self.clades = [ref.clade(nd) for nd in self.nodes]
        self.nleaves = len(self.leaves)
        self._ndist = None
        self._mon = None

    def _index(self, sn):
        counter = [0]

        def rec(nd, par):
            i = counter[0]
            counter[0] += 1
            self.parent[i] = par
            self.children[i] = []
            if par is not None:
                self.children[par].append(i)
            for c in nd[3]:
                rec(c, i)
        rec(sn, None)

    def is_internal(self, i):
        return bool(self.nodes[i][3])

    def node_leaf_dist(self):
        """dist[i][leaf label] for every node index i (None lengths = 0)."""
        if self._ndist is not None:
            return self._ndist
        adj = {i: [] for i in range(self.k)}
        for i in range(self.k):
            p = self.parent[i]
            if p is not None:
                w = self.nodes[i][2] or 0
                adj[i].append((p, w))
                adj[p].append((i, w))
        out = []
        for i in range(self.k):
            d = {}
            stack = [(i, None, 0)]
            while stack:
                v, frm, dv = stack.pop()
                nd = self.nodes[v]
                if not nd[3] and nd[0] is not None:
                    d[nd[0]] = dv
                for (w, L) in adj[v]:
                    if w != frm:
                        stack.append((w, v, dv + L))
            out.append(d)
        self._ndist = out
        return out

    def max_pairs(self, eq):
        if not self.paths:
            return 0, []
        D = max(d for d, _ in self.paths.values())
        return D, [tuple(sorted(p)) for p, (d, _) in self.paths.items() if eq(d, D)]

    def midpoint_on_node(self, eq):
        if self._mon is None:
            self._mon = self._midpoint_on_node(eq)
        return self._mon

    def _midpoint_on_node(self, eq):
        D, pairs = self.max_pairs(eq)
        nd = self.node_leaf_dist()
        for i in range(self.k):
            for (x, y) in pairs:
                if eq(nd[i][x], D / 2.0) and eq(nd[i][y], D / 2.0):
                    return True
        return False


def live_nodes(tree):
    out = []
    stack = [tree._seed_node]
    while stack:
        nd = stack.pop()
        out.append(nd)
        stack.extend(reversed(nd._child_nodes))
    return out


def make_eq(dyadic):
    if dyadic:
        return lambda a, b: a == b
    return lambda a, b: ref.feq(a, b)


# ---------------------------------------------------------------------------
# operation menus

BOOL = (False, True)


def edge_pairs(L):
    if L is None:
        return [(None, None)]
    return [(0, L), (L / 2.0, L / 2.0), (L, 0), (L / 4.0, 3 * L / 4.0)]


def op_menu(bf, lens_defined, menu, b, with_info):
    """Every (op, target, args) of the documented domain for the tree `bf`.
    Yields (op, target index or None, args dict, deciding?).
    menu 'full': everything; 'reroot': the five re-seeding / re-rooting operations with all flags;
    'lengthy' / 'reroot-noub': the same with update_bipartitions=False only; 'midpoint*': reroot_at_midpoint only."""
    k = bf.k
    n = bf.nleaves
    internal = [i for i in range(k) if bf.is_internal(i)]
    leaves = [i for i in range(k) if not bf.is_internal(i)]
    full = menu == "full"
    UB = BOOL if menu in ("full", "reroot") else (False,)
    # (partly-None trees: reroot_at_midpoint is tried; a TypeError from comparing a missing length is outside
    # the operation's domain and only counted, see run_case)
    if n >= 2 and (lens_defined or menu.startswith("reroot")):
        if menu == "midpoint-default":
            yield ("reroot_at_midpoint", None, {"ub": False, "su": True, "cb": True}, True)
        else:
            for ub in (BOOL if menu in ("full", "midpoint", "reroot") else (False,)):
                for su in BOOL:
                    for cb in BOOL:
                        yield ("reroot_at_midpoint", None, {"ub": ub, "su": su, "cb": cb}, True)
    if menu.startswith("midpoint"):
        return
    if n >= 2:
        for i in internal:
            for ub in UB:
                for cb in BOOL:
                    for su in BOOL:
                        yield ("reseed_at", i, {"ub": ub, "cb": cb, "su": su}, True)
            for ub in UB:
                for su in BOOL:
                    for cb in (BOOL if ub else (True,)):
                        yield ("reroot_at_node", i, {"ub": ub, "su": su, "cb": cb}, True)
            if i != 0:
                for (l1, l2) in edge_pairs(bf.nodes[i][2]):
                    for ub in UB:
                        for su in BOOL:
                            yield ("reroot_at_edge", i, {"l1": l1, "l2": l2, "ub": ub, "su": su}, True)
        for i in range(1, k):
            for ub in UB:
                for su in BOOL:
                    yield ("to_outgroup_position", i, {"ub": ub, "su": su}, True)
        if full:
            for s in b["rng_seeds"]:
                for ub in BOOL:
                    yield ("randomly_reorient", None, {"seed": s, "ub": ub}, True)
            for pick in range(k):
                for (perm, ub) in b["reorient_scripted_shuffle_index_and_update_flag"]:
                    yield ("randomly_reorient", None, {"pick": pick, "perm": perm, "ub": ub}, True)
        if with_info and full:
            for i in leaves:
                yield ("reseed_at", i, {"ub": False, "cb": True, "su": True}, False)
                yield ("reroot_at_node", i, {"ub": False, "su": True, "cb": True}, False)
                if i != 0:
                    for (l1, l2) in edge_pairs(bf.nodes[i][2])[:2]:
                        yield ("reroot_at_edge", i, {"l1": l1, "l2": l2, "ub": False, "su": True}, False)
    if not full:
        return
    for s in b["rng_seeds"]:
        yield ("randomly_rotate", None, {"seed": s}, True)
    for perm in b["shuffle_indices"]:
        yield ("randomly_rotate", None, {"perm": perm}, True)
    for asc in BOOL:
        yield ("ladderize", None, {"asc": asc}, True)
        yield ("reorder", None, {"asc": asc}, True)


def apply_op(tree, nodes, op, target, a):
    if op == "reseed_at":
        return tree.reseed_at(nodes[target], update_bipartitions=a["ub"],
                              collapse_unrooted_basal_bifurcation=a["cb"], suppress_unifurcations=a["su"])
    if op == "reroot_at_node":
        return tree.reroot_at_node(nodes[target], update_bipartitions=a["ub"], suppress_unifurcations=a["su"],
                                   collapse_unrooted_basal_bifurcation=a["cb"])
    if op == "reroot_at_edge":
        return tree.reroot_at_edge(nodes[target]._edge, length1=a["l1"], length2=a["l2"],
                                   update_bipartitions=a["ub"], suppress_unifurcations=a["su"])
    if op == "reroot_at_midpoint":
        return tree.reroot_at_midpoint(update_bipartitions=a["ub"], suppress_unifurcations=a["su"],
                                       collapse_unrooted_basal_bifurcation=a["cb"])
    if op == "to_outgroup_position":
        return tree.to_outgroup_position(nodes[target], update_bipartitions=a["ub"], suppress_unifurcations=a["su"])
    if op == "randomly_reorient":
        rng = random.Random(a["seed"]) if "seed" in a else ScriptedRNG(a["pick"], a["perm"])
        return tree.randomly_reorient(rng=rng, update_bipartitions=a["ub"])
    if op == "randomly_rotate":
        rng = random.Random(a["seed"]) if "seed" in a else ScriptedRNG(0, a["perm"])
        return tree.randomly_rotate(rng=rng)
    if op == "ladderize":
        return tree.ladderize(ascending=a["asc"])
    if op == "reorder":
        return tree.reorder(ascending=a["asc"])
    # read-only queries (they may leave memos on the tree or its nodes); used by the sequence layer
    if op == "q_distance_from_root":
        return [nd.distance_from_root() for nd in nodes]
    if op == "q_distance_from_tip":
        return [nd.distance_from_tip() for nd in nodes]
    if op == "q_calc_node_ages":
        if a.get("check"):
            return tree.calc_node_ages()
        return tree.calc_node_ages(ultrametricity_precision=False)
    if op == "q_calc_node_root_distances":
        return tree.calc_node_root_distances(return_leaf_distances_only=not a.get("all"))
    if op == "q_max_distance_from_root":
        return tree.max_distance_from_root()
    if op == "q_minmax_leaf_distance_from_root":
        return tree.minmax_leaf_distance_from_root()
    if op == "q_num_lineages_at":
        return tree.num_lineages_at(a["d"])
    if op == "q_encode_bipartitions":
        return tree.encode_bipartitions()
    if op == "q_phylogenetic_distance_matrix":
        return tree.phylogenetic_distance_matrix()
    if op == "q_mrca":
        with warnings.catch_warnings():
            warnings.simplefilter("ignore")
            return tree.mrca(taxon_labels=list(a["labels"]), is_bipartitions_updated=False)
    raise ValueError(op)


REROOTERS = ("reseed_at", "reroot_at_node", "reroot_at_edge", "to_outgroup_position", "randomly_reorient")
QUERIES = ("q_distance_from_root", "q_distance_from_tip", "q_calc_node_ages", "q_calc_node_root_distances",
           "q_encode_bipartitions", "q_phylogenetic_distance_matrix", "q_mrca")
# further root-distance queries, offered in the triples only (they all leave `root_distance` on the nodes)
MORE_QUERIES = ("q_calc_node_root_distances", "q_max_distance_from_root", "q_minmax_leaf_distance_from_root", "q_num_lineages_at")
# queries whose answer the reference model fixes (query_value_problem)
VALUED = ("q_distance_from_root", "q_calc_node_root_distances", "q_max_distance_from_root", "q_minmax_leaf_distance_from_root",
          "q_num_lineages_at", "q_encode_bipartitions", "q_phylogenetic_distance_matrix", "q_mrca")
LINEAGE_DISTANCE = 1.3     # never the root distance of a node here (lengths are integers, halves, quarters, eighths)


def all_root_distances(node):
    """[(root distance of parent, root distance)] of every non-root node of a snapshot"""
    out = []

    def rec(nd, d):
        for c in nd[3]:
            dc = d + (c[2] or 0)
            out.append((d, dc))
            rec(c, dc)
    rec(node, 0.0)
    return out


def query_value_problem(op, a, val, tree, nodes, after, inv, eq, labels):
    """What a query answered, against the reference model of the tree as it is now (`after` = snapshot after the
    call).  Only answers the statement's observers fix are compared: path lengths, root distances of leaves, the
    split set, the common ancestor; distance_from_tip / node ages are exercised but their values are C17's subject."""
    if op == "q_phylogenetic_distance_matrix":
        ns = tree.taxon_namespace
        tx = {t._label: t for t in ns._taxa}
        for p, (d, _) in inv.paths.items():
            x, y = sorted(p)
            got = val.patristic_distance(tx[x], tx[y])
            if not eq(got, d):
                return "phylogenetic_distance_matrix gives %r for %s-%s, the tree has %r" % (got, x, y, d)
    elif op in ("q_distance_from_root", "q_calc_node_root_distances"):
        rd = ref.root_distances(after)
        if op == "q_distance_from_root":
            live = live_nodes(tree)
            if len(live) != len(nodes):
                return None
            got = sorted((nd.taxon._label, float(v)) for nd, v in zip(nodes, val) if not nd._child_nodes and nd.taxon is not None)
            want = sorted((k, float(v)) for k, v in rd.items() if k is not None)
            if len(got) != len(want) or any(g[0] != w[0] or not eq(g[1], w[1]) for g, w in zip(got, want)):
                return "distance_from_root of the leaves %s, the tree has %s" % (got, want)
        else:
            got = sorted(float(v) for v in val)
            if a.get("all"):
                want = sorted([0.0] + [float(d) for _, d in all_root_distances(after)])
            else:
                want = sorted(float(v) for k, v in rd.items())
            if len(got) != len(want) or any(not eq(g, w) for g, w in zip(got, want)):
                return "calc_node_root_distances returned %s, the tree has %s" % (got, want)
    elif op in ("q_max_distance_from_root", "q_minmax_leaf_distance_from_root"):
        rd = [float(v) for v in ref.root_distances(after).values()]
        if op == "q_max_distance_from_root":
            if not eq(float(val), max(rd)):
                return "max_distance_from_root() = %r, the deepest leaf is at %r" % (val, max(rd))
        elif not (eq(float(val[0]), min(rd)) and eq(float(val[1]), max(rd))):
            return "minmax_leaf_distance_from_root() = %r, the leaves lie between %r and %r" % (val, min(rd), max(rd))
    elif op == "q_num_lineages_at":
        d = a["d"]
        ard = all_root_distances(after)
        want = sum(1 for (pd, nd_) in ard if pd < d < nd_)
        # (a node exactly at distance d would make the count a matter of convention: not compared then)
        if val != want and not any(eq(nd_, d) for _, nd_ in ard):
            return "num_lineages_at(%r) = %r, %d edges of the tree span that distance" % (d, val, want)
    elif op == "q_encode_bipartitions":
        es = encoding_splits(tree, labels)
        if es != inv.splits:
            return "encode_bipartitions describes splits %s, the tree has %s" % (
                None if es is None else sorted(sorted(sorted(x) for x in sp) for sp in es),
                sorted(sorted(sorted(x) for x in sp) for sp in inv.splits))
    elif op == "q_mrca":
        want = None
        need = frozenset(a["labels"])
        for cl, _ in ref.clade_list(after):
            if need <= cl and (want is None or len(cl) < len(want)):
                want = cl
        got = None
        if val is not None:
            got = frozenset(nd.taxon._label for nd in live_nodes_from(val) if not nd._child_nodes and nd.taxon is not None)
        if got != want:
            return "mrca(%s) subtends %s, the smallest clade containing them is %s" % (
                sorted(need), None if got is None else sorted(got), None if want is None else sorted(want))
    elif op == "q_calc_node_ages" and a.get("check"):
        rd = ref.root_distances(after)
        h = max(rd.values()) if rd else 0
        got = getattr(tree._seed_node, "age", None)
        if got is None or not eq(float(got), float(h)):
            return "calc_node_ages on an ultrametric tree gives the root age %r, its leaves are at %r" % (got, h)
    return None


def stale_edge_bitmask(tree, labels):
    """After a call that was asked to keep the bipartitions current, every edge's leafset bitmask must name exactly
    the leaves below it in the tree as it is now (bit i = labels[i]).  Returns a description of the first edge
    for which that is not so."""
    bit = {l: 1 << i for i, l in enumerate(labels)}
    res = [None]

    def rec(nd):
        if not nd._child_nodes:
            m = bit.get(nd.taxon._label, 0) if nd.taxon is not None else 0
        else:
            m = 0
            for c in nd._child_nodes:
                m |= rec(c)
        bp = nd._edge._bipartition if nd._edge is not None else None
        got = None if bp is None else bp._leafset_bitmask
        if got != m and res[0] is None:
            res[0] = "an edge above leaves %s carries leafset bitmask %s" % (
                sorted(l for l in labels if bit[l] & m), None if got is None else bin(got))
        return m
    rec(tree._seed_node)
    return res[0]


def live_nodes_from(node):
    out = []
    stack = [node]
    while stack:
        nd = stack.pop()
        out.append(nd)
        stack.extend(reversed(nd._child_nodes))
    return out


def pat_ultrametric(shape):
    """positive integer lengths making every leaf equidistant from the root (pre-order list, root None)"""
    def height(x):
        return 0 if isinstance(x, int) else 1 + max(height(c) for c in x)
    out = []

    def rec(x, parent_h):
        h = height(x)
        out.append(None if parent_h is None else parent_h - h)
        if not isinstance(x, int):
            for c in x:
                rec(c, h)
    rec(shape, None)
    return out


def seq_menu(bf, eq, more=False):
    """Reduced operation menu on the tree state `bf` (targets = pre-order indices of that state).
    more=True adds the further root-distance queries (triples)."""
    k = bf.k
    internal = [i for i in range(k) if bf.is_internal(i)]
    for i in internal:
        yield ("reseed_at", i, {"ub": False, "cb": True, "su": True})
        yield ("reroot_at_node", i, {"ub": False, "su": True, "cb": True})
        if i != 0 and bf.nodes[i][2] is not None:
            L = bf.nodes[i][2]
            yield ("reroot_at_edge", i, {"l1": L / 4.0, "l2": 3 * L / 4.0, "ub": False, "su": True})
    yield ("reroot_at_midpoint", None, {"ub": False, "su": True, "cb": True})
    yield ("reroot_at_midpoint", None, {"ub": True, "su": True, "cb": True})
    for i in range(1, k):
        yield ("to_outgroup_position", i, {"ub": False, "su": True})
    if len(internal) > 1:
        yield ("reseed_at", internal[-1], {"ub": True, "cb": True, "su": True})
    yield ("to_outgroup_position", 1, {"ub": True, "su": True})
    yield ("randomly_reorient", None, {"seed": 0, "ub": False})
    yield ("randomly_rotate", None, {"seed": 0})
    yield ("ladderize", None, {"asc": True})
    yield ("reorder", None, {"asc": True})
    rd = ref.root_distances(bf.sn)
    ultra = len(set(rd.values())) == 1 if all(isinstance(v, (int, float)) for v in rd.values()) else False
    lab = sorted(x for x in bf.leaves if x)
    for q in QUERIES:
        if q == "q_calc_node_ages":
            yield (q, None, {"check": bool(ultra)})
        elif q == "q_mrca":
            yield (q, None, {"labels": [lab[0], lab[-1]]})
        else:
            yield (q, None, {})
    if more:
        yield ("q_calc_node_root_distances", None, {"all": True})
        yield ("q_max_distance_from_root", None, {})
        yield ("q_minmax_leaf_distance_from_root", None, {})
        yield ("q_num_lineages_at", None, {"d": LINEAGE_DISTANCE})


def representative_rerooters(bf):
    """One call of each re-rooting kind (two outgroups), used as the middle step of [q; y; q']."""
    k = bf.k
    internal = [i for i in range(k) if bf.is_internal(i)]
    out = set([("to_outgroup_position", 1), ("to_outgroup_position", k - 1), ("randomly_reorient", None)])
    if internal:
        i = internal[-1]
        out |= set([("reseed_at", i), ("reroot_at_node", i), ("reroot_at_edge", i)])
    return out


def run_sequence(case, ctx, deciding=True, judge_from=0):
    """All steps of case["seq"] on ONE tree object, judged after each step.  Returns (outcome, snapshot
    node of the final state or None, is_rooted of the final state)."""
    shape, lens, labels, short = expand(case)
    eq = make_eq(case.get("dyadic", False))
    sn = ref.mk(shape, lens=list(lens), labels=labels)
    inv = Before(sn)
    ns, bit = build.make_namespace(labels, "exact")
    tree = build.build_tree((case["rooted"], sn), ns)
    len0 = tree.length()
    bf = inv
    names = []
    for step, (op, target, a) in enumerate(case["seq"]):
        a = dict(a)
        names.append(op)
        nodes = live_nodes(tree)
        rooted = tree._is_rooted
        status, val = budget.run_limited(lambda: apply_op(tree, nodes, op, target, a), 20.0)
        if status == "timeout":
            status, val = "hang", "wall-clock backstop (20 s)"
        chain = "->".join(names)

        def report(sig, msg):
            sig = "sequence|%s|%s" % (chain, sig.split("|", 1)[1] if "|" in sig else sig)
            if deciding:
                ctx.violation(sig, msg if len(msg) <= 1500 else msg[:1500] + " ...", case)
            return sig
        pre = "step %d of %s on %s%s: %s target=%r args=%r: " % (
            step + 1, [x[0] for x in case["seq"]], {True: "[&R]", False: "[&U]", None: ""}[case["rooted"]], fmt(sn), op, target, a)
        if step >= judge_from:
            out = judge(ctx, report, pre, op, target, a, status, val, tree, nodes, bf, inv, rooted, eq, fmt, len0, labels, False)
            if out != "ok":
                return out, None, None
        elif status != "ok":
            return "prefix-failed", None, None
        try:
            after_rooted, after = ref.snapshot(tree)
        except RuntimeError:
            return "malformed", None, None
        if step + 1 < len(case["seq"]) and step + 1 >= judge_from:
            bf = Before(after)
    return "ok", after, tree._is_rooted


def seq_trees(n, si, tier):
    shape = U.shapes(n)[si]
    k = n_nodes(shape)
    yield ("inc", pat_inc(k), True)
    yield ("inc", pat_inc(k), False)
    yield ("ultrametric", pat_ultrametric(shape), True)
    if tier != "quick":
        yield ("ultrametric", pat_ultrametric(shape), False)
    yield ("unit", pat_unit(k), None)


def run_seq_chunk(chunk, ctx):
    n, si, tier = chunk["n"], chunk["si"], chunk["tier"]
    shape = U.shapes(n)[si]
    triples = chunk.get("triples")          # None | "all" | "query-op-query" | "memo"
    eq = make_eq(True)
    for pname, lens, rooted in seq_trees(n, si, tier):
        if triples == "memo" and tier == "quick" and rooted is None:
            continue
        valued_third = pname == "inc"           # the [q; y; q'] family runs on the distinct-integer trees
        base = {"shape": shape, "lens": list(lens), "rooted": rooted, "dyadic": True}
        inv = Before(ref.mk(shape, lens=list(lens)))
        ctx.count("sequence_trees")

        def extend(prefix, bf, depth, maxdepth, yrep=False):
            reps = representative_rerooters(bf) if (triples == "memo" and depth == 1) else ()
            for (op, target, a) in seq_menu(bf, eq, more=(triples == "memo")):
                # C = operations that compute (and might remember) something: the queries and the midpoint search
                inC = op.startswith("q_") or op == "reroot_at_midpoint"
                if triples == "query-op-query" and (inC != (depth != 1)):
                    continue
                isrep = False
                if triples == "memo":
                    # what x computed (and perhaps remembered) meets a tree that has moved on:
                    #   [x; y; reroot_at_midpoint]  x every query or the midpoint search, y EVERY re-rooting call
                    #   [x; y; x again]             the same
                    #   [x; y; q']                  q' every query with a reference answer, y one call of each
                    #                               re-rooting kind (representative_rerooters)
                    if depth == 0 and not inC:
                        continue
                    if depth == 1:
                        if op not in REROOTERS:
                            continue
                        isrep = (op, target) in reps and not a.get("ub")
                    if depth == 2:
                        again = op == prefix[0][0] and a == prefix[0][2]
                        mid = op == "reroot_at_midpoint" and not a.get("ub")
                        valued = op in VALUED and valued_third and (yrep or op == "q_mrca")
                        if not (again or mid or valued):
                            continue
                seq = prefix + [[op, target, a]]
                case = dict(base, seq=seq)
                if triples in ("query-op-query", "memo") and len(seq) < 3:       # prefixes are judged by the pairs chunk
                    out, after, _ = run_sequence(case, ctx, False, judge_from=len(seq))
                    if out == "ok":
                        extend(seq, Before(after), depth + 1, maxdepth, isrep)
                    continue
                ctx.case((shape, tuple(lens), rooted, tuple((o, t, tuple(sorted((k2, tuple(v) if isinstance(v, list) else v)
                                                                              for k2, v in x.items()))) for o, t, x in seq)),
                         nontrivial=inv.nleaves >= 3)
                ctx.count("sequence_steps_judged")
                ctx.count("sequences_of_length_%d" % len(seq))
                if len(seq) > 1 and seq[-1][0] == seq[-2][0]:
                    ctx.count("sequences_ending_in_the_same_operation_twice")
                out, after, _ = run_sequence(case, ctx, True, judge_from=len(seq) - 1)
                if out == "ok" and depth + 1 < maxdepth:
                    extend(seq, Before(after), depth + 1, maxdepth)
                if len(seq) == 2 and pname == "inc" and rooted is False and n == 4 and si == 3 and op == "reroot_at_midpoint" and seq[0][0] in ("reroot_at_midpoint", "q_phylogenetic_distance_matrix"):
                    ctx.sample({"tree": fmt(inv.sn), "rooted": rooted, "sequence": seq, "verdict": out}, 2)
        extend([], inv, 0, 3 if triples else 2)
    return None


# ---------------------------------------------------------------------------
# one case

def case_dict(shape, lens, rooted, dyadic, op, target, args):
    return {"shape": shape, "lens": list(lens), "rooted": rooted, "dyadic": dyadic,
            "op": op, "target": target, "args": dict(args)}


def fmt(x):
    return ref.to_newick(x, True)


def encoding_splits(tree, labels):
    """unrooted split set read from the library's bipartition encoding (bit i = labels[i])"""
    enc = tree.bipartition_encoding
    if enc is None:
        return None
    allc = frozenset(labels)
    out = set()
    for bp in enc:
        m = bp._leafset_bitmask
        side = frozenset(l for i, l in enumerate(labels) if m & (1 << i))
        other = allc - side
        if side and other:
            out.add(frozenset([side, other]))
    return out


def judge(ctx, report, pre, op, target, a, status, val, tree, nodes, bf, inv, rooted, eq, show, len0, labels, partly):
    """Evaluate every oracle for ONE executed call.  `bf`: reference facts of the state just before the call
    (placement claims, rooting flag `rooted`); `inv`: reference facts of the ORIGINAL tree (the four invariants,
    which are preserved under composition).  Returns an outcome tag ("ok" or the signature reported)."""
    if status == "hang":
        return report("%s|hang" % op, pre + "step budget exceeded at %s" % (val,))
    if status == "exc" and partly and op == "reroot_at_midpoint" and isinstance(val, TypeError):
        # the midpoint search met an edge without a length: midpoint rooting needs lengths on the path
        # it walks (documented domain), so this outcome is counted and never decides
        ctx.maximum("info_midpoint_TypeError_on_missing_length_seen", 1)   # (how often depends on the library's id-hash tie-break: flag, not count)
        return "out-of-domain"
    if status == "exc":
        return report("%s|exception|%s" % (op, type(val).__name__), pre + "raised %r" % (val,))
    probs = ref.wellformed(tree)
    if probs:
        return report("%s|malformed-tree" % op, pre + "; ".join(sorted(set(probs))))
    try:
        after_rooted, after = ref.snapshot(tree)
    except RuntimeError as e:
        return report("%s|malformed-tree" % op, pre + str(e))
    outcome = "ok"
    # -- the four invariants (first failing facet is reported) ---------------------
    feature = ""
    if op == "reroot_at_midpoint":
        feature = "|midpoint-on-node" if bf.midpoint_on_node(eq) else "|midpoint-in-edge"
    inv_ok = True
    leaves_after = sorted(x if x is not None else "" for x in ref.leaves(after))
    if leaves_after != inv.leaves:
        inv_ok = False
        outcome = report("%s%s|leaf-set-changed" % (op, feature), pre + ("leaves %s -> %s; result %s" % (inv.leaves, leaves_after, show(after)) if len(inv.leaves) <= 12 else
                                "leaf set changed: lost %s, gained %s" % (sorted(set(inv.leaves) - set(leaves_after)),
                                                                          sorted(set(leaves_after) - set(inv.leaves)))))
    elif ref.unrooted_splits(after) != inv.splits:
        inv_ok = False
        outcome = report("%s%s|unrooted-splits-changed" % (op, feature), pre + "result %s" % show(after))
    else:
        pa = ref.path_table(after)
        bad = [(sorted(p), inv.paths[p][0], pa[p][0]) for p in inv.paths if not eq(inv.paths[p][0], pa[p][0])]
        if bad:
            inv_ok = False
            outcome = report("%s%s|path-length-changed" % (op, feature),
                             pre + "path %s: %r -> %r; result %s" % (bad[0][0], bad[0][1], bad[0][2], show(after)))
        else:
            ta = ref.total_length(after)
            if not eq(ta, inv.total):
                inv_ok = False
                outcome = report("%s%s|total-length-changed" % (op, feature), pre + "total %r -> %r; result %s" % (inv.total, ta, show(after)))
            else:
                # the same facts through the public observers named by the property
                try:
                    l1 = tree.length()
                except Exception as e:  # pragma: no cover
                    l1 = e
                if not (isinstance(l1, (int, float)) and eq(l1, len0)):
                    inv_ok = False
                    outcome = report("%s%s|Tree.length-changed" % (op, feature), pre + "Tree.length() %r -> %r" % (len0, l1))
    # -- rooting flag --------------------------------------------------------------------
    if op in SOFT:
        if after_rooted is not rooted:
            kind = "undefined-becomes-unrooted" if (rooted is None and after_rooted is False) else "changed"
            outcome = report("%s|rooting-flag|%s" % (op, kind), pre + "soft operation changed is_rooted %r -> %r" % (rooted, after_rooted))
    elif op in HARD:
        if after_rooted is not True:
            outcome = report("%s|rooting-flag|not-set-to-rooted" % op, pre + "hard operation left is_rooted = %r" % (after_rooted,))
    elif after_rooted is not rooted:
        ctx.count("info_flag_changed_by_op_without_documented_softness")
    if not inv_ok:
        return outcome
    # -- placement claims ------------------------------------------------------------------
    if op == "reroot_at_midpoint":
        D, pairs = bf.max_pairs(eq)
        rd = ref.root_distances(after)
        if not any(eq(rd[x], D / 2.0) and eq(rd[y], D / 2.0) for (x, y) in pairs) and partly:
            # where the midpoint lies is not defined by the statement when lengths are missing (the library's
            # own Node.distance_from_root then answers with the parent's edge length): counted only
            ctx.maximum("info_midpoint_placement_differs_on_partly_None_lengths_seen", 1)   # (how often depends on the library's id-hash tie-break: flag, not count)
        elif not any(eq(rd[x], D / 2.0) and eq(rd[y], D / 2.0) for (x, y) in pairs):
            outcome = report("reroot_at_midpoint%s|root-not-at-midpoint" % feature,
                             pre + "no most-distant pair (D=%r, pairs %s) is equidistant from the new root: root distances %s; result %s" % (
                                 D, pairs, sorted(rd.items()), show(after)))
    elif op == "reroot_at_edge":
        head = bf.clades[target]
        kids = [ref.clade(c) for c in after[3]]
        if head not in kids:
            outcome = report("reroot_at_edge|root-not-on-edge", pre + "no child of the new root carries the clade %s below the edge; result %s" % (sorted(head), show(after)))
        else:
            nd = bf.node_leaf_dist()
            rd = ref.root_distances(after)
            l1, l2 = a["l1"] or 0, a["l2"] or 0
            tail = bf.parent[target]
            bad = None
            for x in inv.leaves:
                want = (l2 + nd[target][x]) if x in head else (l1 + nd[tail][x])
                if not eq(rd.get(x), want):
                    bad = (x, want, rd.get(x))
                    break
            if bad:
                outcome = report("reroot_at_edge|root-not-at-requested-distances",
                                 pre + "leaf %s should be at %r from the new root, is at %r; result %s" % (bad + (show(after),)))
    elif op == "to_outgroup_position":
        first = tree._seed_node._child_nodes[0] if tree._seed_node._child_nodes else None
        # an outgroup that is itself an out-degree-one node is removed by the documented
        # suppress_unifurcations=True: then only its clade can be demanded as first child
        same_node = first is nodes[target] or (a.get("su", True) and len(bf.nodes[target][3]) == 1)
        if not same_node or ref.clade(after[3][0]) != bf.clades[target]:
            outcome = report("to_outgroup_position|outgroup-not-first-child", pre + "result %s" % show(after))
    if op in ("reseed_at", "reroot_at_node") and tree._seed_node is not nodes[target]:
        ctx.count("info_seed_is_not_the_requested_node")
    # -- the split set as published by the library when asked to keep it current ---------
    if a.get("ub"):
        es = encoding_splits(tree, labels)
        if es != inv.splits:
            outcome = report("%s|update_bipartitions|encoding-splits-differ" % op,
                             pre + "bipartition_encoding after the call describes splits %s, tree has %s" % (
                                 None if es is None else sorted(sorted(sorted(s) for s in sp) for sp in es),
                                 sorted(sorted(sorted(s) for s in sp) for sp in inv.splits)))
    if a.get("ub") or op == "q_encode_bipartitions":
        bad = stale_edge_bitmask(tree, labels)
        if bad:
            outcome = report("%s|update_bipartitions|edge-bitmask-not-current" % op, pre + bad + "; tree now " + show(after))
    if op.startswith("q_"):
        bad = query_value_problem(op, a, val, tree, nodes, after, inv, eq, labels)
        if bad:
            outcome = report("%s|query-value-differs" % op, pre + bad)
    return outcome


def run_case(case, ctx, bf=None, deciding=True):
    """Build the tree, apply the operation, evaluate every oracle.  Returns a short
    outcome tag (used by the informational extension)."""
    shape, lens, labels, short = expand(case)
    rooted = case["rooted"]
    op, target, a = case["op"], case["target"], case["args"]
    eq = make_eq(case.get("dyadic", False))
    if bf is None:
        bf = Before(ref.mk(shape, lens=list(lens), labels=labels))
    sn = bf.sn
    holder = {}

    def call():
        ns, bit = build.make_namespace(labels, "exact")
        tree = build.build_tree((rooted, sn), ns)
        nodes = live_nodes(tree)
        holder["tree"], holder["nodes"] = tree, nodes
        holder["len0"] = tree.length()
        return apply_op(tree, nodes, op, target, a)

    status, val = budget.guarded(call, wall=20.0, budget=2000000)
    tree = holder.get("tree")
    nodes = holder.get("nodes")

    unif = "|input-has-unifurcation" if any(len(nd[3]) == 1 for nd in bf.nodes) else ""
    partly = any(x is None for x in lens[1:]) and any(x is not None for x in lens[1:])

    def report(sig, msg):
        # signature = operation | [input class] | symptom [| partly-None-lengths]
        parts = sig.split("|", 1)
        if op != "reroot_at_midpoint":      # (midpoint signatures carry the midpoint class instead)
            sig = parts[0] + unif + ("|" + parts[1] if len(parts) > 1 else "")
        if partly:
            sig += "|partly-None-lengths"
        if deciding:
            ctx.violation(sig, msg if len(msg) <= 1500 else msg[:1500] + " ...", case)
        return sig

    if short is not None:
        def show(x):        # keep messages about large trees readable
            return "<tree with %d nodes>" % ref.count_nodes(x)
    else:
        show = fmt
    pre = "%s on %s%s target=%r args=%r: " % (op, {True: "[&R]", False: "[&U]", None: ""}[rooted], short or show(sn), target, a)
    return judge(ctx, report, pre, op, target, a, status, val, tree, nodes, bf, bf, rooted, eq, show,
                 holder.get("len0"), labels, partly)


# ---------------------------------------------------------------------------

def run_chunk(chunk, ctx):
    if chunk.get("kind") == "big":
        return run_big(chunk, ctx)
    if chunk.get("kind") == "seq":
        return run_seq_chunk(chunk, ctx)
    n, tier = chunk["n"], chunk["tier"]
    b = bounds(tier)
    with_info = b["informational_leaf_targets"]
    part, parts = chunk.get("part", 0), chunk.get("parts", 1)
    item = -1
    sampled = set()
    for si in range(chunk["lo"], chunk["hi"]):
        for layer, shape in drawings(n, si, tier):
            if part == 0:
                ctx.count("drawings")
                ctx.count("drawings_%s" % layer)
            seed_unif = len(shape) == 1 if not isinstance(shape, int) else False
            for pname, lens, dyadic, menu in length_patterns(layer, shape, n, tier):
                item += 1
                if item % parts != part:
                    continue
                sn = ref.mk(shape, lens=list(lens))
                bf = Before(sn)
                lens_defined = all(x is not None for x in lens[1:])
                ctx.count("length_assignments")
                for rooted in rootings_for(layer, pname, n, tier, shape):
                    if menu != "full" and rooted is None:
                        continue
                    ctx.count("trees")
                    for op, target, args, deciding in op_menu(bf, lens_defined, menu, b, with_info):
                        case = case_dict(shape, lens, rooted, dyadic, op, target, args)
                        if seed_unif:
                            # a seed with one child is a degree-one vertex of the unrooted tree: "leaf set" is
                            # ambiguous there, so these inputs are explored but never decide
                            ctx.count("info_seed_unifurcation_calls")
                            if run_case(case, ctx, bf, deciding=False) != "ok":
                                ctx.count("info_seed_unifurcation_calls_not_preserving")
                            continue
                        if not deciding:
                            ctx.count("info_leaf_target_calls")
                            if run_case(case, ctx, bf, deciding=False) != "ok":
                                ctx.count("info_leaf_target_calls_not_preserving")
                            continue
                        key = (shape, tuple(lens), rooted, op, target, tuple(sorted(args.items())))
                        ctx.case(key, nontrivial=bf.nleaves >= 3)
                        ctx.count("calls_%s" % op)
                        if pname.startswith("pn"):
                            ctx.count("calls_on_partly_None_lengths")
                        if op == "reroot_at_midpoint" and bf.midpoint_on_node(make_eq(dyadic)):
                            ctx.count("midpoint_calls_with_midpoint_on_existing_node")
                        res = run_case(case, ctx, bf, True)
                        if layer == "base" and pname == "inc" and rooted is False and n >= 4 and op not in sampled \
                                and target in (None, 1) and not args.get("ub") and args.get("su", True):
                            sampled.add(op)
                            ctx.sample({"tree": fmt(sn), "rooted": rooted, "op": op, "target_preorder_index": target,
                                        "args": args, "verdict": res}, 9)
        ctx.maximum("leaves", n)
    return None


def replay(case, ctx):
    case = dict(case)
    if "shape" in case:
        case["shape"] = tup(case["shape"])
    # the library's choice among tied most-distant pairs follows id()-based hashing, so a
    # tie-dependent midpoint failure may need a different memory layout to show again:
    # re-run the same descriptor a bounded number of times (existential over that choice)
    if "seq" in case:
        case["seq"] = [[o, t, dict(x)] for o, t, x in case["seq"]]
    tries = 12 if (case.get("op") == "reroot_at_midpoint" or any(x[0] == "reroot_at_midpoint" for x in case.get("seq", []))) else 1
    junk = []
    for i in range(tries):
        c2 = type(ctx)()
        if "seq" in case:
            run_sequence(case, c2, True)
        else:
            run_case(case, c2, None, True)
        if c2.viol or i == tries - 1:
            for sig, ent in c2.viol.items():
                for v in ent["first"]:
                    ctx.violation(sig, v["message"], v["case"])
            break
        junk.append([object() for _ in range(37 * (i + 1))])
        gc.collect()
