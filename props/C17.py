"""C17 - node ages, the ultrametricity check and tree statistics (DESIGN 3/C17).

Engine E1.  Layers (each enumerated completely up to the tier bound):

  ult    every ranked ultrametric tree (every shape of U(n), polytomies included, every
         weak ranking of its internal nodes, several dyadic and one decimal height map),
         every child order (n <= 4) / order variant (n >= 5), every single unifurcation
         insertion:  calc_node_ages / node_ages / internal_node_ages under every precision
         and forcing option, resolve_node_ages / resolve_node_depths /
         calc_node_root_distances, the treemeasure age/depth vectors,
         set_edge_lengths_from_node_ages, num_lineages_at(d) for every d strictly between
         consecutive node depths, length / max_distance_from_root /
         minmax_leaf_distance_from_root, treeness, Pybus-Harvey gamma.
  pert   every tip of every ranked tree moved by +-delta for every delta of a table that
         brackets every precision (p/2, p, 2p): acceptance / rejection, error class, forced
         ages, restored lengths, gamma's check.
  gen    every assignment of edge lengths from {0,1,2} (n <= 3) resp. {1,2} and {0,1}
         (n >= 4) - not ultrametric in general, several tips displaced, zero-length edges:
         forced ages, depths, lineages, tree length, treeness, and the acceptance decision
         wherever both readings of the docstring agree.
  part   edge lengths from {None, 1} (and a root edge length): Tree.length only.
  stat   B1, Colless (every normalisation), Sackin (every normalisation), N-bar on every
         shape, under every child order (n <= 4) / order variant, by the module function
         and by the deprecated Tree method; treeness and gamma on the same drawings (every
         weak ranking of the base drawing).
  hist   Pybus-Harvey gamma after the node ages were computed for other edge lengths.
  pure   every history [call f; change the edge lengths; call g] on one tree object, f and g
         over the functions of the property (18 x ~23), the change over {scale_edges(2), one
         edge doubled (each edge), every other ultrametric pattern of the shape set directly
         and through harness-set ages + set_edge_lengths_from_node_ages, two sibling lengths
         swapped (each pair)}: g must pass the same check as on a freshly built tree.
  clamp  set_edge_lengths_from_node_ages on non-monotone ages: ages from force-min / force-max
         on every {1,2} length assignment, and every hand-set age vector over {0,1,2} per node
         (leaves {0,1} above the full-alphabet bound), x minimum_edge_length in {default, 0,
         0.0, 0.5, None} x error_on_negative_edge_lengths: lengths, ValueError, root edge, ages.
  cross  [f(T1); f(T2)] in one process for every ordered pair of different trees of a menu
         (every unlabelled binary shape with 2..6/7 leaves, the polytomies up to 4/5 leaves, a
         caterpillar and a balanced tree with 16 and 32 leaves) and every f of the `pure` list:
         f(T2) must equal the definition; failures are re-run in a clean interpreter.

Reference: plain Python on snapshots (this file); Fractions decide acceptance/rejection.
"""
import itertools
import json
import math
import os
import subprocess
import sys
from fractions import Fraction
from functools import lru_cache

import dendropy
from dendropy.calculate import treemeasure
from dendropy.utility import deprecate
from dendropy.utility.error import UltrametricityError

from mc import ref, build
from mc import universe as U

ID = "C17"
LEVEL = "exploration"
EXHAUSTIVE = True
RULE = ("every shape of U(n) x every weak ranking of its internal nodes x height maps (ranked ultrametric trees) x "
        "child-order variants x single unifurcation insertions; every tip displaced by +-delta for every delta "
        "bracketing every precision; every {1,2} edge-length assignment (n <= 4/5); every shape (n <= 6/7) for the "
        "topological statistics; a case = one library call on one drawing with one argument setting (or one "
        "num_lineages_at distance); non-trivial = the tree has >= 3 leaves")
ASSUMPTIONS = [
    "reference ages / depths / lineage counts / statistics are computed from the snapshot (taxon, length, children) by the plain-Python formulas in props/C17.py; trees are built through the Node API (mc/build.py)",
    "acceptance is demanded only when the largest difference of root-to-tip path lengths is <= precision, rejection only when a child-versus-first-child comparison (the documented mechanism) exceeds it; the two readings coincide for a single displaced tip; cases where they differ are counted as undecided and nothing is demanded",
    "the boundary delta == precision is decided only where all arithmetic is exact (dyadic heights, delta and precision); otherwise a band of 1e-12 around the precision is left undecided",
    "with the check disabled (None / False / negative) on a non-ultrametric tree only non-rejection is demanded, not the age values",
    "Colless (binary trees only; 'max' needs >= 3 leaves), gamma (binary, >= 3 leaves, ultrametric), treeness (all lengths present, positive total) are driven inside their documented domains only",
    "published definitions: Shao & Sokal 1990 (B1), Colless 1982 / Heard 1992 (max), Blum, Francois & Janson 2006 (Colless yule/pda), Sackin 1972 / Blum & Francois 2005 (yule/pda), Kirkpatrick & Slatkin 1993 (N-bar), Phillips & Penny 2003 (treeness), Pybus & Harvey 2000 (gamma)",
    "set_edge_lengths_from_node_ages on non-monotone ages follows its docstring read in the order of the code: length = parent.age - age, values below minimum_edge_length (not None; default 0.0) become minimum_edge_length, then ValueError iff error_on_negative_edge_lengths and a resulting length < 0; after a ValueError only the root edge and the ages are inspected",
    "values are compared exactly on dyadic inputs, with relative tolerance 1e-9 otherwise and for the real-valued statistics",
]
MANIFEST = {
    "engine": "E1-ENUM",
    "technique": "bounded-exhaustive enumeration of ranked trees, tip displacements and argument settings against a plain-Python reference",
    "text": ("For every tree up to the bound (all shapes, all rankings, several height scales, all child orders for "
             "n <= 4) node ages, depths, root distances, restored edge lengths, lineage counts, tree length and "
             "the statistics B1, Colless, Sackin, N-bar, treeness and gamma returned by the library equal an "
             "independent computation from the definitions, for every normalisation and every precision / forcing "
             "option; every single-tip displacement just below, at and just above every precision is accepted "
             "resp. rejected with UltrametricityError exactly as the comparison 'difference > precision' demands."),
    "note": "trusted: mc/build.py (Node API construction), the formulas in props/C17.py, Python Fractions",
}

deprecate.configure_deprecation_warning_behavior("ignore")

DEFAULT = "default"
P10 = 2.0 ** -10
EULER = 0.57721566490153286
BAND = Fraction(1, 10 ** 12)

# precisions handed to the library ("default" = argument omitted)
PREC_ALL = [DEFAULT, 1e-5, P10, 0, 0.0, 1, None, False, -1, -0.5]
PREC_WRAP = [DEFAULT, P10, None]             # for the thin wrappers on exact trees
PREC_PERT = [DEFAULT, P10, 0, 1, None, False, -1]
# displacements: (delta, arithmetic stays exact)
DELTAS = [(2.0 ** -11, True), (2.0 ** -10, True), (2.0 ** -9, True),
          (5e-6, False), (1e-5, False), (2e-5, False),
          (2.0 ** -20, True), (0.5, True), (1.0, True), (2.0, True)]
HMAPS = {
    "lin": (lambda r: float(r), True),
    "geo": (lambda r: float(2 ** (r - 1)), True),
    "mix": (lambda r: r * (r + 1) / 8.0, True),
    "dec": (lambda r: 0.1 * r, False),
}
AGE_FNS = ["calc_node_ages", "calc_node_ages:internal", "node_ages", "node_ages:internal", "internal_node_ages"]
COLLESS_ARGS = [DEFAULT, "max", True, None, False, "yule", "pda"]
SACKIN_ARGS = [DEFAULT, True, None, False, "yule", "pda"]


def bounds(tier):
    if tier == "quick":
        return {"ult_max_leaves": 5, "pert_max_leaves": 5, "pert_all_order_variants_up_to": 4,
                "gen_max_leaves": 4, "stat_max_leaves": 6, "all_orders_up_to": 4, "hist_max_leaves": 4, "pure_max_leaves": 4,
                "clamp_max_leaves": 4, "clamp_full_age_alphabet_up_to": 4,
                "cross_binary_up_to": 6, "cross_polytomies_up_to": 4, "cross_big_trees": ["caterpillar16", "balanced16", "caterpillar32", "balanced32"],
                "height_maps": sorted(HMAPS), "precisions": [repr(p) for p in PREC_ALL],
                "deltas": [d for d, _ in DELTAS], "gen_alphabets": {"n<=3": [0, 1, 2], "n>=4": [[1, 2], [0, 1]]}}
    return {"ult_max_leaves": 6, "pert_max_leaves": 6, "pert_all_order_variants_up_to": 5,
            "gen_max_leaves": 5, "stat_max_leaves": 7, "all_orders_up_to": 4, "hist_max_leaves": 5, "pure_max_leaves": 5,
            "clamp_max_leaves": 5, "clamp_full_age_alphabet_up_to": 4,
            "cross_binary_up_to": 7, "cross_polytomies_up_to": 5, "cross_big_trees": ["caterpillar16", "balanced16", "caterpillar32", "balanced32"],
            "height_maps": sorted(HMAPS), "precisions": [repr(p) for p in PREC_ALL],
            "deltas": [d for d, _ in DELTAS], "gen_alphabets": {"n<=3": [0, 1, 2], "n>=4": [[1, 2], [0, 1]]}}


def chunks(tier):
    b = bounds(tier)
    out = []

    def add(kind, n, step):
        ns = len(U.shapes(n))
        for lo in range(0, ns, step):
            out.append({"kind": kind, "n": n, "lo": lo, "hi": min(ns, lo + step), "tier": tier})
    for n in range(1, b["ult_max_leaves"] + 1):
        add("ult", n, 30 if n <= 3 else (3 if n == 4 else (2 if n == 5 else 8)))
    for n in range(2, b["pert_max_leaves"] + 1):
        add("pert", n, 30 if n <= 3 else (1 if n == 4 else (3 if n == 5 else 12)))
    for n in range(2, b["gen_max_leaves"] + 1):
        add("gen", n, 30 if n <= 3 else (2 if n == 4 else 3))
    for n in range(1, b["gen_max_leaves"] + 1):
        add("part", n, 60)
    for n in range(1, b["stat_max_leaves"] + 1):
        add("stat", n, 60 if n <= 5 else (100 if n == 6 else 400))
    for n in range(3, b["hist_max_leaves"] + 1):
        add("hist", n, 30)
    for n in range(2, b["pure_max_leaves"] + 1):
        add("pure", n, 30 if n <= 3 else (1 if n == 4 else 2))
    for n in range(2, b["clamp_max_leaves"] + 1):
        add("clamp", n, 30 if n <= 3 else 1)
    for i, (name, sn) in enumerate(cross_menu(tier)):
        out.append({"kind": "cross", "n": len(ref.leaves(sn)), "lo": i, "hi": i + 1, "tier": tier})
    return out


# ---------------------------------------------------------------------------
# small helpers

def tup(x):
    if isinstance(x, list):
        return tuple(tup(y) for y in x)
    return x


_NS = []


_PREBUILT = []


def mktree(sn):
    """fresh tree through the Node API; the taxa (not the nodes) are shared between trees.
    (check_history hands the checks a live tree with a past instead, through _PREBUILT.)"""
    if _PREBUILT:
        return _PREBUILT.pop()
    if not _NS:
        ns = dendropy.TaxonNamespace()
        for l in U.LABELS:
            ns.add_taxon(dendropy.Taxon(label=l))
        _NS.append(ns)
    return build.build_tree((True, sn), _NS[0])


def call(fn):
    try:
        return "ok", fn()
    except Exception as e:  # noqa
        return "exc", e


def same(a, b, exact):
    if a is None or b is None:
        return a is b
    if isinstance(a, bool) or isinstance(b, bool):
        return False
    try:
        if exact:
            return a == b
        return ref.feq(a, b)
    except TypeError:
        return False


def nwk(sn):
    return ref.to_newick(sn, True)


def is_num(x):
    return isinstance(x, (int, float)) and not isinstance(x, bool)


# ---------------------------------------------------------------------------
# enumeration of ranked ultrametric trees

def internal_paths(shape):
    return [p for p in U.paths(shape) if not isinstance(U.at(shape, p), int)]


def rankings(shape):
    """every weak ranking of the internal nodes: rank(parent) > rank(child), ranks
    onto {1..m}.  Yields dict path -> rank."""
    ips = internal_paths(shape)            # pre-order: parents first
    k = len(ips)
    if k == 0:
        yield {}
        return
    assign = {}

    def rec(i):
        if i == k:
            used = set(assign.values())
            if used == set(range(1, len(used) + 1)):
                yield dict(assign)
            return
        p = ips[i]
        hi = k if not p else assign[p[:-1]] - 1
        for r in range(hi, 0, -1):
            assign[p] = r
            for x in rec(i + 1):
                yield x
        if p in assign:
            del assign[p]
    for x in rec(0):
        yield x


def ultra_snap(shape, ranks, hmap, root_len=None):
    hf = HMAPS[hmap][0]

    def rec(s, path, parent_h):
        h = 0.0 if isinstance(s, int) else hf(ranks[path])
        L = root_len if parent_h is None else parent_h - h
        if isinstance(s, int):
            return (U.LABELS[s], None, L, ())
        return (None, None, L, tuple(rec(c, path + (i,), h) for i, c in enumerate(s)))
    return rec(shape, (), None)


def lens_snap(shape, lens, root_len=None):
    """lengths consumed in pre-order over the non-root nodes"""
    it = iter(lens)

    def rec(s, top):
        L = root_len if top else next(it)
        if isinstance(s, int):
            return (U.LABELS[s], None, L, ())
        return (None, None, L, tuple(rec(c, False) for c in s))
    return rec(shape, True)


def count_nonroot(shape):
    return len(list(U.paths(shape))) - 1


def order_drawings(shape, n, all_up_to):
    if n <= all_up_to:
        seen, out = set(), []
        for o in itertools.chain([shape], U.all_orders(shape)):
            if o not in seen:
                seen.add(o)
                out.append(o)
        return out
    return U.order_variants(shape)


def leaf_paths(sn, prefix=()):
    if not sn[3]:
        return [prefix]
    out = []
    for i, c in enumerate(sn[3]):
        out.extend(leaf_paths(c, prefix + (i,)))
    return out


def displaced(sn, path, delta):
    """snapshot with the length of the leaf at `path` changed by delta (None if < 0)"""
    if not path:
        L = sn[2] + delta
        if L < 0:
            return None
        return (sn[0], sn[1], L, sn[3])
    i = path[0]
    c = displaced(sn[3][i], path[1:], delta)
    if c is None:
        return None
    return (sn[0], sn[1], sn[2], sn[3][:i] + (c,) + sn[3][i + 1:])


def is_binary_sn(sn):
    if not sn[3]:
        return True
    return len(sn[3]) == 2 and all(is_binary_sn(c) for c in sn[3])


def has_unif(sn):
    return any(len(nd[3]) == 1 for nd in ref.preorder(sn))


# ---------------------------------------------------------------------------
# reference model

@lru_cache(maxsize=4096)
def facts(sn):
    """path -> (depth, tip distances, number of children); floats"""
    out = {}

    def rec(nd, path, depth):
        if not nd[3]:
            td = (0.0,)
        else:
            acc = []
            for i, c in enumerate(nd[3]):
                for t in rec(c, path + (i,), depth + c[2]):
                    acc.append(t + c[2])
            td = tuple(acc)
        out[path] = (depth, td, len(nd[3]))
        return td
    rec(sn, (), 0.0)
    return out


@lru_cache(maxsize=4096)
def fr_spread(sn):
    """(largest difference of two root-to-tip path lengths, list of the
    child-versus-first-child differences of the documented mechanism), exact."""
    tips = []
    ds = []

    def rec(nd, depth):
        if not nd[3]:
            tips.append(depth)
            return Fraction(0)
        vals = [rec(c, depth + Fraction(c[2])) + Fraction(c[2]) for c in nd[3]]
        for v in vals[1:]:
            ds.append(abs(vals[0] - v))
        return vals[0]
    rec(sn, Fraction(0))
    return max(tips) - min(tips), tuple(ds)


def decide(sn, p, exact):
    """'accept' | 'reject' | 'either' for a numeric, non-negative precision p"""
    P = Fraction(p)
    band = Fraction(0) if exact else BAND
    g, ds = fr_spread(sn)
    if g <= P - band:
        return "accept"
    if any(d > P + band for d in ds):
        return "reject"
    return "either"


def ultrametric(sn, exact):
    g = fr_spread(sn)[0]
    return g == 0 if exact else g <= BAND


def walk(tree, sn):
    out = []
    stack = [(tree._seed_node, sn, ())]
    while stack:
        nd, s, path = stack.pop()
        if len(nd._child_nodes) != len(s[3]):
            raise RuntimeError("tree structure differs from the snapshot it was built from")
        out.append((nd, path))
        for i, c in enumerate(nd._child_nodes):
            stack.append((c, s[3][i], path + (i,)))
    return out


def ref_gamma(sn):
    f = facts(sn)
    hs = sorted((max(td) for (d, td, k) in f.values() if k), reverse=True)   # internal node heights, root first
    n = len(hs) + 1
    g = {}
    for k in range(2, n):
        g[k] = hs[k - 2] - hs[k - 1]
    g[n] = hs[n - 2]
    T = sum(j * g[j] for j in range(2, n + 1))
    inner = sum(sum(k * g[k] for k in range(2, i + 1)) for i in range(2, n))
    return (inner / (n - 2.0) - T / 2.0) / (T * math.sqrt(1.0 / (12.0 * (n - 2))))


def ref_topo_stats(sn):
    """dict (name, arg) -> value for the purely topological statistics"""
    leaf_depths = []
    colless = [0]
    binary = [True]
    b1 = [0.0]

    def rec(nd, depth, is_root):
        if not nd[3]:
            leaf_depths.append(depth)
            return 1, 0
        sizes, ms = [], []
        for c in nd[3]:
            s, m = rec(c, depth + 1, False)
            sizes.append(s)
            ms.append(m)
        M = max(ms) + 1
        if not is_root:
            b1[0] += 1.0 / M
        if len(nd[3]) == 2:
            colless[0] += abs(sizes[0] - sizes[1])
        else:
            binary[0] = False
        return sum(sizes), M
    n, _ = rec(sn, 0, True)
    S = sum(leaf_depths)
    out = {("B1", DEFAULT): b1[0], ("N_bar", DEFAULT): S / float(n)}
    harm = sum(1.0 / j for j in range(2, n + 1))
    for a in SACKIN_ARGS:
        if a in (DEFAULT, True) and a is not None and a is not False:
            v = S / float(n)
        elif a is None or a is False:
            v = float(S)
        elif a == "yule":
            v = (S - 2.0 * n * harm) / n
        else:
            v = S / n ** 1.5
        out[("sackin_index", a)] = v
    if binary[0]:
        I = colless[0]
        for a in COLLESS_ARGS:
            if a is None or a is False:
                v = float(I)
            elif a == "yule":
                v = (I - n * math.log(n) - n * (EULER - 1.0 - math.log(2.0))) / n
            elif a == "pda":
                v = I / n ** 1.5
            else:       # default, "max", True
                if n < 3:
                    continue
                v = I / ((n - 1) * (n - 2) / 2.0)
            out[("colless_tree_imbalance", a)] = v
    return out


def ref_treeness(sn):
    internal = external = 0.0
    for c in sn[3]:
        for nd in ref.preorder(c):
            if nd[3]:
                internal += nd[2]
            else:
                external += nd[2]
    if internal + external <= 0:
        return None
    return internal / (internal + external)


# ---------------------------------------------------------------------------
# checks (each takes a JSON-able case dict; used by run_chunk and by replay)

def _prec_kw(p):
    return {} if p == DEFAULT and isinstance(p, str) else {"ultrametricity_precision": p}


def _effective(p):
    return 1e-5 if isinstance(p, str) else p


def _disabled(pe):
    return pe is None or pe is False or pe < 0


def expected_outcome(sn, p, force, exact):
    pe = _effective(p)
    if force:
        return "accept", "forced"
    if _disabled(pe):
        return "accept", "check-disabled"
    return decide(sn, pe, exact), "within-precision"


def check_ages(case, ctx):
    sn = tup(case["tree"])
    p, force, fn, exact = case["p"], case["force"], case["fn"], case["exact"]
    kw = _prec_kw(p)
    if force == "max":
        kw["is_force_max_age"] = True
    elif force == "min":
        kw["is_force_min_age"] = True
    name = fn.split(":")[0]
    internal_only = fn.endswith(":internal") or fn == "internal_node_ages"
    if fn == "calc_node_ages:internal":
        kw["is_return_internal_node_ages_only"] = True
    elif fn == "node_ages:internal":
        kw["internal_only"] = True
    tree = mktree(sn)
    st, val = call(lambda: getattr(tree, name)(**kw))
    expect, why = expected_outcome(sn, p, force, exact)
    if expect == "either":
        ctx.count("undecided_readings_differ_or_rounding_band")
    if st == "exc":
        if isinstance(val, UltrametricityError):
            if expect == "accept":
                ctx.violation("%s|rejects|%s" % (name, why),
                              "%s(%s) raised UltrametricityError on %s although %s" % (
                                  name, kw, nwk(sn), "paths agree within the precision" if why == "within-precision" else why), case)
        elif expect == "reject" and isinstance(val, ValueError):
            ctx.violation("%s|wrong-error-class" % name, "%s(%s) on %s raised %r instead of UltrametricityError" % (name, kw, nwk(sn), val), case)
        else:
            ctx.violation("%s|exception|%s" % (name, type(val).__name__), "%s(%s) on %s raised %r" % (name, kw, nwk(sn), val), case)
        return
    if expect == "reject":
        ctx.violation("%s|accepts-beyond-precision" % name,
                      "%s(%s) accepted %s whose root-to-tip paths differ by %s" % (name, kw, nwk(sn), float(fr_spread(sn)[0])), case)
        return
    # accepted: values
    f = facts(sn)
    pe = _effective(p)
    if force == "max":
        want = dict((path, max(v[1])) for path, v in f.items())
        mode, tol = "force-max", None
    elif force == "min":
        want = dict((path, min(v[1])) for path, v in f.items())
        mode, tol = "force-min", None
    elif ultrametric(sn, exact):
        want = dict((path, v[1][0]) for path, v in f.items())
        mode, tol = "ultrametric", None
    elif _disabled(pe) or expect != "accept":
        return      # nothing is demanded of the values (check disabled / the two readings differ)
    else:
        want = dict((path, max(v[1])) for path, v in f.items())
        mode, tol = "within-precision", pe + (0.0 if exact else 1e-9)
    for nd, path in walk(tree, sn):
        a = nd.age
        if not is_num(a):
            ok = False
        elif tol is None:
            ok = same(a, want[path], exact)
        else:
            ok = all(abs(a - t) <= tol for t in f[path][1])
        if not ok:
            ctx.violation("%s|age-attribute|%s" % (name, mode),
                          "%s(%s) on %s: node at %s has age %r, its tips are at distance %s" % (
                              name, kw, nwk(sn), list(path), a, sorted(set(f[path][1]))), case)
            return
    paths = [pth for pth, v in f.items() if v[2] or not internal_only]
    wl = sorted(want[pth] for pth in paths)
    try:
        gl = sorted(val)
    except TypeError:
        gl = None
    ok = gl is not None and len(gl) == len(wl) and all(
        (same(x, y, exact) if tol is None else (is_num(x) and abs(x - y) <= tol)) for x, y in zip(gl, wl))
    if not ok:
        ctx.violation("%s|returned-ages|%s" % (fn, mode),
                      "%s(%s) on %s returned %r, expected (sorted) %r" % (fn, kw, nwk(sn), val, wl), case)


def check_both_force(case, ctx):
    sn = tup(case["tree"])
    tree = mktree(sn)
    st, val = call(lambda: tree.calc_node_ages(is_force_max_age=True, is_force_min_age=True))
    ctx.count("both_forcing_options_calls")
    if st == "ok" or not isinstance(val, ValueError):
        ctx.count("both_forcing_options_not_refused")


def check_resolve(case, ctx):
    """depth-type functions on any tree; age-type functions on ultrametric trees"""
    sn = tup(case["tree"])
    exact, op = case["exact"], case["op"]
    f = facts(sn)
    ult = ultrametric(sn, exact)
    depth = dict((p, v[0]) for p, v in f.items())
    age = dict((p, max(v[1])) for p, v in f.items())
    internal = [p for p, v in f.items() if v[2]]
    tree = mktree(sn)
    nodes = walk(tree, sn)

    def bad(sig, msg):
        ctx.violation(sig, "%s on %s: %s" % (op, nwk(sn), msg), case)

    def cmp_list(got, want, sig):
        try:
            gl = sorted(got)
        except TypeError:
            gl = None
        if gl is None or len(gl) != len(want) or not all(same(x, y, exact) for x, y in zip(gl, sorted(want))):
            bad(sig, "returned %r, expected (sorted) %r" % (got, sorted(want)))
            return False
        return True
    if op.startswith("resolve_node_ages") or op.startswith("resolve_node_depths"):
        which = "resolve_node_ages" if op.startswith("resolve_node_ages") else "resolve_node_depths"
        if which == "resolve_node_ages" and not ult:
            return
        want = age if which == "resolve_node_ages" else depth
        attr = op.split(":")[1] if ":" in op else DEFAULT
        dflt = "age" if which == "resolve_node_ages" else "depth"
        kw = {}
        if attr == "none":
            kw["attr_name"] = None
        elif attr != DEFAULT:
            kw["attr_name"] = attr
        st, val = call(lambda: getattr(tree, which)(**kw))
        if st == "exc":
            return bad("%s|exception|%s" % (which, type(val).__name__), repr(val))
        for nd, path in nodes:
            if not (isinstance(val, dict) and nd in val and same(val[nd], want[path], exact)):
                return bad("%s|returned-map" % which, "node at %s -> %r, expected %r" % (
                    list(path), val.get(nd) if isinstance(val, dict) else val, want[path]))
            if attr != "none":
                a = getattr(nd, dflt if attr == DEFAULT else attr, None)
                if not same(a, want[path], exact):
                    return bad("%s|node-attribute" % which, "node at %s has %r, expected %r" % (list(path), a, want[path]))
        if isinstance(val, dict) and len(val) != len(nodes):
            return bad("%s|returned-map" % which, "%d entries for %d nodes" % (len(val), len(nodes)))
    elif op.startswith("calc_node_root_distances"):
        flag = op.split(":")[1]
        kw = {} if flag == DEFAULT else {"return_leaf_distances_only": flag == "leaves"}
        st, val = call(lambda: tree.calc_node_root_distances(**kw))
        if st == "exc":
            return bad("calc_node_root_distances|exception|%s" % type(val).__name__, repr(val))
        for nd, path in nodes:
            a = getattr(nd, "root_distance", None)
            if not same(a, depth[path], exact):
                return bad("calc_node_root_distances|node-attribute", "node at %s has %r, expected %r" % (list(path), a, depth[path]))
        paths = [p for p, v in f.items() if not v[2] or flag == "all"]
        cmp_list(val, [depth[p] for p in paths], "calc_node_root_distances|returned-list")
    elif op.startswith("treemeasure."):
        name = op.split(".")[1]
        fnname, _, arg = name.partition(":")
        agey = fnname in ("node_ages", "coalescence_ages")
        if agey and not ult:
            return
        kw = {}
        only_internal = fnname in ("coalescence_ages", "divergence_times")
        if arg:
            kw["is_internal_only"] = arg == "internal"
            only_internal = arg == "internal"
        st, val = call(lambda: getattr(treemeasure, fnname)(tree, **kw))
        if st == "exc":
            return bad("treemeasure.%s|exception|%s" % (fnname, type(val).__name__), repr(val))
        src = age if agey else depth
        paths = [p for p in f if (p in internal or not only_internal)]
        if cmp_list(val, [src[p] for p in paths], "treemeasure.%s|value" % fnname):
            if list(val) != sorted(val):
                bad("treemeasure.%s|not-sorted" % fnname, "vector %r is not in time order" % (val,))
    elif op in ("length", "max_distance_from_root", "minmax_leaf_distance_from_root"):
        st, val = call(lambda: getattr(tree, op)())
        if st == "exc":
            return bad("%s|exception|%s" % (op, type(val).__name__), repr(val))
        leafd = [depth[p] for p, v in f.items() if not v[2]]
        if op == "length":
            want = ref.total_length(sn, include_root=True)
            ok = same(val, want, exact)
        elif op == "max_distance_from_root":
            want = max(leafd)
            ok = same(val, want, exact)
        else:
            want = (min(leafd), max(leafd))
            ok = isinstance(val, tuple) and len(val) == 2 and same(val[0], want[0], exact) and same(val[1], want[1], exact)
        if not ok:
            bad("%s|value" % op, "returned %r, expected %r" % (val, want))
    else:
        raise ValueError(op)


RESOLVE_OPS = ["resolve_node_ages", "resolve_node_ages:none", "resolve_node_ages:xage",
               "resolve_node_depths", "resolve_node_depths:none", "resolve_node_depths:xdepth",
               "calc_node_root_distances:default", "calc_node_root_distances:leaves", "calc_node_root_distances:all",
               "treemeasure.node_ages", "treemeasure.node_ages:all", "treemeasure.node_ages:internal",
               "treemeasure.node_depths", "treemeasure.node_depths:all", "treemeasure.node_depths:internal",
               "treemeasure.coalescence_ages", "treemeasure.divergence_times",
               "length", "max_distance_from_root", "minmax_leaf_distance_from_root"]
DEPTH_OPS = [o for o in RESOLVE_OPS if not (o.startswith("resolve_node_ages") or o.startswith("treemeasure.node_ages")
                                            or o == "treemeasure.coalescence_ages")]


def check_length_partial(case, ctx):
    """Tree.length with missing lengths (None counts 0, documented) and a root edge length"""
    sn = tup(case["tree"])
    tree = mktree(sn)
    st, val = call(lambda: tree.length())
    want = ref.total_length(sn, include_root=True)
    if st == "exc":
        ctx.violation("length|exception|%s" % type(val).__name__, "length() on %s raised %r" % (nwk(sn), val), case)
    elif not same(val, want, True):
        ctx.violation("length|value|missing-lengths", "length() on %s returned %r, expected %r" % (nwk(sn), val, want), case)


SETLEN_KW = {"default": {}, "min-none": {"minimum_edge_length": None}, "strict": {"error_on_negative_edge_lengths": True}}


def check_setlen(case, ctx):
    """ages by `src`, lengths wiped (`wipe`), set_edge_lengths_from_node_ages(**kw) restores them"""
    sn = tup(case["tree"])
    exact, src, wipe, kwname, p = case["exact"], case["src"], case["wipe"], case["kw"], case.get("p", DEFAULT)
    tree = mktree(sn)
    if src == "calc":
        st, val = call(lambda: tree.calc_node_ages(**_prec_kw(p)))
        expect = expected_outcome(sn, p, None, exact)[0]
        pe = _effective(p)
        if st == "exc" or expect != "accept" or _disabled(pe):
            return      # acceptance itself is judged by check_ages
        tol = None if ultrametric(sn, exact) else pe + (0.0 if exact else 1e-9)
    else:
        if not ultrametric(sn, exact):
            return
        st, val = call(lambda: tree.resolve_node_ages())
        if st == "exc":
            return
        tol = None
    nodes = walk(tree, sn)
    orig = {}
    for nd, path in nodes:
        orig[path] = nd._edge.length
        if path and wipe != "keep":
            nd._edge.length = None if wipe == "none" else 7.0
    st, val = call(lambda: tree.set_edge_lengths_from_node_ages(**SETLEN_KW[kwname]))
    if st == "exc":
        ctx.violation("set_edge_lengths_from_node_ages|exception|%s" % type(val).__name__,
                      "set_edge_lengths_from_node_ages(%s) on %s raised %r" % (SETLEN_KW[kwname], nwk(sn), val), case)
        return
    for nd, path in nodes:
        got = nd._edge.length
        if not path:
            if got != orig[path] and not (got is None and orig[path] is None):
                ctx.violation("set_edge_lengths_from_node_ages|root-edge-changed", "root edge length %r -> %r on %s" % (orig[path], got, nwk(sn)), case)
                return
            continue
        ok = same(got, orig[path], exact) if tol is None else (is_num(got) and abs(got - orig[path]) <= tol)
        if not ok:
            ctx.violation("set_edge_lengths_from_node_ages|not-restored|%s" % ("ultrametric" if tol is None else "within-precision"),
                          "ages from %s, lengths %s, then set_edge_lengths_from_node_ages(%s) on %s: edge above node %s is %r, was %r" % (
                              src, wipe, SETLEN_KW[kwname], nwk(sn), list(path), got, orig[path]), case)
            return


def lineage_queries(sn):
    f = facts(sn)
    ds = sorted(set(v[0] for v in f.values()))
    qs = [(a + b) / 2.0 for a, b in zip(ds, ds[1:])]
    qs.append(ds[-1] + 1.0)
    return qs


def check_lineages(case, ctx):
    sn = tup(case["tree"])
    f = facts(sn)
    qs = [case["d"]] if "d" in case else lineage_queries(sn)
    tree = mktree(sn)
    for d in qs:
        want = sum(1 for p, v in f.items() if p and f[p[:-1]][0] < d < v[0])
        ctx.case(("lin", sn, d), nontrivial=len(f) >= 4)
        ctx.count("lineage_queries")
        st, val = call(lambda: tree.num_lineages_at(d))
        c = dict(case, d=d)
        if st == "exc":
            ctx.violation("num_lineages_at|exception|%s" % type(val).__name__, "num_lineages_at(%r) on %s raised %r" % (d, nwk(sn), val), c)
            return
        if val != want or isinstance(val, bool):
            ctx.violation("num_lineages_at|%s" % ("beyond-tips" if d > max(v[0] for v in f.values()) else "between-node-depths"),
                          "num_lineages_at(%r) on %s returned %r, %d edges cross that distance" % (d, nwk(sn), val, want), c)
            return


def check_treeness(case, ctx):
    sn = tup(case["tree"])
    want = ref_treeness(sn)
    if want is None:
        return
    tree = mktree(sn)
    for via in ("treemeasure.treeness", "Tree.treeness"):
        st, val = call((lambda: treemeasure.treeness(tree)) if via.startswith("tree") else (lambda: tree.treeness()))
        if st == "exc":
            ctx.violation("%s|exception|%s" % (via, type(val).__name__), "%s on %s raised %r" % (via, nwk(sn), val), case)
        elif not same(val, want, False):
            ctx.violation("%s|value" % via, "%s on %s returned %r, internal/total = %r" % (via, nwk(sn), val, want), case)


def check_gamma(case, ctx):
    sn = tup(case["tree"])
    prec, exact, via = case["prec"], case["exact"], case["via"]
    tree = mktree(sn)
    args = () if isinstance(prec, str) else (prec,)
    if via == "module":
        name = "treemeasure.pybus_harvey_gamma"
        st, val = call(lambda: treemeasure.pybus_harvey_gamma(tree, *args))
    else:
        name = "Tree.pybus_harvey_gamma"
        st, val = call(lambda: tree.pybus_harvey_gamma(*args))
    expect, why = expected_outcome(sn, prec, None, exact)
    if expect == "either":
        ctx.count("undecided_readings_differ_or_rounding_band")
    if st == "exc":
        if isinstance(val, UltrametricityError):
            if expect == "accept":
                ctx.violation("%s|rejects|%s" % (name, why), "%s(prec=%r) raised UltrametricityError on %s" % (name, prec, nwk(sn)), case)
        else:
            ctx.violation("%s|exception|%s" % (name, type(val).__name__), "%s(prec=%r) on %s raised %r" % (name, prec, nwk(sn), val), case)
        return
    if expect == "reject":
        ctx.violation("%s|accepts-beyond-precision" % name, "%s(prec=%r) accepted %s (paths differ by %s)" % (
            name, prec, nwk(sn), float(fr_spread(sn)[0])), case)
        return
    if ultrametric(sn, exact):
        want = ref_gamma(sn)
        if not same(val, want, False):
            ctx.violation("%s|value" % name, "%s on %s returned %r, definition gives %r" % (name, nwk(sn), val, want), case)


def check_gamma_history(case, ctx):
    """node ages computed (by `prior`) for tree1's lengths, lengths changed to tree2's, then gamma"""
    s1, s2 = tup(case["tree"]), tup(case["tree2"])
    prior, exact = case["prior"], case["exact"]
    tree = mktree(s1)
    if prior == "gamma":
        st, val = call(lambda: treemeasure.pybus_harvey_gamma(tree))
    elif prior == "calc_node_ages":
        st, val = call(lambda: tree.calc_node_ages())
    elif prior == "node_ages":
        st, val = call(lambda: tree.node_ages())
    else:
        st, val = call(lambda: tree.resolve_node_ages())
    if st == "exc":
        return
    stack = [(tree._seed_node, s2)]
    while stack:
        nd, s = stack.pop()
        nd._edge.length = s[2]
        stack.extend(zip(nd._child_nodes, s[3]))
    st, val = call(lambda: treemeasure.pybus_harvey_gamma(tree))
    expect = expected_outcome(s2, DEFAULT, None, exact)[0]
    sig = "treemeasure.pybus_harvey_gamma|node-ages-not-recomputed"
    if expect == "reject":
        if not (st == "exc" and isinstance(val, UltrametricityError)):
            ctx.violation(sig, "after %s on %s the edge lengths were changed to %s (not ultrametric); gamma %s instead of raising UltrametricityError" % (
                prior, nwk(s1), nwk(s2), "returned %r" % (val,) if st == "ok" else "raised %r" % (val,)), case)
    elif expect == "accept" and ultrametric(s2, exact):
        want = ref_gamma(s2)
        if st == "exc" or not same(val, want, False):
            ctx.violation(sig, "after %s on %s the edge lengths were changed to %s; gamma gives %r, definition gives %r (the old tree's gamma is %r)" % (
                prior, nwk(s1), nwk(s2), val, want, ref_gamma(s1)), case)


def stat_calls():
    out = [("B1", DEFAULT), ("N_bar", DEFAULT)]
    out += [("sackin_index", a) for a in SACKIN_ARGS]
    out += [("colless_tree_imbalance", a) for a in COLLESS_ARGS]
    return out


def stats_mismatches(sn):
    """{(via, name, arg): (kind, got, want)} for one drawing"""
    want = ref_topo_stats(sn)
    tree = mktree(sn)
    bad = {}
    ncalls = 0
    for name, a in stat_calls():
        if (name, a) not in want:
            continue
        args = () if (isinstance(a, str) and a == DEFAULT) else (a,)
        for via in ("treemeasure", "Tree"):
            ncalls += 1
            if via == "treemeasure":
                st, val = call(lambda: getattr(treemeasure, name)(tree, *args))
            else:
                st, val = call(lambda: getattr(tree, name)(*args))
            if st == "exc":
                bad[(via, name, a)] = ("exception|%s" % type(val).__name__, repr(val), want[(name, a)])
            elif not is_num(val) or not same(val, want[(name, a)], False):
                bad[(via, name, a)] = ("value", val, want[(name, a)])
    return bad, ncalls


def check_stats(case, ctx):
    sn = tup(case["tree"])
    bad, ncalls = stats_mismatches(sn)
    ctx.count("statistic_calls", ncalls)
    if not bad:
        return
    base_bad = None
    if case.get("base") is not None and tup(case["base"]) != sn:
        base_bad = stats_mismatches(tup(case["base"]))[0]
    for (via, name, a), (kind, got, want) in sorted(bad.items(), key=repr):
        if base_bad is not None and (via, name, a) not in base_bad:
            kind = "child-order-dependent"
        ctx.violation("%s.%s|%s|normalize=%r" % (via, name, kind, a),
                      "%s.%s(%s) on %s gives %r, definition gives %r" % (via, name, "" if a == DEFAULT and isinstance(a, str) else repr(a),
                                                                       ref.to_newick(sn, False), got, want), case)


# ---------------------------------------------------------------------------
# chunk runners

def _nontriv(n):
    return n >= 3


def run_ult(chunk, ctx):
    n, tier = chunk["n"], chunk["tier"]
    b = bounds(tier)
    shapes = U.shapes(n)
    for si in range(chunk["lo"], chunk["hi"]):
        shape = shapes[si]
        drawings = [("order", d) for d in order_drawings(shape, n, b["all_orders_up_to"])]
        drawings[0] = ("base", shape)
        for u in U.with_unifurcations(shape, 1, (1,)):
            drawings.append(("unif", u))
        nranked = 0
        for tag, d in drawings:
            ctx.count("ultrametric_drawings")
            for ranks in rankings(d):
                if tag == "base":
                    nranked += 1
                    ctx.count("ranked_trees")
                hmaps = sorted(HMAPS) if tag != "unif" else ["lin", "dec"]
                for hm in hmaps:
                    exact = HMAPS[hm][1]
                    if n >= 5 and tag != "base" and hm in ("geo", "mix"):
                        continue
                    root_lens = (None, 0.5) if tag == "base" and hm in ("lin", "dec") else (None,)
                    for rl in root_lens:
                        sn = ultra_snap(d, ranks, hm, rl)
                        ult_cases(sn, n, tag, hm, exact, ctx, full=(rl is None and (tag == "base" or n <= 4)))
        if chunk["lo"] == 0 and n >= 3:
            ctx.sample({"layer": "ult", "shape": ref.to_newick(ref.mk(shape), False), "drawings": len(drawings),
                      "weak_rankings": nranked, "example": nwk(ultra_snap(shape, next(rankings(shape)), "mix"))}, 2)


PREC_LITE = [DEFAULT, P10, 0, None]


def ult_cases(sn, n, tag, hm, exact, ctx, full=True):
    """full: every precision x forcing option x entry point, every restore variant, gamma by both
    routes; lite (re-ordered / unifurcated / root-edge drawings of n >= 5): a reduced argument set"""
    nt = _nontriv(n)
    base = {"tree": sn, "exact": exact, "tag": tag, "hmap": hm}
    # ages under every precision and forcing option
    for force in (None, "max", "min"):
        for p in (PREC_ALL if full else PREC_LITE):
            if full:
                fns = AGE_FNS if (isinstance(p, str) or p in PREC_WRAP) else AGE_FNS[:1]
            else:
                fns = AGE_FNS if isinstance(p, str) else AGE_FNS[:1]
            for fn in fns:
                case = dict(base, kind="ages", p=p, force=force, fn=fn)
                ctx.case(("ages", sn, repr(p), force, fn), nt)
                ctx.count("age_calls")
                check_ages(case, ctx)
    if full:
        check_both_force(dict(base, kind="both"), ctx)
    for op in RESOLVE_OPS:
        ctx.case(("res", sn, op), nt)
        ctx.count("depth_and_vector_calls")
        check_resolve(dict(base, kind="resolve", op=op), ctx)
    for src in ("calc", "resolve"):
        for wipe in (("keep", "none", "junk") if full else ("none",)):
            for kwname in (sorted(SETLEN_KW) if full else ("default",)):
                ctx.case(("setlen", sn, src, wipe, kwname), nt)
                ctx.count("restore_calls")
                check_setlen(dict(base, kind="setlen", src=src, wipe=wipe, kw=kwname), ctx)
    check_lineages(dict(base, kind="lineages"), ctx)
    if n >= 2 and not has_unif(sn):
        ctx.case(("treeness", sn), nt)
        ctx.count("treeness_trees")
        check_treeness(dict(base, kind="treeness"), ctx)
        if n >= 3 and is_binary_sn(sn):
            for prec in ((DEFAULT, P10, 0, None) if full else (DEFAULT,)):
                for via in (("module", "method") if full else ("module",)):
                    ctx.case(("gamma", sn, repr(prec), via), nt)
                    ctx.count("gamma_calls")
                    check_gamma(dict(base, kind="gamma", prec=prec, via=via), ctx)


def run_pert(chunk, ctx):
    n, tier = chunk["n"], chunk["tier"]
    b = bounds(tier)
    shapes = U.shapes(n)
    nt = _nontriv(n)
    for si in range(chunk["lo"], chunk["hi"]):
        shape = shapes[si]
        if n <= b["pert_all_order_variants_up_to"]:
            drawings = order_drawings(shape, n, b["all_orders_up_to"])
            hmaps = ["lin", "geo"] if n <= 4 else ["lin"]
        else:
            drawings = [shape, U.reverse_all(shape)] if U.reverse_all(shape) != shape else [shape]
            hmaps = ["lin"]
        for d in drawings:
            for ranks in rankings(d):
                for hm in hmaps:
                    us = ultra_snap(d, ranks, hm)
                    for lp in leaf_paths(us):
                        for delta, dex in DELTAS:
                            for sign in (1, -1):
                                sn = displaced(us, lp, sign * delta)
                                if sn is None:
                                    continue
                                ctx.count("displaced_trees")
                                if dex and any(decide(sn, q, True) == "either" for q in (1e-5, P10, 0, 1)):
                                    # DESIGN: for a single displaced tip the two readings coincide
                                    raise RuntimeError("single-tip displacement left undecided: %s" % nwk(sn))
                                base = {"tree": sn, "exact": dex, "tip": list(lp), "delta": sign * delta, "hmap": hm}
                                for p in PREC_PERT:
                                    fns = AGE_FNS[:1] if (p not in (DEFAULT, P10) or n >= 6) else ("calc_node_ages", "node_ages", "internal_node_ages")
                                    for fn in fns:
                                        ctx.case(("ages", sn, repr(p), None, fn), nt)
                                        ctx.count("displacement_decisions")
                                        check_ages(dict(base, kind="ages", p=p, force=None, fn=fn), ctx)
                                for force in ("max", "min"):
                                    ctx.case(("ages", sn, DEFAULT, force, "calc_node_ages"), nt)
                                    ctx.count("forced_age_calls")
                                    check_ages(dict(base, kind="ages", p=DEFAULT, force=force, fn="calc_node_ages"), ctx)
                                for p in ((DEFAULT, P10, 1) if n <= 4 else ((P10, 1) if n == 5 else (P10,))):
                                    ctx.case(("setlen", sn, repr(p)), nt)
                                    ctx.count("restore_calls")
                                    check_setlen(dict(base, kind="setlen", src="calc", wipe="none", kw="default", p=p), ctx)
                                if n >= 3 and is_binary_sn(sn):
                                    for prec in ((DEFAULT, P10, 0, None) if n <= 4 else ((DEFAULT, P10) if n == 5 else (P10,))):
                                        ctx.case(("gamma", sn, repr(prec), "module"), nt)
                                        ctx.count("gamma_calls")
                                        check_gamma(dict(base, kind="gamma", prec=prec, via="module"), ctx)
        if chunk["lo"] == 0 and n >= 3:
            ctx.sample({"layer": "pert", "shape": ref.to_newick(ref.mk(shape), False), "drawings": len(drawings),
                      "deltas": len(DELTAS) * 2, "precisions": [repr(p) for p in PREC_PERT]}, 1)


GEN_PREC = [0, 0.5, 1, 1.5, 2, None]


def run_gen(chunk, ctx):
    n, tier = chunk["n"], chunk["tier"]
    b = bounds(tier)
    shapes = U.shapes(n)
    nt = _nontriv(n)
    for si in range(chunk["lo"], chunk["hi"]):
        shape = shapes[si]
        drawings = order_drawings(shape, n, b["all_orders_up_to"]) if n <= 4 else (
            [shape, U.reverse_all(shape)] if U.reverse_all(shape) != shape else [shape])
        alphabets = [(0.0, 1.0, 2.0)] if n <= 3 else [(1.0, 2.0), (0.0, 1.0)]
        assignments = []
        for al in alphabets:
            for lens in itertools.product(al, repeat=count_nonroot(shape)):
                if lens not in assignments:
                    assignments.append(lens)
        for d in drawings:
            for lens in assignments:
                sn = lens_snap(d, lens)
                ctx.count("general_length_assignments")
                base = {"tree": sn, "exact": True}
                for force in ("max", "min"):
                    ctx.case(("ages", sn, DEFAULT, force, "calc_node_ages"), nt)
                    ctx.count("forced_age_calls")
                    check_ages(dict(base, kind="ages", p=DEFAULT, force=force, fn="calc_node_ages"), ctx)
                for fn in ("node_ages", "internal_node_ages"):
                    ctx.case(("ages", sn, DEFAULT, "max", fn), nt)
                    ctx.count("forced_age_calls")
                    check_ages(dict(base, kind="ages", p=DEFAULT, force="max", fn=fn), ctx)
                for p in GEN_PREC:
                    ctx.case(("ages", sn, repr(p), None, "calc_node_ages"), nt)
                    ctx.count("multi_displacement_decisions")
                    check_ages(dict(base, kind="ages", p=p, force=None, fn="calc_node_ages"), ctx)
                for op in DEPTH_OPS:
                    ctx.case(("res", sn, op), nt)
                    ctx.count("depth_and_vector_calls")
                    check_resolve(dict(base, kind="resolve", op=op), ctx)
                check_lineages(dict(base, kind="lineages"), ctx)
                ctx.case(("treeness", sn), nt)
                ctx.count("treeness_trees")
                check_treeness(dict(base, kind="treeness"), ctx)
        if chunk["lo"] == 0 and n >= 3:
            ctx.sample({"layer": "gen", "shape": ref.to_newick(ref.mk(shape), False), "drawings": len(drawings),
                      "assignments_per_drawing": len(assignments), "alphabets": alphabets}, 1)


def run_part(chunk, ctx):
    n = chunk["n"]
    shapes = U.shapes(n)
    for si in range(chunk["lo"], chunk["hi"]):
        shape = shapes[si]
        for rl in (None, 1.0):
            for lens in itertools.product((None, 1.0), repeat=count_nonroot(shape)):
                sn = lens_snap(shape, lens, rl)
                ctx.case(("plen", sn), _nontriv(n))
                ctx.count("partial_length_trees")
                check_length_partial({"kind": "plen", "tree": sn}, ctx)


def run_stat(chunk, ctx):
    n, tier = chunk["n"], chunk["tier"]
    b = bounds(tier)
    shapes = U.shapes(n)
    for si in range(chunk["lo"], chunk["hi"]):
        shape = shapes[si]
        drawings = order_drawings(shape, n, b["all_orders_up_to"])
        bsn = ref.mk(drawings[0])
        for di, d in enumerate(drawings):
            sn = ref.mk(d)
            ctx.case(("stat", sn), _nontriv(n))
            ctx.count("statistic_drawings")
            check_stats({"kind": "stats", "tree": sn, "base": bsn}, ctx)
            # the two length-based statistics on the same drawings: every weak ranking of the base
            # drawing, the first ranking of the re-ordered ones
            if n < 2:
                continue
            rks = list(rankings(d)) if di == 0 else [next(rankings(d))]
            for ranks in rks:
                for hm in (("lin", "mix") if di == 0 else ("mix",)):
                    usn = ultra_snap(d, ranks, hm)
                    base = {"tree": usn, "exact": True, "hmap": hm}
                    ctx.case(("treeness", usn), _nontriv(n))
                    ctx.count("treeness_trees")
                    check_treeness(dict(base, kind="treeness"), ctx)
                    if n >= 3 and U.is_binary(d):
                        ctx.case(("gamma", usn, repr(DEFAULT), "module"), True)
                        ctx.count("gamma_calls")
                        check_gamma(dict(base, kind="gamma", prec=DEFAULT, via="module"), ctx)
        if si == 0 and n >= 3:
            ctx.sample({"layer": "stat", "shape": ref.to_newick(bsn, False), "drawings": len(drawings),
                        "reference": dict(("%s(%s)" % k, v) for k, v in ref_topo_stats(bsn).items())}, 1)


def run_hist(chunk, ctx):
    n = chunk["n"]
    shapes = U.shapes(n)
    for si in range(chunk["lo"], chunk["hi"]):
        shape = shapes[si]
        if not U.is_binary(shape):
            continue
        trees = []
        for ranks in rankings(shape):
            for hm in ("lin", "geo"):
                t = ultra_snap(shape, ranks, hm)
                if t not in trees:
                    trees.append(t)
        seconds = list(trees)
        for lp in leaf_paths(trees[0]):
            seconds.append(displaced(trees[0], lp, 0.5))
        for s1 in trees:
            for s2 in seconds:
                if s1 == s2:
                    continue
                for prior in ("gamma", "calc_node_ages", "node_ages", "resolve_node_ages"):
                    ctx.case(("hist", s1, s2, prior), True)
                    ctx.count("gamma_after_relength_cases")
                    check_gamma_history({"kind": "gamma-history", "tree": s1, "tree2": s2, "prior": prior, "exact": True}, ctx)


# ---------------------------------------------------------------------------
# purity / history layer: [call f; edit the edge lengths; call g] on ONE tree object.
# g must answer for the lengths the tree has now - i.e. exactly what the same check demands of a
# freshly built tree with those lengths - whatever f left behind on the nodes (age,
# root_distance, depth, ...).

def _f_lineage(tree, sn):
    return tree.num_lineages_at(lineage_queries(sn)[0])


def _f_setlen(tree, sn):
    tree.calc_node_ages()
    tree.set_edge_lengths_from_node_ages()


def _f_stats(tree, sn):
    treemeasure.B1(tree)
    treemeasure.N_bar(tree)
    treemeasure.sackin_index(tree)
    if is_binary_sn(sn):
        treemeasure.colless_tree_imbalance(tree, None)


def _f_copy(tree, sn):
    import copy
    tree.calc_node_root_distances()
    tree.calc_node_ages()
    return copy.deepcopy(tree)


FIRST_CALLS = {
    "none": lambda tree, sn: None,
    "calc_node_ages": lambda tree, sn: tree.calc_node_ages(),
    "calc_node_ages:max": lambda tree, sn: tree.calc_node_ages(is_force_max_age=True),
    "node_ages": lambda tree, sn: tree.node_ages(),
    "internal_node_ages": lambda tree, sn: tree.internal_node_ages(),
    "resolve_node_ages": lambda tree, sn: tree.resolve_node_ages(),
    "resolve_node_depths": lambda tree, sn: tree.resolve_node_depths(),
    "calc_node_root_distances": lambda tree, sn: tree.calc_node_root_distances(),
    "num_lineages_at": _f_lineage,
    "max_distance_from_root": lambda tree, sn: tree.max_distance_from_root(),
    "minmax_leaf_distance_from_root": lambda tree, sn: tree.minmax_leaf_distance_from_root(),
    "length": lambda tree, sn: tree.length(),
    "treeness": lambda tree, sn: treemeasure.treeness(tree),
    "pybus_harvey_gamma": lambda tree, sn: treemeasure.pybus_harvey_gamma(tree),
    "treemeasure.node_depths": lambda tree, sn: treemeasure.node_depths(tree),
    "set_edge_lengths_from_node_ages": _f_setlen,
    "statistics": _f_stats,
    "ages+root_distances+deepcopy": _f_copy,
}
FIRST_ORDER = ["none", "calc_node_ages", "calc_node_ages:max", "node_ages", "internal_node_ages", "resolve_node_ages",
               "resolve_node_depths", "calc_node_root_distances", "num_lineages_at", "max_distance_from_root",
               "minmax_leaf_distance_from_root", "length", "treeness", "pybus_harvey_gamma", "treemeasure.node_depths",
               "set_edge_lengths_from_node_ages", "statistics", "ages+root_distances+deepcopy"]


def second_calls(sn2, n):
    """the g's: case dicts (without the tree) of the ordinary checks"""
    out = []
    for fn, p, force in (("calc_node_ages", DEFAULT, None), ("node_ages", DEFAULT, None), ("internal_node_ages", DEFAULT, None),
                         ("calc_node_ages", None, None), ("calc_node_ages", DEFAULT, "max"), ("calc_node_ages", DEFAULT, "min")):
        out.append({"kind": "ages", "fn": fn, "p": p, "force": force})
    for op in ("resolve_node_ages", "resolve_node_depths", "calc_node_root_distances:default", "calc_node_root_distances:all",
               "treemeasure.node_ages", "treemeasure.node_depths", "treemeasure.coalescence_ages", "treemeasure.divergence_times",
               "length", "max_distance_from_root", "minmax_leaf_distance_from_root"):
        out.append({"kind": "resolve", "op": op})
    out.append({"kind": "lineages"})
    out.append({"kind": "treeness"})
    if n >= 3 and is_binary_sn(sn2):
        out.append({"kind": "gamma", "prec": DEFAULT, "via": "module"})
    for src in ("calc", "resolve"):
        out.append({"kind": "setlen", "src": src, "wipe": "none", "kw": "default"})
    out.append({"kind": "stats"})
    return out


def g_name(g):
    return g.get("fn") or g.get("op") or (g["kind"] + (":" + g["src"] if "src" in g else ""))


def scaled(sn, factor, path=None, _here=()):
    """snapshot with every non-root length (path None) or the length above `path` multiplied"""
    L = sn[2]
    if _here and L is not None and (path is None or tuple(path) == _here):
        L = L * factor
    return (sn[0], sn[1], L, tuple(scaled(c, factor, path, _here + (i,)) for i, c in enumerate(sn[3])))


def swapped(sn, path, i, j):
    """snapshot with the lengths above children i and j of the node at `path` exchanged"""
    if path:
        k = path[0]
        return (sn[0], sn[1], sn[2], sn[3][:k] + (swapped(sn[3][k], path[1:], i, j),) + sn[3][k + 1:])
    ch = list(sn[3])
    a, b = ch[i], ch[j]
    ch[i] = (a[0], a[1], b[2], a[3])
    ch[j] = (b[0], b[1], a[2], b[3])
    return (sn[0], sn[1], sn[2], tuple(ch))


def history_edits(s1, patterns):
    """[(edit descriptor, snapshot after the edit)]"""
    out = [({"type": "scale_edges", "factor": 2.0}, scaled(s1, 2.0))]
    f = facts(s1)
    for path in sorted(f):
        if path:
            out.append(({"type": "direct", "what": "scale-one-edge"}, scaled(s1, 2.0, path)))
    for s2 in patterns:
        if s2 != s1:
            out.append(({"type": "direct", "what": "other-ultrametric-pattern"}, s2))
            out.append(({"type": "ages"}, s2))
    for path in sorted(f):
        k = f[path][2]
        nd = s1
        for i in path:
            nd = nd[3][i]
        for i in range(k):
            for j in range(i + 1, k):
                if nd[3][i][2] != nd[3][j][2]:
                    out.append(({"type": "direct", "what": "swap-sibling-lengths"}, swapped(s1, path, i, j)))
    return out


class _Capture(object):
    """collects the violations of an ordinary check without reporting them"""

    def __init__(self):
        self.got = []

    def violation(self, sig, msg, case):
        self.got.append((sig, msg))

    def case(self, *a, **k):
        pass

    def count(self, *a, **k):
        pass

    def maximum(self, *a, **k):
        pass

    def sample(self, *a, **k):
        pass


def check_history(case, ctx):
    s1, s2 = tup(case["tree"]), tup(case["tree2"])
    fname, edit, g = case["f"], case["edit"], case["g"]
    tree = mktree(s1)
    try:
        r = FIRST_CALLS[fname](tree, s1)
    except Exception:
        return                                  # f itself is judged by the other layers
    if fname.endswith("deepcopy"):
        tree = r
    # -- the edit
    try:
        nodes = walk(tree, s1)
    except RuntimeError:
        ctx.count("history_copy_structure_differs")
        return
    if edit["type"] == "scale_edges":
        tree.scale_edges(edit["factor"])
    elif edit["type"] == "direct":
        want = dict((path, v) for path, v in _lengths(s2).items())
        for nd, path in nodes:
            if nd._edge.length != want[path] or (nd._edge.length is None) != (want[path] is None):
                nd.edge.length = want[path]
    elif edit["type"] == "ages":
        f2 = facts(s2)
        for nd, path in nodes:
            nd.age = max(f2[path][1])
        st, val = call(lambda: tree.set_edge_lengths_from_node_ages())
        if st == "exc":
            ctx.violation("after-history|set_edge_lengths_from_node_ages|exception|%s" % type(val).__name__,
                          "after %s on %s, ages set for %s: %r" % (fname, nwk(s1), nwk(s2), val), case)
            return
    else:
        raise ValueError(edit)
    now = ref.snapshot(tree)[1]
    if now != s2:
        if edit["type"] == "ages":
            ctx.violation("after-history|set_edge_lengths_from_node_ages|lengths",
                          "after %s on %s the node ages were set for %s and set_edge_lengths_from_node_ages() called: the tree is %s" % (
                              fname, nwk(s1), nwk(s2), nwk(now)), case)
        else:
            ctx.count("history_edit_result_unexpected")     # scale_edges is not this property's subject
        return
    # -- g on the tree with a past, judged by the ordinary check for the present lengths
    gcase = dict(g, tree=s2, exact=True)
    cap = _Capture()
    _PREBUILT.append(tree)
    try:
        CHECKS[g["kind"]](gcase, cap)
    finally:
        del _PREBUILT[:]
    if not cap.got:
        return
    fresh = _Capture()
    CHECKS[g["kind"]](gcase, fresh)
    fresh_sigs = set(sig for sig, _ in fresh.got)
    for sig, msg in cap.got:
        if sig in fresh_sigs:
            continue                             # wrong on a fresh tree as well: reported by the other layers
        ctx.violation("after-history|" + sig,
                      "tree %s; %s; lengths changed (%s) to %s; then on the same object: %s  [a freshly built tree with these lengths passes]" % (
                          nwk(s1), fname, edit.get("what", edit["type"]), nwk(s2), msg), case)


def _lengths(sn, path=()):
    out = {path: sn[2]}
    for i, c in enumerate(sn[3]):
        out.update(_lengths(c, path + (i,)))
    return out


def run_pure(chunk, ctx):
    n = chunk["n"]
    shapes = U.shapes(n)
    for si in range(chunk["lo"], chunk["hi"]):
        shape = shapes[si]
        patterns = []
        for ranks in rankings(shape):
            for hm in ("lin", "geo", "mix"):
                t = ultra_snap(shape, ranks, hm)
                if t not in patterns:
                    patterns.append(t)
        starts = [t for t in patterns if t in [ultra_snap(shape, r, "lin") for r in rankings(shape)]]
        for s1 in starts:
            edits = history_edits(s1, patterns)
            ctx.count("history_start_trees")
            for edit, s2 in edits:
                gs = second_calls(s2, n)
                for fname in FIRST_ORDER:
                    if fname == "pybus_harvey_gamma" and not (n >= 3 and is_binary_sn(s1)):
                        continue
                    for g in gs:
                        ctx.case(("pure", s1, fname, edit["type"], s2, repr(sorted(g.items()))), _nontriv(n))
                        ctx.count("histories")
                        check_history({"kind": "history", "tree": s1, "tree2": s2, "f": fname, "edit": edit, "g": g}, ctx)
            if si == chunk["lo"] and n >= 3:
                ctx.sample({"layer": "pure", "start": nwk(s1), "edits": len(edits), "first_calls": len(FIRST_ORDER),
                            "second_calls": [g_name(g) for g in second_calls(s1, n)]}, 1)


# ---------------------------------------------------------------------------
# clamp layer: set_edge_lengths_from_node_ages on non-monotone ages (child older than parent)

CLAMP_MINS = [DEFAULT, 0, 0.0, 0.5, None]


def preorder_paths(sn, path=()):
    out = [path]
    for i, c in enumerate(sn[3]):
        out.extend(preorder_paths(c, path + (i,)))
    return out


def check_clamp(case, ctx):
    """Docstring of set_edge_lengths_from_node_ages: every non-root edge length becomes
    parent.age - node.age, values below minimum_edge_length (when it is not None; default 0.0)
    become minimum_edge_length; with error_on_negative_edge_lengths a ValueError iff a resulting
    length (after the clamp) is negative; the root edge and the ages are not touched."""
    sn = tup(case["tree"])
    mn, err = case["min"], case["err"]
    tree = mktree(sn)
    nodes = dict((path, nd) for nd, path in walk(tree, sn))
    order = preorder_paths(sn)
    if case.get("ages") is not None:
        for path, a in zip(order, case["ages"]):
            nodes[path].age = a
    else:
        kw = {"is_force_min_age": True} if case["ages_from"] == "force-min" else {"is_force_max_age": True}
        st, val = call(lambda: tree.calc_node_ages(ultrametricity_precision=False, **kw))
        if st == "exc":
            return          # judged by check_ages
    age = dict((path, nodes[path].age) for path in order)
    root_len = nodes[()]._edge.length
    kw = {}
    is_default = isinstance(mn, str)
    if not is_default:
        kw["minimum_edge_length"] = mn
    if err:
        kw["error_on_negative_edge_lengths"] = True
    m = 0.0 if is_default else mn
    want = {}
    for path in order:
        if path:
            raw = age[path[:-1]] - age[path]
            want[path] = m if (m is not None and raw < m) else raw
    expect_error = err and any(v < 0 for v in want.values())
    sig = "set_edge_lengths_from_node_ages|clamp|min=%r|err=%r|" % (mn, err)
    desc = "set_edge_lengths_from_node_ages(%s) on %s with ages (pre-order) %s" % (
        ", ".join("%s=%r" % kv for kv in sorted(kw.items())), ref.to_newick(sn, False), [age[pth] for pth in order])
    st, val = call(lambda: tree.set_edge_lengths_from_node_ages(**kw))
    if st == "exc":
        if not isinstance(val, ValueError) or isinstance(val, UltrametricityError):
            ctx.violation(sig + "exception|%s" % type(val).__name__, "%s raised %r" % (desc, val), case)
        elif not expect_error:
            ctx.violation(sig + "unexpected-ValueError", "%s raised %r; no resulting length is negative: %s" % (
                desc, val, [want[pth] for pth in order if pth]), case)
    elif expect_error:
        ctx.violation(sig + "missing-ValueError", "%s returned although a resulting length is negative: %s" % (
            desc, [want[pth] for pth in order if pth]), case)
    else:
        for path in order:
            if path and not same(nodes[path]._edge.length, want[path], True):
                ctx.violation(sig + "lengths", "%s: edge above node %s is %r, documented %r (parent age %r - age %r, minimum %r)" % (
                    desc, list(path), nodes[path]._edge.length, want[path], age[path[:-1]], age[path], m), case)
                break
    if not same(nodes[()]._edge.length, root_len, True):
        ctx.violation(sig + "root-edge-changed", "%s: root edge length %r -> %r" % (desc, root_len, nodes[()]._edge.length), case)
    for path in order:
        a = nodes[path].age
        if a != age[path] or type(a) is not type(age[path]):
            ctx.violation(sig + "ages-changed", "%s: age of node %s changed from %r to %r" % (desc, list(path), age[path], a), case)
            break


def run_clamp(chunk, ctx):
    n, tier = chunk["n"], chunk["tier"]
    b = bounds(tier)
    shapes = U.shapes(n)
    nt = _nontriv(n)
    combos = [(mn, err) for mn in CLAMP_MINS for err in (False, True)]
    for si in range(chunk["lo"], chunk["hi"]):
        shape = shapes[si]
        # (a) ages assigned by the forcing options on every {1,2} length assignment
        for lens in itertools.product((1.0, 2.0), repeat=count_nonroot(shape)):
            sn = lens_snap(shape, lens, 0.25)
            for src in ("force-min", "force-max"):
                ctx.count("clamp_forced_age_trees")
                for mn, err in combos:
                    ctx.case(("clamp", sn, src, repr(mn), err), nt)
                    ctx.count("clamp_calls")
                    check_clamp({"kind": "clamp", "tree": sn, "ages": None, "ages_from": src, "min": mn, "err": err}, ctx)
        # (b) hand-set ages, child older than parent included
        sn = lens_snap(shape, [1.0] * count_nonroot(shape), 0.25)
        order = preorder_paths(sn)
        f = facts(sn)
        full = n <= b["clamp_full_age_alphabet_up_to"]
        alph = [(0, 1, 2) if (full or f[path][2]) else (0, 1) for path in order]
        nvec = 0
        for ages in itertools.product(*alph):
            nvec += 1
            ctx.count("clamp_hand_set_age_vectors")
            for mn, err in combos:
                ctx.case(("clamp", sn, ages, repr(mn), err), nt)
                ctx.count("clamp_calls")
                check_clamp({"kind": "clamp", "tree": sn, "ages": list(ages), "ages_from": None, "min": mn, "err": err}, ctx)
        if si == chunk["lo"] and n >= 3:
            ctx.sample({"layer": "clamp", "shape": ref.to_newick(sn, False), "hand_set_age_vectors": nvec,
                        "age_alphabets_preorder": [list(a) for a in alph], "minimum_edge_length": [repr(x) for x in CLAMP_MINS],
                        "error_on_negative_edge_lengths": [False, True]}, 1)


# ---------------------------------------------------------------------------
# cross layer: [f(T1); f(T2)] in one process, T1 and T2 different trees from a small menu.  f(T2)
# must equal the definition whatever was scored before.  The failure to be caught depends on the
# history of the *process*, so (i) every case primes with its own T1, (ii) a failure seen here is
# reported only if the same two calls fail in a clean interpreter too (the worker may have been
# primed by earlier chunks: such a failure is real, but it is not this pair's), and (iii) replay
# runs the pair in a clean interpreter, whatever the replaying process did before.

def ukey(s):
    if isinstance(s, int):
        return ()
    return tuple(sorted(ukey(c) for c in s))


def _caterpillar(n):
    s = (0, 1)
    for i in range(2, n):
        s = (s, i)
    return s


def _balanced(lo, hi):
    if hi - lo == 1:
        return lo
    mid = (lo + hi) // 2
    return (_balanced(lo, mid), _balanced(mid, hi))


def height_snap(shape):
    """ultrametric snapshot: height of an internal node = 1 + the largest child height"""
    def height(s):
        return 0 if isinstance(s, int) else 1 + max(height(c) for c in s)

    def rec(s, parent_h):
        h = height(s)
        L = None if parent_h is None else float(parent_h - h)
        if isinstance(s, int):
            return ("t%d" % s, None, L, ())
        return (None, None, L, tuple(rec(c, h) for c in s))
    return rec(shape, None)


_MENU = {}


def cross_menu(tier):
    if tier in _MENU:
        return _MENU[tier]
    b = bounds(tier)
    out, seen = [], set()
    for n in range(2, b["cross_binary_up_to"] + 1):
        for s in U.shapes(n):
            if not (U.is_binary(s) or n <= b["cross_polytomies_up_to"]):
                continue
            k = ukey(s)
            if k not in seen:
                seen.add(k)
                out.append(("%d-leaf:%s" % (n, ref.to_newick(ref.mk(s), False)), height_snap(s)))
    for name in b["cross_big_trees"]:
        n = int(name[-2:])
        s = _caterpillar(n) if name.startswith("cat") else _balanced(0, n)
        out.append((name, height_snap(s)))
    _MENU[tier] = out
    return out


def cross_inprocess(case):
    """[g on T1 (if T1 is in g's domain); g on T2] here and now; the violations of the second"""
    s1, s2, g = tup(case["tree"]), tup(case["tree2"]), case["g"]
    if g in second_calls(s1, len(ref.leaves(s1))):
        CHECKS[g["kind"]](dict(g, tree=s1, exact=True), _Capture())
    cap = _Capture()
    CHECKS[g["kind"]](dict(g, tree=s2, exact=True), cap)
    return [[sig, msg] for sig, msg in cap.got]


def cross_clean_process(case):
    """the same two calls in a fresh interpreter that imports the same dendropy"""
    src = os.path.dirname(os.path.dirname(os.path.abspath(dendropy.__file__)))
    verif = os.path.dirname(os.path.dirname(os.path.abspath(__file__)))
    code = ("import sys, json; sys.path[:0] = %r; import dendropy, props.C17 as M; "
            "print('@@' + json.dumps([dendropy.__file__, M.cross_inprocess(json.loads(sys.stdin.read()))]))" % ([src, verif],))
    env = dict(os.environ, PYTHONHASHSEED="0", PYTHONDONTWRITEBYTECODE="1")
    r = subprocess.run([sys.executable, "-c", code], input=json.dumps({"tree": case["tree"], "tree2": case["tree2"], "g": case["g"]}),
                       capture_output=True, text=True, timeout=600, env=env)
    lines = [l for l in r.stdout.splitlines() if l.startswith("@@")]
    if r.returncode != 0 or not lines:
        raise RuntimeError("clean-process run failed: rc=%s\n%s" % (r.returncode, r.stderr[-2000:]))
    where, got = json.loads(lines[-1][2:])
    if os.path.abspath(where) != os.path.abspath(dendropy.__file__):
        raise RuntimeError("clean process imported %s, this process %s" % (where, dendropy.__file__))
    return got


_CROSS_VALIDATED = {}
CROSS_VALIDATIONS_PER_CHUNK_AND_SIGNATURE = 2


def check_cross(case, ctx, capped=False):
    got = cross_inprocess(case)
    if not got:
        return
    ctx.count("cross_failures_seen_in_worker")
    if capped and all(_CROSS_VALIDATED.get(sig, 0) >= CROSS_VALIDATIONS_PER_CHUNK_AND_SIGNATURE for sig, _ in got):
        ctx.count("cross_failures_not_validated_beyond_cap")
        return
    for sig, _ in got:
        _CROSS_VALIDATED[sig] = _CROSS_VALIDATED.get(sig, 0) + 1
    clean = cross_clean_process(case)
    if not clean:
        ctx.count("cross_failures_not_attributable_to_the_pair")
        return
    s1, s2 = tup(case["tree"]), tup(case["tree2"])
    for sig, msg in clean:
        ctx.violation("after-other-tree|" + sig,
                      "in a fresh process, after the same call on %s: %s" % (ref.to_newick(s1, False), msg), case)


def run_cross(chunk, ctx):
    menu = cross_menu(chunk["tier"])
    name1, s1 = menu[chunk["lo"]]
    _CROSS_VALIDATED.clear()
    for name2, s2 in menu:
        if s2 == s1:
            continue
        ctx.count("cross_ordered_tree_pairs")
        for g in second_calls(s2, len(ref.leaves(s2))):
            ctx.case(("cross", name1, name2, repr(sorted(g.items(), key=repr))), True)
            ctx.count("cross_call_pairs")
            check_cross({"kind": "cross", "tree": s1, "tree2": s2, "first": name1, "second": name2, "g": g}, ctx, capped=True)
    if chunk["lo"] in (3, len(menu) - 1):
        ctx.sample({"layer": "cross", "primed_with": name1, "then": [nm for nm, _ in menu if nm != name1],
                    "calls": [g_name(g) for g in second_calls(s1, len(ref.leaves(s1)))]}, 1)


RUNNERS = {"ult": run_ult, "pert": run_pert, "gen": run_gen, "part": run_part, "stat": run_stat, "hist": run_hist, "pure": run_pure, "clamp": run_clamp, "cross": run_cross}


def run_chunk(chunk, ctx):
    RUNNERS[chunk["kind"]](chunk, ctx)
    return None


CHECKS = {"ages": check_ages, "resolve": check_resolve, "setlen": check_setlen, "lineages": check_lineages,
          "treeness": check_treeness, "gamma": check_gamma, "gamma-history": check_gamma_history,
          "stats": check_stats, "plen": check_length_partial, "both": check_both_force, "history": check_history,
          "clamp": check_clamp, "cross": check_cross}


def replay(case, ctx):
    k = case.get("kind")
    if k not in CHECKS:
        raise ValueError("unknown case kind %r" % k)
    CHECKS[k](case, ctx)
