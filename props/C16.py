"""C16 - parsimony scores are minimal change counts and pure functions of (tree, matrix)
(DESIGN 3/C16).

Two engines in one module.

E1 (exhaustive input enumeration, run_chunk):
  * "wide"    every drawing (every root edge, every internal node as the seed of a basal
              trifurcation) and child-order variant of every unrooted bifurcating topology
              on n leaves x BOTH gap modes x ALL |S|^n columns over a symbol set S, scored
              in one call on a matrix that holds every column once; every per-character
              entry is compared with the brute-force minimum, the total with their sum.
  * "single"  the same columns as true one-column matrices (one call per column).
  * "weights" 1-3 column matrices from a column pool x every weight vector over {0,1,2}
              (and weights=None), with and without a per-character list, plus matrices
              with rows for taxa that are not on the tree / other namespace orders.
  The reference is a literal minimum over all assignments of fundamental states to the
  internal nodes (leaves take any state of their own set), see `table` / `brute`.

E2 (explicit-state BFS over scoring histories, expand):
  state  = (tree, contents of every node's cached state-set attributes);
  moves  = parsimony_score x 4 matrices (1, 2, 3, 1 columns) x gap mode x weights x per-character list,
           fitch_down_pass x 4 matrices x gap mode x {default, custom, no} attribute,
           the same two calls (reduced flag menu) x 3 degenerate matrices: no columns at all, every cell
           gap / missing, one constant column - in every position of a history,
           fitch_up_pass x {default, custom} attribute;
  oracle = the value returned on the live (used) tree equals the value the same call
           returns on a freshly built copy (which is compared with the brute force at
           depth 0).
"""
import itertools

import dendropy
from dendropy.calculate import treescore
from dendropy.model import parsimony

from mc import ref, build, hist
from mc import universe as U
from mc.budget import guarded

ID = "C16"
LEVEL = "model_checking"
EXHAUSTIVE = True
RULE = ("E1: every unrooted bifurcating topology on n labelled leaves (n up to the tier bound) x every drawing of it "
        "(root on every edge = every rooted binary tree; every internal node as seed of a basal trifurcation) x "
        "child-order variants x gaps_as_missing in {True, False} x every column of S^n for the symbol sets named in "
        "the bounds (DNA incl. ambiguity codes, gap, missing; Standard 0/1/2/?/-), scored through parsimony_score and "
        "fitch_down_pass; plus every such column as a one-column matrix; plus 1-3 column matrices from a column pool "
        "x every weight vector over {0,1,2}; a case = one (drawing, order, route, gap mode, column [tuple], weights) "
        "evaluation; distinct keys = distinct calls and distinct (topology, gap mode, column). "
        "E2: BFS over every sequence of scoring calls (alphabet in the module docstring) up to the depth bound from "
        "every start tree, states merged on (tree, cached state sets of every node); a case = one transition; "
        "non-trivial = tree has >= 3 leaves")
ASSUMPTIONS = [
    "reference semantics of symbols (harness table, not read from the library): DNA IUPAC codes are sets of A/C/G/T, "
    "'-' is a fifth state, '?' is {A,C,G,T,-}, 'N' is {A,C,G,T}; with gaps_as_missing '-' becomes {A,C,G,T} and the gap "
    "is removed from every other set; Standard: digits are states, '-' an extra state, '?' everything",
    "a leaf may take any state of its set at no cost (ambiguity codes as state sets); a change is an edge whose two "
    "ends carry different states; weights multiply the change count of their column; per-character entries are the "
    "weighted per-column minima",
    "the minimum over assignments on a tree with a degree-two root equals the minimum on the same tree with the root "
    "suppressed (used for the topology-level table of n >= 5; checked exhaustively against the table of the drawn "
    "graph, root included, for n <= 4 and on a deterministic subset of columns for n >= 5)",
    "unrooted trees are drawn with a basal trifurcation (DendroPy's representation of an unrooted binary tree; "
    "fitch_down_pass folds extra children sequentially); all other internal nodes have exactly two children",
    "E2 state = the two node attributes 'state_sets' and 'c16_sets' of every node, plus the repr of any other attribute "
    "that appears on the tree object or a node after construction; taxon_state_sets_map objects are created once per history and shared by "
    "later fitch_down_pass calls of that history (the usage the docstring recommends)",
    "fitch_down_pass with a named attribute on a tree whose leaves already carry that attribute from other data is "
    "documented to use the recorded sets: there the oracle accepts the fresh-copy value or the minimum for the "
    "recorded sets (same column count), and nothing when the recorded data has another column count; parsimony_score "
    "and fitch_down_pass(state_sets_attr_name=None) are always held to the fresh-copy value",
]
MANIFEST = {
    "engine": "E1-ENUM + E2-HIST",
    "text": ("Every bifurcating tree up to the leaf bound, in every rooting (every root edge, every basal trifurcation) "
             "and child order, is scored against every column over the symbol set (ambiguity codes, gap and missing "
             "included, both gap modes) and each per-character score is compared with the minimum over all assignments "
             "of states to internal nodes computed by brute force; totals must be the weighted sums for every weight "
             "vector over {0,1,2}.  Every sequence of up to depth scoring calls (parsimony_score, fitch_down_pass, "
             "fitch_up_pass with every matrix / gap mode / attribute choice) is executed on one tree object with "
             "visited-state hashing on the cached per-node state sets, and every score is compared with the score "
             "the same call gives on a freshly built copy."),
    "note": ("trusted: the harness's symbol-to-state-set table, the brute-force minimiser (mc-free, in this module), "
             "the root-suppression lemma cross-checked in the same run, DnaCharacterMatrix.from_dict as matrix builder"),
    "technique": "exhaustive enumeration against a brute-force minimum; explicit-state BFS over scoring histories",
}

# ---------------------------------------------------------------------------
# symbols (reference semantics, independent of the library's alphabets)

DNA_SETS = {"A": "A", "C": "C", "G": "G", "T": "T", "R": "AG", "Y": "CT", "M": "AC", "W": "AT", "S": "CG", "K": "GT",
            "V": "ACG", "H": "ACT", "D": "AGT", "B": "CGT", "N": "ACGT", "-": "-", "?": "ACGT-"}
STD_SETS = dict((str(d), str(d)) for d in range(10))
STD_SETS.update({"-": "-", "?": "0123456789-"})
MTYPES = {"dna": (dendropy.DnaCharacterMatrix, DNA_SETS, "ACGT", "-"),
          "std": (dendropy.StandardCharacterMatrix, STD_SETS, "0123456789", "-")}
ALPHABETS = {"dna8": ("dna", "ACGTRN-?"), "dna17": ("dna", "ACGTRYMWSKVHDBN-?"), "dna6": ("dna", "ACGR-?"),
             "dna5": ("dna", "ACR-?"), "std5": ("std", "012?-")}


def symset(mtype, sym, gaps):
    _cls, sets, fund, gap = MTYPES[mtype]
    if gaps:
        if sym == gap:
            return frozenset(fund)
        return frozenset(sets[sym]) - frozenset(gap)
    return frozenset(sets[sym])


def universe(mtype, gaps):
    _cls, _sets, fund, gap = MTYPES[mtype]
    return fund if gaps else fund + gap


def colclass(mtype, col):
    fund = MTYPES[mtype][2]
    return "plain-states" if all(ch in fund for ch in col) else "ambiguity-or-gap"


def bounds(tier):
    if tier == "quick":
        return {"wide": [[2, "dna8", "all"], [3, "dna8", "all"], [4, "dna8", "all"], [5, "dna8", "base+rev"],
                         [5, "dna5", "swaps"], [2, "dna17", "all"], [3, "dna17", "all"],
                         [2, "std5", "all"], [3, "std5", "all"], [4, "std5", "base+rev"]],
                "single": [[1, "dna8"], [2, "dna8"], [3, "dna8"], [4, "dna8"], [3, "std5"]],
                "weights_max_leaves": 4, "weights": [0, 1, 2], "pool_columns": 5,
                "e2_max_leaves": 4, "e2_depth": 3, "e2_matrices": 7, "e2_extra": {"leaves": 5, "depth": 2, "matrices": 5}}
    return {"wide": [[2, "dna8", "all"], [3, "dna8", "all"], [4, "dna8", "all"], [5, "dna8", "base+rev"],
                     [5, "dna5", "swaps"], [6, "dna6", "base+rev"], [2, "dna17", "all"], [3, "dna17", "all"],
                     [4, "dna17", "base+rev"], [2, "std5", "all"], [3, "std5", "all"], [4, "std5", "all"],
                     [5, "std5", "base+rev"]],
            "single": [[1, "dna8"], [2, "dna8"], [3, "dna8"], [4, "dna8"], [5, "dna5"], [3, "std5"], [4, "std5"]],
            "weights_max_leaves": 5, "weights": [0, 1, 2], "pool_columns": 5,
            "e2_max_leaves": 4, "e2_depth": 5, "e2_matrices": 7, "e2_extra": {"leaves": 5, "depth": 3, "matrices": 7}}


def tup(x):
    if isinstance(x, list):
        return tuple(tup(y) for y in x)
    return x


# ---------------------------------------------------------------------------
# reference: brute-force minimum

def graph(shape, suppress_root=False):
    """(k, iedges, lpar): internal nodes 0..k-1 (pre-order, root first), edges between internal
    nodes, and the internal node each leaf hangs on.  With suppress_root a degree-two root is
    removed (its two neighbours are joined)."""
    if isinstance(shape, int):
        return (0, [], {})
    iedges = []
    lpar = {}
    counter = [0]

    def rec(s, parent):
        if isinstance(s, int):
            lpar[s] = parent
            return
        i = counter[0]
        counter[0] += 1
        if parent is not None:
            iedges.append((parent, i))
        for c in s:
            rec(c, i)
    rec(shape, None)
    k = counter[0]
    if suppress_root and len(shape) == 2 and k > 1:
        inner = [j for (p, j) in iedges if p == 0]
        hang = [l for l, p in lpar.items() if p == 0]
        rest = [(p - 1, j - 1) for (p, j) in iedges if p != 0]
        if len(inner) == 2:
            rest.append((inner[0] - 1, inner[1] - 1))
            lp = dict((l, p - 1) for l, p in lpar.items())
        else:
            assert len(inner) == 1 and len(hang) == 1
            lp = dict((l, p - 1) for l, p in lpar.items() if p != 0)
            lp[hang[0]] = inner[0] - 1
        return (k - 1, rest, lp)
    return (k, iedges, lpar)


def brute(g, leafsets, univ):
    """min over all assignments of states of `univ` to the internal nodes of g of the number of
    edges whose ends differ; leaf i may take any state of leafsets[i]."""
    k, iedges, lpar = g
    if k == 0:
        return 0
    best = None
    n = len(leafsets)
    for a in itertools.product(univ, repeat=k):
        c = 0
        for i, j in iedges:
            if a[i] != a[j]:
                c += 1
        for l in range(n):
            if a[lpar[l]] not in leafsets[l]:
                c += 1
        if best is None or c < best:
            best = c
    return best


def table(g, n, mtype, syms, gaps):
    """brute() for every column of syms^n at once (column index = base-|syms| number, leaf 0 most
    significant): for each assignment the cost is separable over the leaves."""
    size = len(syms) ** n
    k, iedges, lpar = g
    if k == 0:
        return [0] * size
    sets = [symset(mtype, x, gaps) for x in syms]
    best = None
    for a in itertools.product(universe(mtype, gaps), repeat=k):
        c = 0
        for i, j in iedges:
            if a[i] != a[j]:
                c += 1
        vec = [c]
        for l in range(n):
            s = a[lpar[l]]
            m = [0 if s in st else 1 for st in sets]
            vec = [v + x for v in vec for x in m]
        best = vec if best is None else list(map(min, best, vec))
    return best


def column_at(syms, n, idx):
    S = len(syms)
    return "".join(syms[(idx // S ** (n - 1 - i)) % S] for i in range(n))


def expected_columns(shape, mtype, cols, gaps, memo=None):
    g = None
    out = []
    for col in cols:
        key = (shape, mtype, col, gaps)
        if memo is not None and key in memo:
            out.append(memo[key])
            continue
        if g is None:
            g = graph(shape)
        v = brute(g, [symset(mtype, ch, gaps) for ch in col], universe(mtype, gaps))
        if memo is not None:
            memo[key] = v
        out.append(v)
    return out


# ---------------------------------------------------------------------------
# the universe of drawings

_topo_cache = {}


def topologies(n):
    """[{rep, rooted: [shapes], tri: [shapes]}] - every unrooted bifurcating topology on n leaves with
    all its rooted drawings (one per edge) and all its basal-trifurcation drawings (one per internal node)."""
    if n in _topo_cache:
        return _topo_cache[n]
    if n == 1:
        res = [{"rooted": [0], "tri": []}]
    else:
        groups = {}
        order = []
        for s in U.shapes(n, binary_only=True):
            k = ref.topology_key(ref.mk(s), False)
            if k not in groups:
                groups[k] = []
                order.append(k)
            groups[k].append(s)
        res = []
        for k in order:
            rooted = groups[k]
            tri = [d for d in U.redrawings(rooted[0]) if len(d) == 3] if n >= 3 else []
            assert len(rooted) == 2 * n - 3 and len(tri) == max(0, n - 2), (n, len(rooted), len(tri))
            for d in tri:
                assert ref.topology_key(ref.mk(d), False) == k
            res.append({"rooted": rooted, "tri": tri})
        assert sum(len(t["rooted"]) for t in res) == U.EXPECTED_BINARY[n]
    _topo_cache[n] = res
    return res


def drawings(n, ti):
    t = topologies(n)[ti]
    return list(t["rooted"]) + list(t["tri"])


def order_variants(shape, mode):
    if isinstance(shape, int):
        return [shape]
    if mode == "all":
        out = [shape]
        for o in U.all_orders(shape):
            if o not in out:
                out.append(o)
        return out
    rev = U.reverse_all(shape)
    if mode == "base+rev":
        return [shape, rev] if rev != shape else [shape]
    if mode == "swaps":
        return [shape] + [o for o in U.order_variants(shape) if o != shape and o != rev]
    raise ValueError(mode)


def rootkind(shape):
    if isinstance(shape, int):
        return "single-node"
    return "root-bifurcation" if len(shape) == 2 else "root-trifurcation"


def newick(shape):
    if isinstance(shape, int):
        return U.LABELS[shape]
    return "(" + ",".join(newick(c) for c in shape) + ")"


# ---------------------------------------------------------------------------
# building and calling

CUSTOM_ATTR = "c16_sets"
ROUTES = ["ps+list", "down(None)+list", "down(default)+list", "ps", "down(custom)+list"]
SITE = {"ps+list": "parsimony_score", "ps": "parsimony_score",
        "down(None)+list": "fitch_down_pass[state_sets_attr_name=None]",
        "down(default)+list": "fitch_down_pass[state_sets]",
        "down(custom)+list": "fitch_down_pass[custom attribute]"}


def route_for(vi):
    if vi < 2:
        return ROUTES[vi]
    return ROUTES[2 + (vi - 2) % 3]


def make_tree(shape, ns):
    return build.build_tree((len(shape) == 2 if not isinstance(shape, int) else True, ref.mk(shape)), ns)


def make_matrix(mtype, ns, rows):
    return MTYPES[mtype][0].from_dict(rows, taxon_namespace=ns)


def call_route(route, tree, mat, smap, gaps, weights):
    """-> (total, per-character list or None).  smap: callable giving the shared taxon_state_sets_map."""
    if route == "ps+list":
        l = []
        s = treescore.parsimony_score(tree, mat, gaps_as_missing=gaps, weights=weights, score_by_character_list=l)
        return (s, l)
    if route == "ps":
        if weights is None:
            return (treescore.parsimony_score(tree, mat, gaps_as_missing=gaps), None)
        return (treescore.parsimony_score(tree, mat, gaps_as_missing=gaps, weights=weights), None)
    l = []
    kw = {}
    if route == "down(None)+list":
        kw["state_sets_attr_name"] = None
    elif route == "down(custom)+list":
        kw["state_sets_attr_name"] = CUSTOM_ATTR
    s = treescore.fitch_down_pass(tree.postorder_node_iter(), taxon_state_sets_map=smap(), weights=weights,
                                  score_by_character_list=l, **kw)
    return (s, l)


def judge(ctx, case, site, gaps, shape, mtype, res, exp_cols, weights, cols_of=None, alt_exp=None):
    """Compare one call's outcome with the per-column minima; at most one violation per call.
    Signature = call site | kind of failure | root kind | weighted or not.  alt_exp() gives the
    per-column minima under the opposite gap mode (to name a gap-mode mix-up as such).
    Returns the total (or None when the call did not return one)."""
    site = site.split("[")[0]
    feat = "%s|%s" % (rootkind(shape), "unweighted" if weights is None else "weighted")
    st, val = res
    if st == "hang":
        ctx.violation("%s|hang" % site, "step budget exceeded at %s (tree %s)" % (val, newick(shape)), case)
        return None
    if st == "exc":
        ctx.violation("%s|exception:%s|%s" % (site, type(val).__name__, feat),
                      "raised %r on tree %s" % (val, newick(shape)), case)
        return None
    total, lst = val
    w = weights if weights is not None else [1] * len(exp_cols)
    exp_list = exp_cols if weights is None else [wi * e for wi, e in zip(w, exp_cols)]
    exp_total = sum(exp_list)
    tail = " [gaps_as_missing=%s, weights=%r]" % (bool(gaps), weights)

    def gapmix():
        if alt_exp is None or weights is not None:
            return None
        alt = alt_exp()
        alt_list = [wi * e for wi, e in zip(w, alt)]
        if sum(1 for x, y in zip(alt_list, exp_list) if x != y) < 4:
            return None          # too few discriminating columns to name the cause
        if (lst is None or lst == alt_list) and total == sum(alt_list):
            return "score-as-if-gaps-were-%s" % ("states" if gaps else "missing-data")
        return None
    if lst is not None and len(lst) != len(exp_list):
        ctx.violation("%s|per-character-list-length|%s" % (site, feat),
                      "per-character list has %d entries for %d columns (tree %s)%s" % (len(lst), len(exp_list), newick(shape), tail), case)
    elif lst is not None and lst != exp_list:
        bad = [i for i in range(len(lst)) if lst[i] != exp_list[i]]
        i = bad[0]
        col = cols_of(i) if cols_of else "?"
        c2 = dict(case, witness_column=col, witness_index=i, mismatching_columns=len(bad))
        ctx.violation("%s|%s|%s" % (site, gapmix() or "per-character-score-not-minimal", feat),
                      "column %s (leaves %s) on tree %s: per-character score %r, minimum over all internal assignments "
                      "%s%r (%d of %d columns differ)%s" % (col, "".join(U.LABELS[:len(col)]), newick(shape), lst[i],
                                                          "x weight = " if weights is not None else "", exp_list[i], len(bad), len(lst), tail), c2)
    elif lst is not None and sum(lst) != total:
        ctx.violation("%s|per-character-list-does-not-sum-to-total|%s" % (site, feat),
                      "per-character scores sum to %r, returned total %r (tree %s)%s" % (sum(lst), total, newick(shape), tail), case)
    elif total != exp_total or isinstance(total, bool):
        ctx.violation("%s|%s|%s" % (site, gapmix() or "score-not-minimal", feat),
                      "score %r, weighted sum of per-column minima %r (tree %s, %d columns%s)%s" % (
                          total, exp_total, newick(shape), len(exp_list),
                          "" if len(exp_list) > 3 or cols_of is None else ": " + " ".join(cols_of(i) for i in range(len(exp_list))), tail), case)
    return total


# ---------------------------------------------------------------------------
# E1 "wide": all columns in one matrix

def wide_rows(syms, n):
    S = len(syms)
    rows = {}
    for i in range(n):
        inner = S ** (n - 1 - i)
        rows[U.LABELS[i]] = "".join(ch * inner for ch in syms) * (S ** i)
    return rows


class Shared(object):
    """namespace + wide matrix + lazily built shared state-set map for one (n, alphabet, gap mode)"""

    def __init__(self, n, alph, gaps):
        self.n, self.alph, self.gaps = n, alph, gaps
        self.mtype, self.syms = ALPHABETS[alph]
        self.ns, _bit = build.make_namespace(U.LABELS[:n])
        self.mat = make_matrix(self.mtype, self.ns, wide_rows(self.syms, n))
        self._map = None
        self.tables = {}

    def smap(self):
        if self._map is None:
            self._map = self.mat.taxon_state_sets_map(gaps_as_missing=self.gaps)
        return self._map

    def table_for(self, shape, suppress):
        g = graph(shape, suppress)
        key = (g[0], tuple(sorted(tuple(sorted(e)) for e in g[1])), tuple(sorted(g[2].items())))
        if key not in self.tables:
            self.tables[key] = table(g, self.n, self.mtype, self.syms, self.gaps)
        return self.tables[key]


def check_wide(case, ctx, shared=None, tab=None):
    n, gaps, alph, route = case["n"], bool(case["gaps"]), case["alph"], case["route"]
    shape = tup(case["shape"])
    if shared is None:
        shared = Shared(n, alph, gaps)
    if tab is None:
        tab = shared.table_for(shape, False)      # replay: the literal brute force on the drawn graph
    site = SITE[route]
    res = guarded(lambda: call_route(route, make_tree(shape, shared.ns), shared.mat, shared.smap, gaps, None), wall=120.0)
    return judge(ctx, case, site, gaps, shape, shared.mtype, res, tab, None,
                 cols_of=lambda i: column_at(shared.syms, n, i),
                 alt_exp=lambda: table(graph(shape, True), n, shared.mtype, shared.syms, not gaps))


def run_wide(chunk, ctx):
    n, ti, gaps, alph, mode = chunk["n"], chunk["topo"], bool(chunk["gaps"]), chunk["alph"], chunk["mode"]
    shared = Shared(n, alph, gaps)
    ds = drawings(n, ti)
    size = len(shared.syms) ** n
    # topology-level table: on the root-suppressed graph of the first drawing
    tab = shared.table_for(ds[0], True)
    aux = []
    part, parts = chunk["part"]
    if part == 0:
        for idx in range(size):
            ctx.case(("col", n, ti, gaps, alph, idx), nontrivial=n >= 3, n=0)
    for di, d in enumerate(ds):
        if di % parts != part:
            continue
        # cross-check of the reference: table of the drawn graph (degree-two root included)
        if n <= 4:
            assert shared.table_for(d, False) == tab, ("reference tables disagree", n, d)
            ctx.count("reference_crosschecks_columns", size)
        else:
            g = graph(d)
            step = max(1, size // 24)
            for idx in range(di % step, size, step):
                col = column_at(shared.syms, n, idx)
                v = brute(g, [symset(shared.mtype, ch, gaps) for ch in col], universe(shared.mtype, gaps))
                assert v == tab[idx], ("reference tables disagree", n, d, col)
                ctx.count("reference_crosschecks_columns")
        for vi, o in enumerate(order_variants(d, mode)):
            route = route_for(vi)
            case = {"kind": "wide", "n": n, "shape": o, "gaps": gaps, "alph": alph, "route": route}
            ctx.case(("wide", n, o, gaps, alph, route), nontrivial=n >= 3, n=size)
            ctx.count("wide_calls")
            ctx.count("wide_calls:" + SITE[route])
            ctx.count("columns_scored_in_wide_matrices", size)
            total = check_wide(case, ctx, shared, tab)
            if total is not None:
                aux.append((n, ti, gaps, alph, di, vi, o, route, total))
        ctx.count("drawings:%s" % rootkind(d))
    if part == 0 and ti == 0 and n >= 4 and alph == "dna8" and gaps == (n == 4):
        ctx.sample({"layer": "wide", "tree": newick(ds[-1]), "alphabet": shared.syms, "gaps_as_missing": gaps,
                    "columns": size, "first_minima": tab[:12], "sum_of_minima": sum(tab)}, 2)
    return aux


def post_wide(auxes, ctx):
    """the statement's clause 'independent of root position and child order', literally: totals over all
    columns of calls through the same function on different drawings of one unrooted tree"""
    groups = {}
    for aux in auxes:
        for rec in (aux or ()):
            if isinstance(rec, tuple) and len(rec) == 9:
                groups.setdefault(rec[:4] + (SITE[rec[7]].split("[")[0],), []).append(rec)
    for key in sorted(groups):
        recs = sorted(groups[key], key=lambda r: (r[4], r[5]))
        ctx.count("rooting_order_classes_compared")
        ctx.count("drawings_compared_within_classes", len(recs))
        base = recs[0]
        seen_d = {}
        for r in recs:
            seen_d.setdefault(r[4], r)
            mk = lambda x: {"kind": "wide", "n": x[0], "shape": x[6], "gaps": x[2], "alph": x[3], "route": x[7]}
            if r[8] != seen_d[r[4]][8]:
                a = seen_d[r[4]]
                ctx.violation("%s|score-depends-on-child-order|%s" % (key[4], rootkind(r[6])),
                              "total over all columns %r for %s and %r for %s" % (a[8], newick(a[6]), r[8], newick(r[6])),
                              {"kind": "pair", "a": mk(a), "b": mk(r), "what": "child-order"})
            elif r[8] != base[8]:
                ctx.violation("%s|score-depends-on-root-position" % key[4],
                              "total over all columns %r for %s and %r for %s (same unrooted tree)" % (
                                  base[8], newick(base[6]), r[8], newick(r[6])),
                              {"kind": "pair", "a": mk(base), "b": mk(r), "what": "root-position"})


# ---------------------------------------------------------------------------
# E1 "call": explicit small matrices

ROWS_VARIANTS = [None, "extra_row_first", "extra_row_last", "extra_taxon_no_row", "reversed_namespace"]


def check_call(case, ctx, expect=None, memo=None):
    """case: n, shape, mtype, cols [one string of n symbols per column], gaps, weights, route, rows"""
    n, gaps, route, mtype = case["n"], bool(case["gaps"]), case["route"], case["mtype"]
    shape = tup(case["shape"])
    cols = list(case["cols"])
    weights = case.get("weights")
    rv = case.get("rows")
    labels = U.LABELS[:n]
    cfg = {None: "exact", "extra_row_first": "extra_low", "extra_row_last": "extra_high",
           "extra_taxon_no_row": "extra_low", "reversed_namespace": "reversed"}[rv]
    filler = "T" if mtype == "dna" else "1"

    def run():
        ns, _bit = build.make_namespace(labels, cfg)
        rows = {}
        if rv == "extra_row_first":
            rows["_lo"] = filler * len(cols)
        order = list(reversed(labels)) if rv == "reversed_namespace" else labels
        for l in order:
            i = labels.index(l)
            rows[l] = "".join(c[i] for c in cols)
        if rv == "extra_row_last":
            rows["_hi"] = filler * len(cols)
        mat = make_matrix(mtype, ns, rows)
        tree = make_tree(shape, ns)
        return call_route(route, tree, mat, lambda: mat.taxon_state_sets_map(gaps_as_missing=gaps), gaps,
                          None if weights is None else list(weights))
    res = guarded(run, wall=30.0)
    if expect is None:
        expect = expected_columns(shape, mtype, cols, gaps, memo)
    return judge(ctx, case, SITE[route], gaps, shape, mtype, res, expect, weights, cols_of=lambda i: cols[i],
                 alt_exp=lambda: expected_columns(shape, mtype, cols, not gaps, memo))


def run_single(chunk, ctx):
    n, ti, gaps, alph = chunk["n"], chunk["topo"], bool(chunk["gaps"]), chunk["alph"]
    mtype, syms = ALPHABETS[alph]
    ds = drawings(n, ti)
    size = len(syms) ** n
    tab = table(graph(ds[0], True), n, mtype, syms, gaps)
    for di, d in enumerate(ds):
        for idx in range(size):
            col = column_at(syms, n, idx)
            case = {"kind": "call", "n": n, "shape": d, "mtype": mtype, "cols": [col], "gaps": gaps, "weights": None,
                    "route": "ps+list", "rows": None}
            ctx.case(("call", n, d, col, gaps, None, "ps+list", None), nontrivial=n >= 3)
            ctx.count("single_column_matrix_calls")
            check_call(case, ctx, expect=[tab[idx]])
    return None


def pool(n, k):
    pats = [lambda i: "AC"[i % 2],
            lambda i: "A" if i < (n + 1) // 2 else "C",
            lambda i: "ARGN"[i % 4],
            lambda i: "-A?C"[i % 4],
            lambda i: "ACGT-"[i % 5],
            lambda i: "?-NR"[i % 4]]
    return ["".join(p(i) for i in range(n)) for p in pats[:k]]


def run_weights(chunk, ctx):
    n, ti, gaps = chunk["n"], chunk["topo"], bool(chunk["gaps"])
    b = bounds(chunk["tier"])
    P = pool(n, b["pool_columns"])
    W = b["weights"]
    memo = {}
    ds = drawings(n, ti)
    for di, d in enumerate(ds):
        for k in (1, 2, 3):
            for cols in itertools.product(P, repeat=k):
                wvs = [None] + [list(w) for w in itertools.product(W, repeat=k)]
                for wv in wvs:
                    routes = ["ps+list", "ps"] if k <= 2 else ["ps+list"]
                    if k == 2 and wv is not None and wv[0] != wv[1]:
                        routes.append("down(None)+list")
                    for route in routes:
                        case = {"kind": "call", "n": n, "shape": d, "mtype": "dna", "cols": list(cols), "gaps": gaps,
                                "weights": wv, "route": route, "rows": None}
                        ctx.case(("call", n, d, cols, gaps, None if wv is None else tuple(wv), route, None), nontrivial=n >= 3)
                        ctx.count("weighted_calls" if wv is not None else "multi_column_unweighted_calls")
                        check_call(case, ctx, memo=memo)
        # degenerate matrices: no columns; every cell gap / missing; constant columns
        D = ["-" * n, "?" * n, "".join("-?"[i % 2] for i in range(n)), "A" * n, "N" * n]
        deg = [((), [None, []])]
        for k in (1, 2):
            for cols in itertools.product(D, repeat=k):
                deg.append((cols, [None, [2, 1][:k]]))
        for cols, wvs in deg:
            for wv in wvs:
                for route in ROUTES:
                    case = {"kind": "call", "n": n, "shape": d, "mtype": "dna", "cols": list(cols), "gaps": gaps,
                            "weights": wv, "route": route, "rows": None}
                    ctx.case(("call", n, d, cols, gaps, None if wv is None else tuple(wv), route, None), nontrivial=n >= 3)
                    ctx.count("degenerate_matrix_calls")
                    if not cols:
                        ctx.count("zero_column_matrix_calls")
                    check_call(case, ctx, memo=memo)
        # rows for taxa that are not on the tree, other namespace orders
        for cols in itertools.product(P, repeat=2):
            for rv in ROWS_VARIANTS[1:]:
                for wv in (None, [2, 1]):
                    case = {"kind": "call", "n": n, "shape": d, "mtype": "dna", "cols": list(cols), "gaps": gaps,
                            "weights": wv, "route": "ps+list", "rows": rv}
                    ctx.case(("call", n, d, cols, gaps, None if wv is None else tuple(wv), "ps+list", rv), nontrivial=n >= 3)
                    ctx.count("row_variant_calls")
                    check_call(case, ctx, memo=memo)
    if ti == 0 and n >= 4 and not gaps:
        ctx.sample({"layer": "weights", "tree": newick(ds[0]), "pool": P, "gaps_as_missing": gaps,
                    "minima_of_pool_columns": expected_columns(ds[0], "dna", P, gaps, memo)}, 2)
    return None


def run_chunk(chunk, ctx):
    k = chunk["kind"]
    if k == "wide":
        return run_wide(chunk, ctx)
    if k == "single":
        return run_single(chunk, ctx)
    if k == "weights":
        return run_weights(chunk, ctx)
    raise ValueError(k)


def e1_chunks(tier):
    b = bounds(tier)
    out = []
    for n, alph, mode in b["wide"]:
        size = len(ALPHABETS[alph][1]) ** n
        for ti in range(len(topologies(n))):
            nd = len(drawings(n, ti))
            parts = 1
            if size * nd >= 150000 and n <= 5:      # n = 6: the reference table dominates, one chunk per topology
                parts = min(nd, max(2, (size * nd) // 100000))
            for gaps in (True, False):
                for p in range(parts):
                    out.append({"kind": "wide", "n": n, "topo": ti, "gaps": gaps, "alph": alph, "mode": mode,
                                "part": [p, parts], "tier": tier})
    for n, alph in b["single"]:
        for ti in range(len(topologies(n))):
            for gaps in (True, False):
                out.append({"kind": "single", "n": n, "topo": ti, "gaps": gaps, "alph": alph, "tier": tier})
    for n in range(1, b["weights_max_leaves"] + 1):
        for ti in range(len(topologies(n))):
            for gaps in (True, False):
                out.append({"kind": "weights", "n": n, "topo": ti, "gaps": gaps, "tier": tier})
    return out


# ---------------------------------------------------------------------------
# E2: scoring histories on one tree object

ATTRS = {"default": "state_sets", "custom": CUSTOM_ATTR}
E2_WEIGHTS = [[2], [2, 1], [2, 1, 0], [1], [], [1, 2], [2]]
E2_DEGENERATE_FROM = 4      # M4 no columns, M5 every cell gap / missing, M6 one constant column


def e2_cols(n):
    P = pool(n, 6)
    return [[P[0]], [P[1], P[4]], [P[2], P[3], P[4]], [P[3]],
            [], ["".join("-?"[i % 2] for i in range(n)), "?" * n], ["A" * n]]


def e2_start_shape(start):
    n, kind, idx = start
    if kind == "r":
        return U.shapes(n, binary_only=True)[idx]
    tri = [d for t in topologies(n) for d in t["tri"]]
    return tri[idx]


def e2_starts(nmin, nmax):
    out = []
    for n in range(nmin, nmax + 1):
        for i in range(len(U.shapes(n, binary_only=True))):
            out.append((n, "r", i))
        if n >= 3:
            for i in range(sum(len(t["tri"]) for t in topologies(n))):
                out.append((n, "u", i))
    return out


class Live(object):
    def __init__(self, start):
        start = tuple(start)
        self.start = start
        n = start[0]
        self.n = n
        self.shape = e2_start_shape(start)
        self.ns, _bit = build.make_namespace(U.LABELS[:n])
        self.tree = make_tree(self.shape, self.ns)
        self.cols = e2_cols(n)
        self.mats = [make_matrix("dna", self.ns, dict((U.LABELS[i], "".join(c[i] for c in cols)) for i in range(n)))
                     for cols in self.cols]
        self.maps = {}
        self.nodes = []

        def rec(nd):
            self.nodes.append(nd)
            for c in nd._child_nodes:
                rec(c)
        rec(self.tree._seed_node)
        self.base_attrs = set(vars(self.nodes[0]))
        self.base_tree_attrs = set(vars(self.tree))

    def smap(self, mi, gaps):
        k = (mi, bool(gaps))
        if k not in self.maps:
            self.maps[k] = self.mats[mi].taxon_state_sets_map(gaps_as_missing=bool(gaps))
        return self.maps[k]

    def cache(self, attr):
        out = []
        for nd in self.nodes:
            v = vars(nd).get(attr)
            if v is None:
                out.append(None)
            else:
                out.append(tuple(tuple(sorted(s)) for s in v))
        return tuple(out)

    def extras(self):
        """any other attribute that appeared on the tree object or on a node since it was built"""
        out = []
        for name in sorted(set(vars(self.tree)) - self.base_tree_attrs):
            out.append(("tree", name, repr(vars(self.tree)[name])))
        for i, nd in enumerate(self.nodes):
            for name in sorted(set(vars(nd)) - self.base_attrs - set(ATTRS.values())):
                out.append((i, name, repr(vars(nd)[name])))
        return tuple(out)

    def key(self):
        return (self.start, self.cache(ATTRS["default"]), self.cache(ATTRS["custom"]), self.extras())

    def has_all(self, attr):
        return all(attr in vars(nd) for nd in self.nodes)

    def leaf_cache(self, attr):
        """{leaf index: tuple of frozensets} for leaves that carry attr"""
        out = {}
        for nd in self.nodes:
            if not nd._child_nodes and attr in vars(nd):
                out[U.LABELS.index(nd.taxon._label)] = tuple(frozenset(s) for s in vars(nd)[attr])
        return out

    def stale(self, attr, mi, gaps):
        """some leaf carries attr with sets other than those of matrix mi under this gap mode"""
        lc = self.leaf_cache(attr)
        if not lc:
            return False
        m = self.smap(mi, gaps)
        for nd in self.nodes:
            if not nd._child_nodes:
                i = U.LABELS.index(nd.taxon._label)
                if i in lc and list(lc[i]) != [frozenset(s) for s in m[nd.taxon]]:
                    return True
        return False


def e2_apply(live, op):
    """-> ('ok', (total, list) | None) | ('exc', e)"""
    try:
        k = op[0]
        if k == "ps":
            _k, mi, gaps, w, sb = op
            l = [] if sb else None
            s = parsimony.parsimony_score(live.tree, live.mats[mi], gaps_as_missing=bool(gaps),
                                          weights=list(E2_WEIGHTS[mi]) if w else None, score_by_character_list=l)
            return ("ok", (s, l))
        if k == "down":
            _k, mi, gaps, attr = op
            l = []
            kw = {}
            if attr == "none":
                kw["state_sets_attr_name"] = None
            elif attr == "custom":
                kw["state_sets_attr_name"] = CUSTOM_ATTR
            s = parsimony.fitch_down_pass(live.tree.postorder_node_iter(), taxon_state_sets_map=live.smap(mi, gaps),
                                          score_by_character_list=l, **kw)
            return ("ok", (s, l))
        if k == "up":
            kw = {} if op[1] == "default" else {"state_sets_attr_name": CUSTOM_ATTR}
            parsimony.fitch_up_pass(live.tree.preorder_node_iter(), **kw)
            return ("ok", None)
    except Exception as e:
        return ("exc", e)
    raise ValueError("unknown op %r" % (op,))


def e2_site(op):
    if op[0] == "ps":
        return "parsimony_score"
    if op[0] == "down":
        return {"none": SITE["down(None)+list"], "default": SITE["down(default)+list"], "custom": SITE["down(custom)+list"]}[op[3]]
    return "fitch_up_pass"


def e2_py(op):
    if op[0] == "ps":
        return "parsimony_score(tree, M%d, gaps_as_missing=%s%s%s)" % (
            op[1], bool(op[2]), ", weights=%r" % (E2_WEIGHTS[op[1]],) if op[3] else "", ", score_by_character_list=[]" if op[4] else "")
    if op[0] == "down":
        a = {"none": ", state_sets_attr_name=None", "default": "", "custom": ", state_sets_attr_name=%r" % CUSTOM_ATTR}[op[3]]
        return "fitch_down_pass(tree.postorder_node_iter(), taxon_state_sets_map=M%d.taxon_state_sets_map(gaps_as_missing=%s), score_by_character_list=[]%s)" % (
            op[1], bool(op[2]), a)
    return "fitch_up_pass(tree.preorder_node_iter()%s)" % ("" if op[1] == "default" else ", state_sets_attr_name=%r" % CUSTOM_ATTR)


def e2_ops(live, nmat):
    ops = []
    for mi in range(nmat):
        if mi >= E2_DEGENERATE_FROM:
            # degenerate matrices: reduced menu (their state sets do not depend on the flags)
            for gaps in (1, 0):
                ops.append(("ps", mi, gaps, 0, 0))
                ops.append(("ps", mi, gaps, 1, 1))
            for attr in ("default", "custom", "none"):
                ops.append(("down", mi, 1, attr))
            continue
        for gaps in (1, 0):
            for w in (0, 1):
                for sb in (0, 1):
                    ops.append(("ps", mi, gaps, w, sb))
            for attr in ("default", "custom", "none"):
                ops.append(("down", mi, gaps, attr))
    for a in ("default", "custom"):
        if live.has_all(ATTRS[a]):
            ops.append(("up", a))
    return ops


def rebuild(h):
    live = Live(h[0])
    for op in h[1]:
        e2_apply(live, tup(op))
    return live


_fresh_memo = {}
_exp_memo = {}


def fresh_result(start, op):
    k = (start, op)
    if k not in _fresh_memo:
        _fresh_memo[k] = e2_apply(Live(start), op)
    return _fresh_memo[k]


def _same(a, b):
    if a[0] != b[0]:
        return False
    if a[0] == "exc":
        return type(a[1]) is type(b[1])
    return a[1] == b[1]


def _show(r):
    if r[0] == "exc":
        return "raised %s: %s" % (type(r[1]).__name__, str(r[1])[:80])
    if r[1] is None:
        return "returned"
    return "returned %r%s" % (r[1][0], "" if r[1][1] is None else " per-character %r" % (r[1][1],))


def e2_step(h, op, ctx):
    """Rebuild the state of history h, apply op, compare with a fresh copy.  -> (key, history) | None"""
    start = tuple(h[0])
    op = tup(op)
    hops = tuple(tup(o) for o in h[1])
    case = {"kind": "hist", "start": list(start), "ops": [list(o) for o in hops] + [list(op)],
            "tree": newick(e2_start_shape(start)), "matrices": ["M%d=%s" % (i, "/".join(c) if c else "(no columns)") for i, c in enumerate(e2_cols(start[0]))],
            "py": [e2_py(o) for o in hops] + [e2_py(op)]}
    site = e2_site(op)

    def attempt():
        live = rebuild((start, hops))
        stale = None
        lc = None
        attr = ATTRS["default"] if op[0] == "ps" else ATTRS.get(op[3]) if op[0] == "down" else None
        if attr is not None:
            stale = live.stale(attr, op[1], op[2])
            if stale:
                lc = live.leaf_cache(attr)
        return live, stale, lc, e2_apply(live, op)
    st, v = guarded(attempt, wall=30.0)
    if st == "hang":
        ctx.violation("%s|hang" % site, "step budget exceeded at %s; history %s" % (v, case["py"]), case)
        return None
    if st == "exc":
        raise v
    live, stale, lc, res = v
    shape = live.shape
    if op[0] == "up":
        if res[0] == "exc":
            ctx.violation("fitch_up_pass|exception:%s" % type(res[1]).__name__,
                          "%s after %s" % (_show(res), case["py"][:-1]), case)
    else:
        mi, gaps = op[1], bool(op[2])
        weights = list(E2_WEIGHTS[mi]) if (op[0] == "ps" and op[3]) else None
        if not hops:
            exp = expected_columns(shape, "dna", live.cols[mi], gaps, _exp_memo)
            judge(ctx, case, site, gaps, shape, "dna", res, exp, weights, cols_of=lambda i: live.cols[mi][i],
                  alt_exp=lambda: expected_columns(shape, "dna", live.cols[mi], not gaps, _exp_memo))
            ctx.count("e2_fresh_scores_compared_with_brute_force")
        else:
            fresh = fresh_result(start, op)
            ctx.count("e2_scores_compared_with_fresh_copy")
            if stale:
                ctx.count("e2_transitions_on_leaf_sets_cached_from_other_data")
            if not _same(res, fresh):
                accepted = False
                feat = "no-stale-leaf-cache"
                if stale:
                    # what the call gives if the sets recorded on the leaves are used instead of the data passed in
                    kn = len(live.cols[mi])
                    kcs = set(len(x) for x in lc.values())
                    explained = False
                    same_dims = len(lc) == live.n and kcs == {kn}
                    if len(lc) == live.n and len(kcs) == 1:
                        kc = min(kcs)
                        g = graph(shape)
                        doc = [brute(g, [lc[i][c] for i in range(live.n)], range(5)) for c in range(kc)]
                        w = weights if weights is not None else [1] * kn
                        if res[0] == "exc":
                            explained = isinstance(res[1], IndexError) and kc > kn
                        else:
                            cands = [sum(w[c] * doc[c] for c in range(min(kc, kn)))]
                            if weights is None:
                                cands.append(sum(doc))
                            explained = res[1][0] in cands
                    feat = "as-if-scored-with-leaf-sets-recorded-by-earlier-call" if explained else "not-explained-by-recorded-leaf-sets"
                    if kcs == {0}:
                        feat = "after-zero-column-matrix"      # the leaves carry empty (falsy) state-set lists
                    if op[0] == "down" and op[3] != "none":
                        # documented re-use of recorded sets (see ASSUMPTIONS)
                        if same_dims:
                            accepted = res[0] == "ok" and res[1] == (sum(doc), doc)
                            ctx.count("e2_documented_cache_reuse_checked")
                        else:
                            accepted = True
                            ctx.count("e2_documented_cache_reuse_other_dimensions_unchecked")
                if not accepted:
                    what = "raises-unlike-fresh-copy:%s" % type(res[1]).__name__ if res[0] == "exc" else "differs-from-fresh-copy"
                    ctx.violation("%s|%s|%s" % (site, what, feat),
                                  "%s on the used tree, %s on a freshly built copy; tree %s, history %s" % (
                                      _show(res), _show(fresh), newick(shape), case["py"]), case)
    return (live.key(), (start, hops + (op,)))


def expand(chunk, ctx):
    b = bounds(chunk["tier"])
    out = []
    local = set()
    for h in chunk["hists"]:
        h = (tuple(h[0]), tuple(tup(o) for o in h[1]))
        live = rebuild(h)
        skey = live.key()
        ops = e2_ops(live, chunk.get("nmat") or b["e2_matrices"])
        ctx.count("expanded_states")
        ctx.maximum("ops_enabled_in_one_state", len(ops))
        for op in ops:
            ctx.case(("t", skey, op), nontrivial=h[0][0] >= 3)
            ctx.count("transitions")
            ctx.count("op:" + e2_site(op))
            r = e2_step(h, op, ctx)
            if r is None:
                continue
            key, nh = r
            if key == skey:
                ctx.count("transitions_self_loop")
            if key not in local:
                local.add(key)
                out.append((key, None if chunk["last"] else nh))
        if len(h[1]) >= 2 and h[0][0] >= 4:
            ctx.sample({"layer": "E2", "tree": newick(live.shape), "history": [e2_py(o) for o in h[1]],
                        "enabled_operations": len(ops),
                        "cached_state_sets_of_last_leaf": [None if x is None else [list(s) for s in x] for x in live.cache(ATTRS["default"])][-1]}, 1)
    return out


# ---------------------------------------------------------------------------

def explore(tier, runner):
    b = bounds(tier)
    aux = runner.map("run_chunk", e1_chunks(tier))
    post_wide(aux, runner.ctx)
    st = []
    for s in e2_starts(1, b["e2_max_leaves"]):
        st.append((Live(s).key(), (s, ())))
    r = hist.bfs(runner, "expand", st, b["e2_depth"], chunk_size=6, extra={"tier": tier})
    runner.notes.append("E2: BFS to depth %d from %d start trees (n <= %d): states per level %s" % (
        b["e2_depth"], len(st), b["e2_max_leaves"], r["levels"]))
    if b.get("e2_extra"):
        x = b["e2_extra"]
        st2 = [(Live(s).key(), (s, ())) for s in e2_starts(x["leaves"], x["leaves"])]
        r2 = hist.bfs(runner, "expand", st2, x["depth"], chunk_size=6, extra={"tier": tier, "nmat": x.get("matrices")})
        runner.notes.append("E2: BFS to depth %d from %d start trees (n = %d): states per level %s" % (
            x["depth"], len(st2), x["leaves"], r2["levels"]))


def replay(case, ctx):
    k = case.get("kind")
    if k == "wide":
        check_wide(case, ctx)
    elif k == "call":
        check_call(case, ctx)
    elif k == "pair":
        c = type(ctx)()
        ta = check_wide(case["a"], c)
        tb = check_wide(case["b"], c)
        site = SITE[case["a"]["route"]].split("[")[0]
        if ta is not None and tb is not None and ta != tb:
            if case.get("what") == "child-order":
                ctx.violation("%s|score-depends-on-child-order|%s" % (site, rootkind(tup(case["b"]["shape"]))),
                              "replayed pair: %r vs %r" % (ta, tb), case)
            else:
                ctx.violation("%s|score-depends-on-root-position" % site, "replayed pair: %r vs %r" % (ta, tb), case)
    elif k == "hist":
        ops = [tup(o) for o in case["ops"]]
        e2_step((tuple(case["start"]), tuple(ops[:-1])), ops[-1], ctx)
    else:
        raise ValueError("unknown case kind %r" % k)
