"""C20 - readers terminate on every input and report bad data as a parse error
(DESIGN 3/C20).  Engine E5 FAULT: every prefix, every single edit and every short
string, through every reader entry point, with a deterministic step budget as the
hang verdict."""
import io
import itertools
import re
import traceback

import dendropy
from dendropy.utility import error as dperror

from mc import ref
from mc.budget import run_limited, budgeted, REPO_SRC

ID = "C20"
LEVEL = "fault_enumeration"
EXHAUSTIVE = True
RULE = ("hand-written valid Newick/NEXUS/PHYLIP/FASTA seed documents; enumerated: every prefix (crash point of an "
        "interrupted write), every single edit at every position (delete char, replace by / insert each symbol of the "
        "token alphabet, insert each keyword, delete a token, drop a ';'-delimited span), every string up to the tier "
        "length over the Newick symbol alphabet and every token sequence up to the tier length inside each NEXUS block; "
        "each through every applicable reader entry point; a case = (entry point, text); non-trivial = text differs "
        "from its seed and is non-empty")
ASSUMPTIONS = [
    "hang verdict = more than BUDGET executed source lines inside dendropy (sys.monitoring), at least 100x the "
    "largest count observed on any input that terminated; the 0.15 s wall-clock alarm only selects inputs for that "
    "deterministic re-run and never decides",
    "accepted outcomes: a result whose trees are well formed and whose matrix dimensions agree with the dimensions "
    "the text declares; an exception of the DataParseError family; ValueError('No trees ...'/'No character data ...') "
    "documented for sources without data; TypeError/ValueError raised by argument validation before parsing is not reached "
    "because entry points are called with valid arguments only",
    "declared dimensions are read from the text by the harness only when unambiguous (one DIMENSIONS statement per kind, "
    "outside comments); otherwise the dimension oracle is skipped for that input",
]
MANIFEST = {
    "engine": "E5-FAULT",
    "text": "Fault enumeration on the real readers: all truncation points, all single edits over the token alphabet and all "
            "short strings are parsed through every entry point; termination is decided by a deterministic executed-line "
            "budget, the outcome class by exception type and by structural/dimension checks on returned objects.",
    "note": "seeds, alphabets and bounds are finite and listed in the evidence; larger documents, double edits (thorough "
            "tier only, short seeds) and resource-exhaustion by size (DESIGN section 5) are outside",
    "technique": "exhaustive fault/crash-point enumeration with deterministic step budget",
}

BUDGET = 600000

# ---------------------------------------------------------------------------
# seeds

SEEDS = {
    "newick1": ("newick", "((a:1,b:2)x:0.5,(c:1.0e-2,'d e':3)y:1)r;\n[c1](a,(b,c),'d e');\n"),
    "newick2": ("newick", "[&R] ((a,b)[&k=1],c)[x];(a,b,c):0;"),
    "nexus_trees": ("nexus", "#NEXUS\nBEGIN TAXA;\n DIMENSIONS NTAX=3;\n TAXLABELS a b 'c d';\nEND;\nBEGIN TREES;\n TRANSLATE 1 a, 2 b, 3 'c d';\n TREE t1 = [&R] ((1:1,2:2):1,3:1);\n TREE t2 = [&U] (1,2,3);\nEND;\n"),
    "nexus_dna": ("nexus", "#NEXUS\nBEGIN TAXA;\n DIMENSIONS NTAX=2;\n TAXLABELS a b;\nEND;\nBEGIN CHARACTERS;\n DIMENSIONS NCHAR=4;\n FORMAT DATATYPE=DNA MISSING=? GAP=-;\n MATRIX\n a AC-T\n b A{CG}?T\n ;\nEND;\n"),
    "nexus_std": ("nexus", "#NEXUS\nBEGIN DATA;\n DIMENSIONS NTAX=2 NCHAR=3;\n FORMAT DATATYPE=STANDARD SYMBOLS=\"012\" MISSING=?;\n MATRIX\n a 01(12)\n b 2?0\n ;\nEND;\n"),
    "nexus_cont": ("nexus", "#NEXUS\nBEGIN TAXA;\n DIMENSIONS NTAX=2;\n TAXLABELS a b;\nEND;\nBEGIN CHARACTERS;\n DIMENSIONS NCHAR=2;\n FORMAT DATATYPE=CONTINUOUS;\n MATRIX\n a 1.5 -2\n b 3e1 0\n ;\nEND;\n"),
    "nexus_inter": ("nexus", "#NEXUS\nBEGIN DATA;\n DIMENSIONS NTAX=2 NCHAR=4;\n FORMAT DATATYPE=DNA INTERLEAVE;\n MATRIX\n a AC\n b GT\n a GT\n b AC\n ;\nEND;\nBEGIN SETS;\n CHARSET s1 = 1-2;\n CHARSET s2 = 3 4;\nEND;\n"),
    "nexus_two": ("nexus", "#NEXUS\nBEGIN TAXA;\n TITLE tx;\n DIMENSIONS NTAX=2;\n TAXLABELS a b;\nEND;\nBEGIN TREES;\n LINK TAXA = tx;\n TREE t = (a,b);\nEND;\nBEGIN FOO;\n bar baz;\nEND;\nBEGIN TREES;\n TREE u = (b,a);\nEND;\n"),
    "phylip_ss": ("phylip", "2 4\na         ACGT\nb         AC-T\n"),
    "phylip_rs": ("phylip", "2 4\nalpha ACGT\nbeta  AC-T\n"),
    "phylip_ri": ("phylip", "2 4\nalpha AC\nbeta  AC\n\nGT\n-T\n"),
    "phylip_si": ("phylip", "2 4\na         AC\nb         AC\n\nGT\n-T\n"),
    "fasta1": ("fasta", ">a desc\nACGT\nAC\n>b\nAC-TNN\n"),
}
PHYLIP_OPTS = {"phylip_ss": {"strict": True}, "phylip_rs": {}, "phylip_ri": {"interleaved": True},
               "phylip_si": {"strict": True, "interleaved": True}}

SYMBOLS = list("(),;:=[]'\"{}\\-_01A ") + ["\n"]
KEYWORDS = ["BEGIN ", "END;", "MATRIX ", "TREE ", "LINK ", "DIMENSIONS ", "FORMAT ", "TAXLABELS ", "TRANSLATE ", "#NEXUS "]
NEWICK_ALPHABET = list("(),;:'[]a1 ")
NEXUS_TOKENS = [";", "END", "BEGIN", "TAXA", "TREES", "DIMENSIONS", "NTAX=2", "NCHAR=2", "TAXLABELS", "a", "b", "MATRIX",
                "FORMAT", "DATATYPE=DNA", "TRANSLATE", "TREE", "=", "(a,b)", "LINK", ",", "TITLE", "CHARSET", "1-2", "AC"]
NEXUS_BLOCKS = ["TAXA", "TREES", "CHARACTERS", "DATA", "SETS"]


def bounds(tier):
    if tier == "quick":
        return {"newick_string_len": 5, "nexus_token_len": 2, "double_edits": False, "budget_lines": BUDGET,
                "seeds": sorted(SEEDS), "edit_entry_points": "main two per format"}
    return {"newick_string_len": 6, "nexus_token_len": 3, "double_edits": ["newick2", "phylip_rs", "fasta1"], "budget_lines": BUDGET,
            "seeds": sorted(SEEDS), "edit_entry_points": "all"}


# ---------------------------------------------------------------------------
# entry points

def _mx(cls, **kw):
    def f(text):
        return cls.get(data=text, **kw)
    return f


def entry_points(seedname, fmt, all_eps=True):
    eps = {}
    if fmt in ("newick", "nexus"):
        eps["Tree.get"] = lambda text: dendropy.Tree.get(data=text, schema=fmt)
        eps["TreeList.get"] = lambda text: dendropy.TreeList.get(data=text, schema=fmt)
        eps["DataSet.get"] = lambda text: dendropy.DataSet.get(data=text, schema=fmt)
        eps["Tree.yield_from_files"] = lambda text: list(dendropy.Tree.yield_from_files([io.StringIO(text)], fmt))
        if fmt == "nexus":
            if seedname in ("nexus_dna", "nexus_inter") or seedname.startswith("tok"):
                eps["DnaCharacterMatrix.get"] = _mx(dendropy.DnaCharacterMatrix, schema="nexus")
            if seedname == "nexus_std":
                eps["StandardCharacterMatrix.get"] = _mx(dendropy.StandardCharacterMatrix, schema="nexus")
            if seedname == "nexus_cont":
                eps["ContinuousCharacterMatrix.get"] = _mx(dendropy.ContinuousCharacterMatrix, schema="nexus")
        if not all_eps:
            keep = ["DataSet.get"] + [k for k in eps if k.endswith("Matrix.get")]
            if len(keep) == 1:
                keep.append("TreeList.get")
            if fmt == "newick":
                keep.append("Tree.get")
            eps = {k: eps[k] for k in keep}
    elif fmt == "phylip":
        opts = PHYLIP_OPTS.get(seedname, {})
        eps["DnaCharacterMatrix.get"] = _mx(dendropy.DnaCharacterMatrix, schema="phylip", **opts)
        eps["DataSet.get"] = lambda text: dendropy.DataSet.get(data=text, schema="phylip", data_type="dna", **opts)
    elif fmt == "fasta":
        eps["DnaCharacterMatrix.get"] = _mx(dendropy.DnaCharacterMatrix, schema="fasta")
        eps["DataSet.get"] = lambda text: dendropy.DataSet.get(data=text, schema="fasta", data_type="dna")
    return eps


# ---------------------------------------------------------------------------
# oracle

NO_DATA = ("No trees in data source", "No trees available at requested location", "No character data in data source")


def innermost_dendropy_frame(exc):
    tb = traceback.extract_tb(exc.__traceback__)
    for fr in reversed(tb):
        if fr.filename.startswith(REPO_SRC):
            return fr.name
    return None


def strip_comments(text):
    out, depth = [], 0
    for ch in text:
        if ch == "[":
            depth += 1
        elif ch == "]" and depth:
            depth -= 1
        elif depth == 0:
            out.append(ch)
    return "".join(out)


def declared_dims(fmt, text):
    """(ntax|None, nchar|None) when unambiguous"""
    if fmt == "phylip":
        m = re.match(r"\s*(\d+)\s+(\d+)\s*(\n|$)", text)
        if m:
            return int(m.group(1)), int(m.group(2))
        return None, None
    if fmt == "nexus":
        if "'" in text or '"' in text.split("MATRIX")[0].replace('SYMBOLS="012"', ""):
            return None, None
        t = strip_comments(text).upper()
        nt = re.findall(r"NTAX\s*=\s*(\d+)", t)
        nc = re.findall(r"NCHAR\s*=\s*(\d+)", t)
        if len(re.findall(r"DIMENSIONS", t)) != len(re.findall(r"DIMENSIONS\s+(?:NTAX\s*=\s*\d+\s*)?(?:NCHAR\s*=\s*\d+\s*)?;", t)):
            return None, None
        if t.count("MATRIX") != 1 or len(re.findall(r"BEGIN\s+(CHARACTERS|DATA)\s*;", t)) != 1:
            return None, None
        return (int(nt[0]) if len(nt) == 1 else None), (int(nc[0]) if len(nc) == 1 else None)
    return None, None


def _looks_complete(fmt, text):
    """the document still has its closing syntax (so a short matrix is not explained by truncation)"""
    t = strip_comments(text).upper().split()
    if fmt == "nexus":
        return len(t) >= 2 and "".join(t[-2:]).replace(" ", "") in ("END;", ";END;") or (len(t) >= 1 and t[-1] in ("END;",))
    if fmt == "phylip":
        return text.endswith("\n")
    return True


def result_problems(fmt, text, res):
    """structural validity of returned objects"""
    trees, mats = [], []
    if isinstance(res, dendropy.Tree):
        trees = [res]
    elif isinstance(res, dendropy.TreeList):
        trees = list(res)
    elif isinstance(res, list):
        trees = [x for x in res if isinstance(x, dendropy.Tree)]
    elif isinstance(res, dendropy.DataSet):
        for tl in res.tree_lists:
            trees.extend(tl)
        mats = list(res.char_matrices)
    elif isinstance(res, dendropy.CharacterMatrix):
        mats = [res]
    for t in trees:
        p = ref.wellformed(t)
        if p:
            return "malformed-tree", "; ".join(p)
        if t.taxon_namespace is None:
            return "malformed-tree", "tree without namespace"
        seen = set()
        for nd in t.preorder_node_iter():
            if nd.taxon is not None:
                if id(nd.taxon) in seen:
                    return "malformed-tree", "one taxon (%r) sits on two nodes of a tree returned by a reader" % (nd.taxon.label,)
                seen.add(id(nd.taxon))
        for nd in t.leaf_node_iter():
            if nd.taxon is not None and nd.taxon not in t.taxon_namespace._taxa:
                return "malformed-tree", "leaf taxon outside the tree's namespace"
    if mats and fmt in ("nexus", "phylip"):
        ntax, nchar = declared_dims(fmt, text)
        if len(mats) == 1:
            m = mats[0]
            lens = [len(m[t]) for t in m]
            whole = "complete-document" if _looks_complete(fmt, text) else "truncated-document"
            if nchar is not None and any(l > nchar for l in lens):
                return "matrix-dimensions|row-longer-than-declared|" + whole, "declared NCHAR=%d but returned row lengths %s" % (nchar, lens)
            if nchar is not None and any(l < nchar for l in lens):
                return "matrix-dimensions|row-shorter-than-declared|" + whole, "declared NCHAR=%d but returned row lengths %s" % (nchar, lens)
            if ntax is not None and len(lens) < ntax and fmt == "phylip":
                return "matrix-dimensions|fewer-rows-than-declared|" + whole, "declared %d sequences but returned %d rows" % (ntax, len(lens))
            if ntax is not None and len(lens) > ntax:
                return "matrix-dimensions|more-rows-than-declared|" + whole, "declared NTAX=%d but returned %d rows" % (ntax, len(lens))
    return None, None


def _source_has_no_data(fmt, epname, text):
    """The documented ValueError of the single-object front ends (Tree.get, <Type>CharacterMatrix.get)
    for a source without data, recognised by what the source holds rather than by the wording of
    the message: the collection front end reads the same text and finds nothing of that kind."""
    try:
        if epname.startswith("Tree."):
            return len(dendropy.TreeList.get(data=text, schema=fmt)) == 0
        if epname.endswith("Matrix.get"):
            kw = {"data_type": "dna"} if fmt in ("phylip", "fasta") else {"exclude_trees": True}
            return len(dendropy.DataSet.get(data=text, schema=fmt, **kw).char_matrices) == 0
    except Exception:
        return False
    return False


def classify(fmt, epname, fn, text):
    """Returns (signature|None, message)."""
    status = run_limited(lambda: fn(text), 0.15)
    if status[0] == "timeout":
        st, v, n = budgeted(lambda: fn(text), BUDGET)
        if st == "hang":
            where = v.split(":")[0]
            return "%s|hang|%s" % (fmt, where), "%s does not terminate: more than %d lines executed, last in %s" % (epname, BUDGET, v)
        status = (st, v)
    if status[0] == "ok":
        kind, msg = result_problems(fmt, text, status[1])
        if kind:
            return "%s|%s|%s" % (fmt, kind, epname.split(".")[0] if kind == "malformed-tree" else "reader"), "%s returned an invalid result: %s" % (epname, msg)
        return None, "ok"
    e = status[1]
    if isinstance(e, dperror.DataParseError):
        return None, "parse-error"
    if isinstance(e, ValueError) and (any(str(e).startswith(p) for p in NO_DATA) or _source_has_no_data(fmt, epname, text)):
        return None, "no-data"
    where = innermost_dendropy_frame(e) or "outside-dendropy"
    return "%s|%s|%s" % (fmt, type(e).__name__, where), "%s raised %s: %s" % (epname, type(e).__name__, str(e)[:160].replace("\n", " "))


# -- a valid document read after bad input ------------------------------------------------
# A reader that keeps anything between calls (module-level tokenizer state, a half-filled
# namespace or mapper left by a parse that raised) shows on the NEXT read.  Every PROBE_EVERY
# parses of a chunk the seed document of that format is read again through the same entry
# point and must give exactly what it gave when it was read first in this chunk.

PROBE_EVERY = 20
PROBE_DOCS = {"newick": "((a:1,b:2)x:1,(c:3,'d e':4)y:2)r;\n(a,(b,c),'d e');\n"}
_probe_state = {}


def _summary(res):
    trees, mats = [], []
    if isinstance(res, dendropy.Tree):
        trees = [res]
    elif isinstance(res, dendropy.TreeList):
        trees = list(res)
    elif isinstance(res, list):
        trees = [x for x in res if isinstance(x, dendropy.Tree)]
    elif isinstance(res, dendropy.DataSet):
        for tl in res.tree_lists:
            trees.extend(tl)
        mats = list(res.char_matrices)
    elif isinstance(res, dendropy.CharacterMatrix):
        mats = [res]
    out = []
    for t in trees:
        out.append(("tree", t.is_rooted, ref.canon(ref.snapshot(t)[1]), tuple(x.label for x in t.taxon_namespace),
                    tuple(str(c) for c in t.comments), getattr(t, "weight", None),
                    tuple(sorted((str(a.name), str(a.value)) for a in t.annotations))))
    for m in mats:
        out.append(("matrix", type(m).__name__, tuple((tx.label, tuple(str(v) for v in m[tx])) for tx in m)))
    return tuple(out)


def _probe_outcome(fn, text):
    st, v, n = budgeted(lambda: fn(text), BUDGET)
    if st == "ok":
        return ("ok", _summary(v))
    if st == "hang":
        return ("hang", str(v))
    return ("raises", type(v).__name__)


def probe_valid_after_bad(seedname, fmt, epname, fn, ctx, last_text):
    doc = SEEDS[seedname][1] if seedname in SEEDS else PROBE_DOCS.get(fmt)
    if doc is None:
        return
    key = (seedname, fmt, epname)
    st = _probe_state.setdefault("cur", {})
    ent = st.setdefault(key, {"n": 0, "first": None})
    if ent["first"] is None:
        ent["first"] = _probe_outcome(fn, doc)
        return
    ent["n"] += 1
    if ent["n"] % PROBE_EVERY:
        return
    ctx.count("valid_document_reads_after_bad_input")
    got = _probe_outcome(fn, doc)
    if got != ent["first"]:
        ctx.violation("%s|valid-document-after-bad-input|%s" % (fmt, epname),
                      "%s gave %s for the valid document when read first, %s when read again after other inputs (last: %r)" % (
                          epname, str(ent["first"])[:150], str(got)[:150], last_text[-60:]),
                      {"kind": "valid-after-bad", "seed": seedname, "format": fmt, "entry_point": epname, "text": last_text, "all_eps": True})


def run_text(seedname, fmt, text, ctx, all_eps, kind, nontrivial=True):
    for epname, fn in entry_points(seedname, fmt, all_eps).items():
        probe_valid_after_bad(seedname, fmt, epname, fn, ctx, text)
        ctx.case((epname, fmt, seedname if fmt in ("phylip",) or seedname.startswith("nexus") else "", text), nontrivial=nontrivial)
        ctx.count("parses")
        sig, msg = classify(fmt, epname, fn, text)
        ctx.count("outcome:" + (msg if sig is None else sig.split("|")[1] if sig.split("|")[1] in ("hang", "malformed-tree", "matrix-dimensions") else "internal-error"))
        if sig is not None:
            ctx.violation(sig, msg + " | input kind: %s" % kind, {"kind": "text", "seed": seedname, "format": fmt, "entry_point": epname, "text": text, "all_eps": True})


# ---------------------------------------------------------------------------
# enumeration

def tokens_spans(text):
    return [(m.start(), m.end()) for m in re.finditer(r"[^\s(),;:=\[\]'\"{}]+", text)]


def single_edits(text):
    seen = set()
    n = len(text)
    for i in range(n):
        yield "delete-char", text[:i] + text[i + 1:]
    for i in range(n + 1):
        for s in SYMBOLS:
            yield "insert-symbol", text[:i] + s + text[i:]
        for k in KEYWORDS:
            yield "insert-keyword", text[:i] + k + text[i:]
    for i in range(n):
        for s in SYMBOLS:
            if s != text[i]:
                yield "replace-symbol", text[:i] + s + text[i + 1:]
    for a, b in tokens_spans(text):
        yield "delete-token", text[:a] + text[b:]
    semis = [-1] + [i for i, ch in enumerate(text) if ch == ";"]
    for a, b in zip(semis, semis[1:]):
        yield "drop-span", text[:a + 1] + text[b + 1:]


# documents in which two nodes of one tree resolve to the same taxon through different symbols
# (case variants under the case-insensitive default, TRANSLATE token and label, taxon number and label)
SAME_TAXON_DOCS = [
    ("newick", "(a,A);"), ("newick", "((a,b),A);"), ("newick", "(a,(b,(c,B)));"), ("newick", "(a,a);"), ("newick", "((a,b),(c,a));"),
    ("newick", "(a_b,'a b');"), ("newick", "('a',a);"), ("newick", "(a,b);(a,A);"),
    ("nexus", "#NEXUS\nBEGIN TREES;\nTRANSLATE 1 a, 2 b;\nTREE t = (1,a);\nEND;\n"),
    ("nexus", "#NEXUS\nBEGIN TREES;\nTRANSLATE 1 a, 2 b;\nTREE t = ((1,2),A);\nEND;\n"),
    ("nexus", "#NEXUS\nBEGIN TAXA;\nDIMENSIONS NTAX=2;\nTAXLABELS a b;\nEND;\nBEGIN TREES;\nTREE t = (1,a);\nEND;\n"),
    ("nexus", "#NEXUS\nBEGIN TAXA;\nDIMENSIONS NTAX=2;\nTAXLABELS a b;\nEND;\nBEGIN TREES;\nTREE t = (a,(b,A));\nEND;\n"),
    ("nexus", "#NEXUS\nBEGIN TAXA;\nDIMENSIONS NTAX=3;\nTAXLABELS a b c;\nEND;\nBEGIN TREES;\nTRANSLATE x a, y b, z c;\nTREE t = (x,(y,a));\nEND;\n"),
    ("nexus", "#NEXUS\nBEGIN TREES;\nTREE t = (a,b);\nTREE u = (b,(a,B));\nEND;\n"),
]


def chunks(tier):
    b = bounds(tier)
    out = [{"kind": "same-taxon-twice", "tier": tier}]
    for name in sorted(SEEDS):
        fmt, text = SEEDS[name]
        out.append({"kind": "prefix", "seed": name, "tier": tier})
        n = len(text)
        step = 12
        for lo in range(0, n + 1, step):
            out.append({"kind": "edits", "seed": name, "lo": lo, "hi": min(n + 1, lo + step), "tier": tier})
        out.append({"kind": "edits-struct", "seed": name, "tier": tier})
    L = b["newick_string_len"]
    for first in NEWICK_ALPHABET:
        for second in NEWICK_ALPHABET:
            out.append({"kind": "newick-strings", "prefix": first + second, "maxlen": L, "tier": tier})
    out.append({"kind": "newick-strings-short", "tier": tier})
    for blk in NEXUS_BLOCKS:
        for t0 in NEXUS_TOKENS:
            out.append({"kind": "nexus-tokens", "block": blk, "first": t0, "maxlen": b["nexus_token_len"], "tier": tier})
    if b["double_edits"]:
        for name in b["double_edits"]:
            fmt, text = SEEDS[name]
            for i in range(len(text) + 1):
                out.append({"kind": "double", "seed": name, "pos": i, "tier": tier})
    return out


def run_chunk(chunk, ctx):
    _probe_state["cur"] = {}   # the reference outcome is taken afresh in every chunk
    k = chunk["kind"]
    tier = chunk["tier"]
    all_eps = tier == "thorough"
    if k == "prefix":
        name = chunk["seed"]
        fmt, text = SEEDS[name]
        run_text(name, fmt, text, ctx, True, "seed", nontrivial=False)
        for epname, fn in entry_points(name, fmt, True).items():
            st, v, nlines = budgeted(lambda: fn(text), BUDGET)
            if st != "ok":
                # not a harness matter: run_text above has already judged this outcome like any other
                # (parse error / documented no-data error: allowed; anything else: reported)
                ctx.count("seed_documents_not_accepted_by_an_entry_point")
                continue
            ctx.maximum("max_lines_executed_on_a_valid_seed", nlines)
        for i in range(len(text)):
            run_text(name, fmt, text[:i], ctx, True, "prefix", nontrivial=i > 0)
            ctx.count("prefixes")
        ctx.sample({"seed": name, "prefix_example": text[:len(text) // 2]}, 1)
    elif k in ("edits", "edits-struct"):
        name = chunk["seed"]
        fmt, text = SEEDS[name]
        n = len(text)
        for kind, t2 in single_edits(text):
            if k == "edits-struct":
                if kind not in ("delete-token", "drop-span"):
                    continue
            else:
                if kind in ("delete-token", "drop-span"):
                    continue
                # position of the edit = first differing index
                i = next((j for j in range(min(len(t2), n)) if t2[j] != text[j]), min(len(t2), n))
                if not (chunk["lo"] <= i < chunk["hi"]):
                    continue
            if t2 == text:
                continue
            ctx.count("single_edits")
            run_text(name, fmt, t2, ctx, all_eps, kind)
    elif k == "newick-strings":
        p = chunk["prefix"]
        for L in range(0, chunk["maxlen"] - 2 + 1):
            for tail in itertools.product(NEWICK_ALPHABET, repeat=L):
                s = p + "".join(tail)
                ctx.count("short_strings")
                run_text("str", "newick", s, ctx, False, "short-string")
        ctx.sample({"short_string_example": p + "a;"}, 1)
    elif k == "same-taxon-twice":
        for fmt, text in SAME_TAXON_DOCS:
            ctx.count("same_taxon_twice_documents")
            run_text("str" if fmt == "newick" else "tok", fmt, text, ctx, True, "same-taxon-twice")
    elif k == "newick-strings-short":
        for s in [""] + NEWICK_ALPHABET:
            ctx.count("short_strings")
            run_text("str", "newick", s, ctx, False, "short-string", nontrivial=bool(s))
    elif k == "nexus-tokens":
        head = "#NEXUS\nBEGIN %s;\n" % chunk["block"]
        for L in range(0, chunk["maxlen"]):
            for tail in itertools.product(NEXUS_TOKENS, repeat=L):
                s = head + " ".join((chunk["first"],) + tail)
                for suffix in ("", ";\nEND;\n"):
                    ctx.count("token_sequences")
                    run_text("tok", "nexus", s + suffix, ctx, False, "token-sequence")
    elif k == "double":
        name = chunk["seed"]
        fmt, text = SEEDS[name]
        i = chunk["pos"]
        firsts = [text[:i] + text[i + 1:]] if i < len(text) else []
        firsts += [text[:i] + s + text[i:] for s in SYMBOLS]
        for t1 in firsts:
            for j in range(i, len(t1) + 1):
                seconds = ([t1[:j] + t1[j + 1:]] if j < len(t1) else []) + [t1[:j] + s + t1[j:] for s in SYMBOLS]
                for t2 in seconds:
                    ctx.count("double_edits")
                    run_text(name, fmt, t2, ctx, False, "double-edit")
    return None


def replay(case, ctx):
    name, fmt, text = case["seed"], case["format"], case["text"]
    eps = entry_points(name, fmt, True)
    fn = eps[case["entry_point"]]
    if case.get("kind") == "valid-after-bad":
        # [valid document; the bad input; valid document again]
        doc = SEEDS[name][1] if name in SEEDS else PROBE_DOCS.get(fmt)
        first = _probe_outcome(fn, doc)
        classify(fmt, case["entry_point"], fn, text)
        got = _probe_outcome(fn, doc)
        ctx.case(("replay", text))
        if got != first:
            ctx.violation("%s|valid-document-after-bad-input|%s" % (fmt, case["entry_point"]),
                          "valid document read differently after %r" % text[-60:], case)
        return
    sig, msg = classify(fmt, case["entry_point"], fn, text)
    ctx.case(("replay", text))
    if sig is not None:
        ctx.violation(sig, msg, case)
