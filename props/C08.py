"""C08 - pruning / retaining / extracting = induced subtree (DESIGN 3/C08).

Engine E1: exhaustive enumeration of U(n) x every non-empty subset of leaf taxa x
edge-length patterns x suppress_unifurcations x update_bipartitions x every public
pruning / retaining / filtering / extracting API, each result compared with the
reference `induced subtree` computed on plain tuples.
"""
import functools
import itertools

import dendropy

from mc import ref, build
from mc import universe as U

ID = "C08"
LEVEL = "exploration"
EXHAUSTIVE = True
RULE = ("every tree of U(n) (all rooted shapes on n labelled leaves, n up to the tier bound; every internal node "
        "labelled) x every non-empty subset of its leaf taxa as the survivors x edge-length / namespace layers "
        "{none, unit, 1-2-3 cycle, distinct powers of two, partly None} x suppress_unifurcations {T,F} x "
        "update_bipartitions {F,T} (x rooted/unrooted where update_bipartitions restructures) x 12 APIs "
        "(prune_taxa, prune_taxa_with_labels, retain_taxa, retain_taxa_with_labels, filter_leaf_nodes, "
        "prune_leaves_without_taxa after un-assigning, prune_subtree at every non-root node, extract_tree with every "
        "leaf predicate x every set of excluded non-root internal nodes, extract_tree_with(out)_taxa(_labels)); plus "
        "side layers: non-recursive / internal-node-accepting leaf filters, one-shot iterables and other containers "
        "as the taxa argument, extraction attribute names, trees whose internal nodes carry taxa (every subset of "
        "all taxa x the three filter-flag settings of prune_taxa), source trees that already contain out-degree-one nodes "
        "(one chain of 1 or 2 above any node incl. leaves and the root, or two single ones above any two nodes; every child "
        "order up to 4 leaves, as-generated and reversed above; every survivor subset x suppress {T,F}; each extraction "
        "result compared with the reference AND with prune_taxa / retain_taxa run in place on a fresh copy), and "
        "Node.extract_subtree started at every inner node; histories on ONE source tree (n <= 4): every ordered pair "
        "[extraction 1 from {extract_tree_with_taxa(every subset), extract_tree with a node filter that rejects each single "
        "internal node - the root included, i.e. a refused call - or all non-root ones x {all leaves, every all-but-one set}, an "
        "extraction that keeps nothing}; extraction 2 from {extract_tree_with_taxa(every subset), extract_tree(leaf filter, every "
        "subset)}] and every [extract(S1 single / all-but-one / all); prune_taxa / retain_taxa in place to S2; extract(S3 within S2)], each extraction judged by the "
        "induced subtree of the source as it then is; after every extraction call (also a refused one; all layers, except that of the five "
        "length layers of the core only 'none' and 'pow2' and of the unifurcation layer only the as-generated child orders carry it) "
        "the observable fields (known fields + non-underscore attributes) of the source tree, of every source node and of every "
        "source edge are compared with their state before; "
        "namespaces in which one label names several Taxon objects "
        "(two taxa with identical labels, or 'a'/'A' with is_case_sensitive False and True; both on the tree, or one of them "
        "only in the namespace, before or after the others) x every non-empty subset of the distinct labels x the four "
        "*_labels APIs x suppress {T,F}, each against the induced subtree on the leaves whose label matches under the "
        "namespace's case rule, with prune == retain-complement and (where the rule is unambiguous) extraction == in-place; plus a layer that is exhaustive only over a STATED FINITE SET "
        "of 18 large representatives (left/right ladders with 12, 17, 33, 40, 65 tips, balanced trees with 16, 32, 64 leaves, "
        "stars with 12, 33, 40, 100 tips, a broom of a 20-ladder ending in a 40-star; labels t000..tNNN; unit and 1-2-3 "
        "lengths) x 10 named survivor sets x all twelve APIs x suppress {T,F} x update_bipartitions {F,T} with the same "
        "oracles and the extraction == in-place agreement; a case = one API call on a freshly built tree; "
        "non-trivial = tree has >= 3 leaves")
ASSUMPTIONS = [
    "reference induced subtree = `filtered` in this module, cross-checked on every (tree, subset) against mc/ref.induced, on "
    "snapshots read from Node._child_nodes (clades = non-empty restrictions, single-child nodes merged into the child, which "
    "keeps its taxon and label, with lengths added, None + x = x, None + None = None; a root left with one child is replaced by it)",
    "the nodes 'reported as removed' are the nodes whose restriction is empty; nodes spliced out by unifurcation suppression "
    "are suppressed, not removed, and are not expected in the returned list",
    "'extraction never alters the source tree' includes the observable object state: the fields Tree / Node / Edge objects of the "
    "pinned library carry (KNOWN_FIELDS, written down in the module) and any other attribute whose name does not start with an "
    "underscore - names present, identity (or ==) of values, identity and elements of list attributes; unknown attributes that "
    "start with an underscore are hidden implementation state: counted (unknown_private_fields_seen_on_source), never reported",
    "an extraction that would keep no leaf must be refused; which exception it raises is not judged",
    "labels layer: prune/retain_taxa_with_labels mean 'every Taxon of the namespace whose label matches under the namespace's "
    "is_case_sensitive rule'; extract_tree_with(out)_taxa_labels say 'labels matching those listed' without a case rule, so "
    "for them exact matching and the namespace rule are both accepted and agreement with the in-place calls is demanded only "
    "where the two coincide (the unchanged library matches exactly there - reported to the lead as an observation, not a finding)",
    "a taxa / labels argument documented as 'any iterable' may be a list, tuple, set, frozenset, dict view, TaxonNamespace, "
    "iterator or generator",
    "where the source already has out-degree-one nodes: with suppression requested and at least one leaf excluded every "
    "out-degree-one node must be gone with its length added to its child (in-place pruning does that, and the statement requires "
    "extraction to agree with in-place pruning); only when no leaf at all is excluded are results compared modulo out-degree-one "
    "nodes, because extract_tree documents that suppression is 'only done if some nodes are excluded'; with suppression declined "
    "every such node must stay",
    "trees are compared as unordered labelled trees with lengths and node labels; child order never decides",
    "for unrooted trees with update_bipartitions=True the documented collapse of the basal bifurcation by "
    "encode_bipartitions is accepted: unrooted splits with merged lengths, leaf set, path lengths and node labels per clade are compared",
    "subsets that would remove every leaf are outside the domain and are not generated",
    "on trees whose internal nodes carry taxa only those prune sets are generated that do not empty a taxon-bearing "
    "internal node which itself survives (the statement does not say whether such a node is a surviving leaf)",
    "partly-None edge lengths are enumerated for rooted trees only (collapse_basal_bifurcation on None lengths belongs to C07)",
    "update_bipartitions=True is taken to mean what its docstring says: afterwards every edge carries a bipartition whose "
    "leafset bitmask is the set of leaves below it (bit = accession order recorded by the harness)",
]
MANIFEST = {
    "engine": "E1-ENUM",
    "text": ("For every rooted tree shape on up to 5 (quick) / 6 (thorough) labelled leaves, every non-empty subset of "
             "surviving taxa, five edge-length patterns (including pairwise distinct powers of two, which make every wrong "
             "merge of lengths visible), both settings of suppress_unifurcations and update_bipartitions and all twelve "
             "pruning / retaining / filtering / extracting entry points, the resulting tree equals the induced subtree "
             "computed by an independent reference on nested tuples (topology, lengths, surviving node labels), path "
             "lengths between survivors are unchanged, lists of removed nodes are exact, extraction leaves the source "
             "untouched and extraction_source maps every clone to the right source node."),
    "note": "trusted: mc/ref.py (induced, canon, path_table, split_lengths), mc/build.py builder, mc/universe.py generator",
    "technique": "bounded-exhaustive enumeration against a reference induced-subtree model",
}

INPLACE = ["prune_taxa", "prune_taxa_with_labels", "retain_taxa", "retain_taxa_with_labels",
           "filter_leaf_nodes", "prune_leaves_without_taxa"]
WRAPPERS = ["extract_tree_with_taxa", "extract_tree_with_taxa_labels",
            "extract_tree_without_taxa", "extract_tree_without_taxa_labels"]

# layer = (length pattern, namespace configuration)
LAYERS = {
    "none": ("none", "exact"),
    "unit": ("unit", "extra_high"),
    "cyc123": ("cyc123", "reversed"),
    "pow2": ("pow2", "exact"),
    "partial": ("partial", "exact"),
}


def bounds(tier):
    if tier == "quick":
        return {"max_leaves": 5, "layers": ["none", "unit", "cyc123", "pow2", "partial"],
                "layers_at_max": ["none", "unit", "cyc123", "pow2", "partial"],
                "internal_taxa_max_leaves": 4, "internal_taxa_internal_prune_sets_only_at": 5, "containers_max_leaves": 4, "unifurcation_max_leaves": 4,
                "unifurcation_all_orders_up_to": 4,
                "node_extract_max_leaves": 5, "subsets": "all non-empty", "label_layer_max_leaves": 4, "repeat_layer_max_leaves": 4,
                "label_layer": {"variants": LABEL_VARIANTS, "placements": LABEL_PLACEMENTS, "is_case_sensitive": [False, True],
                                "requests": "every non-empty subset of the distinct namespace labels", "apis": LABEL_APIS},
                "large_representatives": [big_name(d) for d in big_descriptors()], "large_layer": LARGE}
    return {"max_leaves": 6, "layers": ["none", "unit", "cyc123", "pow2", "partial"],
            "layers_at_max": ["none", "pow2", "partial"],
            "internal_taxa_max_leaves": 5, "internal_taxa_internal_prune_sets_only_at": 6, "containers_max_leaves": 5, "unifurcation_max_leaves": 5,
            "unifurcation_all_orders_up_to": 4,
            "node_extract_max_leaves": 6, "subsets": "all non-empty", "label_layer_max_leaves": 5, "repeat_layer_max_leaves": 4,
            "label_layer": {"variants": LABEL_VARIANTS, "placements": LABEL_PLACEMENTS, "is_case_sensitive": [False, True],
                            "requests": "every non-empty subset of the distinct namespace labels", "apis": LABEL_APIS},
            "large_representatives": [big_name(d) for d in big_descriptors()], "large_layer": LARGE}


def chunks(tier):
    b = bounds(tier)
    out = []
    for n in range(1, b["max_leaves"] + 1):
        ns = len(U.shapes(n))
        layers = b["layers_at_max"] if n == b["max_leaves"] else b["layers"]
        step = 6 if n == 5 else (3 if n >= 6 else 30)
        for layer in layers:
            for lo in range(0, ns, step):
                out.append({"kind": "core", "n": n, "lo": lo, "hi": min(ns, lo + step), "layer": layer, "tier": tier})
    for n in range(2, b["internal_taxa_max_leaves"] + 1):
        ns = len(U.shapes(n))
        step = 2 if n >= 5 else 4
        for lo in range(0, ns, step):
            out.append({"kind": "itaxa", "n": n, "lo": lo, "hi": min(ns, lo + step), "tier": tier})
    n = b["internal_taxa_max_leaves"] + 1      # one size further, prune sets of internal-node taxa only
    ns = len(U.shapes(n))
    for lo in range(0, ns, 40):
        out.append({"kind": "itaxa", "n": n, "lo": lo, "hi": min(ns, lo + 40), "tier": tier, "internal_only": True})
    for n in range(1, b["containers_max_leaves"] + 1):
        ns = len(U.shapes(n))
        step = 20 if n >= 5 else 30
        for lo in range(0, ns, step):
            out.append({"kind": "containers", "n": n, "lo": lo, "hi": min(ns, lo + step), "tier": tier})
    for n in range(1, b["unifurcation_max_leaves"] + 1):
        ns = len(U.shapes(n))
        step = 1 if n >= 4 else 30
        parts = 4 if n == 4 else 1
        for lo in range(0, ns, step):
            for part in range(parts):
                out.append({"kind": "unif", "n": n, "lo": lo, "hi": min(ns, lo + step), "tier": tier, "parts": parts, "part": part})
    for n in range(1, b["repeat_layer_max_leaves"] + 1):
        ns = len(U.shapes(n))
        parts = 4 if n >= 4 else 1
        for lo in range(0, ns, 1 if n >= 4 else 30):
            for part in range(parts):
                out.append({"kind": "repeat", "n": n, "lo": lo, "hi": min(ns, lo + (1 if n >= 4 else 30)), "tier": tier,
                            "parts": parts, "part": part})
    for n in range(1, b["label_layer_max_leaves"] + 1):
        ns = len(U.shapes(n))
        step = 4 if n >= 5 else 7
        for lo in range(0, ns, step):
            out.append({"kind": "labels", "n": n, "lo": lo, "hi": min(ns, lo + step), "tier": tier})
    for d in big_descriptors():
        for lens in LARGE["length_patterns"]:
            out.append({"kind": "big", "big": d, "lens": lens, "tier": tier})
    for n in range(3, b["node_extract_max_leaves"] + 1):
        ns = len(U.shapes(n))
        step = 200 if n >= 6 else 300
        for lo in range(0, ns, step):
            out.append({"kind": "node_extract", "n": n, "lo": lo, "hi": min(ns, lo + step), "tier": tier})
    return out


# ---------------------------------------------------------------------------
# universe items -> snapshots

def tup(x):
    if isinstance(x, list):
        return tuple(tup(y) for y in x)
    return x


def _ilabel(i):
    return "n%d" % i


def _lens(name):
    if name == "none":
        return None
    if name == "unit":
        return 1
    if name == "cyc123":
        return [1, 2, 3]
    if name == "pow2":
        return lambda i, is_leaf, depth: 2 ** i
    if name == "partial":
        return lambda i, is_leaf, depth: None if i % 3 == 1 else 2 ** i
    raise ValueError(name)


def _with_internal_taxa(sn):
    """every internal node gets the taxon 'X<its node label>'"""
    if not sn[3]:
        return sn
    return ("X" + sn[1], sn[1], sn[2], tuple(_with_internal_taxa(c) for c in sn[3]))


# ---------------------------------------------------------------------------
# large representatives (size-triggered defects are invisible in U(n <= 6))

LARGE = {
    "ladder_tips_left_and_right_leaning": [12, 17, 33, 40, 65],
    "balanced_binary_leaves": [16, 32, 64],
    "star_tips": [12, 33, 40, 100],
    "broom_ladder_tips_then_star_width": [[20, 40]],
    "labels": "t000..tNNN",
    "length_patterns": ["unit", "cyc123"],
    "survivor_sets": ["first", "last", "first+last", "every-other", "every-third", "all-but-first", "all-but-last",
                      "first-half", "one-deepest-cherry", "all"],
    "prune_subtree_and_rejected_inner_node_at": ["first", "middle", "last non-root (inner) node in pre-order"],
}


def big_descriptors():
    out = []
    for k in LARGE["ladder_tips_left_and_right_leaning"]:
        out += [["ladder", k, "L"], ["ladder", k, "R"]]
    out += [["balanced", k] for k in LARGE["balanced_binary_leaves"]]
    out += [["star", k] for k in LARGE["star_tips"]]
    out += [["broom", a, b] for a, b in LARGE["broom_ladder_tips_then_star_width"]]
    return out


def _ladder(lo, k, lean):
    s = lo
    for i in range(lo + 1, lo + k):
        s = (s, i) if lean == "L" else (i, s)
    return s


def _balanced(lo, hi):
    if hi - lo == 1:
        return lo
    mid = (lo + hi) // 2
    return (_balanced(lo, mid), _balanced(mid, hi))


@functools.lru_cache(maxsize=64)
def _big_shape(desc):
    k = desc[0]
    if k == "ladder":
        return _ladder(0, desc[1], desc[2])
    if k == "balanced":
        return _balanced(0, desc[1])
    if k == "star":
        return tuple(range(desc[1]))
    if k == "broom":        # a ladder whose deepest tip is replaced by a star
        a, b = desc[1], desc[2]
        s = tuple(range(b))
        for i in range(b, b + a - 1):
            s = (s, i)
        return s
    raise ValueError(desc)


def big_size(desc):
    return desc[1] + desc[2] - 1 if desc[0] == "broom" else desc[1]


def big_name(desc):
    return "-".join(str(x) for x in desc)


def big_labels(n):
    return ["t%03d" % i for i in range(n)]


def big_keep(desc, name):
    """the named survivor set of a large representative (labels)"""
    n = big_size(desc)
    lab = big_labels(n)
    if name == "first":
        return lab[:1]
    if name == "last":
        return lab[-1:]
    if name == "first+last":
        return [lab[0], lab[-1]]
    if name == "every-other":
        return lab[::2]
    if name == "every-third":
        return lab[::3]
    if name == "all-but-first":
        return lab[1:]
    if name == "all-but-last":
        return lab[:-1]
    if name == "first-half":
        return lab[:n // 2]
    if name == "all":
        return lab
    if name == "one-deepest-cherry":
        best = [(-1, None)]

        def rec(s, d):
            if isinstance(s, int):
                return
            lv = [c for c in s if isinstance(c, int)]
            if len(lv) >= 2 and d > best[0][0]:
                best[0] = (d, lv[:2])
            for c in s:
                rec(c, d + 1)
        rec(_big_shape(tuple(desc)), 0)
        return [lab[i] for i in best[0][1]]
    raise ValueError(name)


def _labels(case):
    if case.get("big"):
        return big_labels(case["n"])
    return U.LABELS[:case["n"]]


@functools.lru_cache(maxsize=4096)
def source_snapshot(shape, lens, itaxa=False, big=False):
    if big:
        return ref.mk(shape, lens=_lens(lens), labels=big_labels(len(U.shape_leaves(shape))), ilabels=_ilabel)
    sn = ref.mk(shape, lens=_lens(lens), ilabels=_ilabel)
    if itaxa:
        sn = _with_internal_taxa(sn)
    return sn


def live_preorder(tree):
    out = []
    stack = [tree._seed_node]
    while stack:
        nd = stack.pop()
        out.append(nd)
        stack.extend(reversed(nd._child_nodes))
    return out


def node_preorder(nd):
    out = []
    stack = [nd]
    while stack:
        x = stack.pop()
        out.append(x)
        stack.extend(reversed(x._child_nodes))
    return out


def nonempty_subsets(items):
    items = list(items)
    for k in range(1, len(items) + 1):
        for c in itertools.combinations(items, k):
            yield c


def all_subsets(items):
    items = list(items)
    for k in range(0, len(items) + 1):
        for c in itertools.combinations(items, k):
            yield c


# ---------------------------------------------------------------------------
# reference side

def filtered(node, keep, drop_empty, suppress, removed_subtrees=frozenset()):
    """Reference result of leaf filtering.  Leaves whose taxon label is not in `keep`
    go; any node whose node label is in `removed_subtrees` goes with everything below
    it; an internal node left without children goes too (drop_empty) or stays as a
    childless node; single-child nodes are merged into the child when `suppress`."""
    def rec(nd):
        if nd[1] is not None and nd[1] in removed_subtrees:
            return None
        if not nd[3]:
            return nd if nd[0] in keep else None
        kids = [k for k in (rec(c) for c in nd[3]) if k is not None]
        if not kids:
            return None if drop_empty else (nd[0], nd[1], nd[2], ())
        if len(kids) == 1 and suppress:
            k = kids[0]
            if nd[2] is None and k[2] is None:
                L = None
            else:
                L = (nd[2] or 0) + (k[2] or 0)
            return (k[0], k[1], L, k[3])
        return (nd[0], nd[1], nd[2], tuple(kids))
    return rec(node)


def suppress_all(node):
    """merge every single-child node of a snapshot into its child"""
    kids = tuple(suppress_all(c) for c in node[3])
    if len(kids) == 1:
        k = kids[0]
        L = None if (node[2] is None and k[2] is None) else (node[2] or 0) + (k[2] or 0)
        return (k[0], k[1], L, k[3])
    return (node[0], node[1], node[2], kids)


def has_unifurcation(node):
    return any(len(x[3]) == 1 for x in ref.preorder(node))


def _lkey(x):
    return repr(x)


def _fast_canon(node):
    """children ordered by the smallest leaf label below them: a reordering of the tree, so equal
    forms imply equal unordered trees (used as an accelerator only; ref.canon decides otherwise)"""
    def rec(nd):
        if not nd[3]:
            return (nd[0], nd[1], nd[2], ()), (nd[0] if nd[0] is not None else "~")
        kids = [rec(c) for c in nd[3]]
        kids.sort(key=lambda x: x[1])
        return (nd[0], nd[1], nd[2], tuple(k[0] for k in kids)), kids[0][1]
    return rec(node)[0]


def same_tree(a, b):
    """unordered equality with lengths and labels"""
    return _fast_canon(a) == _fast_canon(b) or ref.canon(a) == ref.canon(b)


def classify(got, want, want_other_flag, modulo_unif=False):
    """None if `got` is the wanted tree (unordered, with lengths and labels), else
    the name of the first feature in which it differs.  modulo_unif: single-child
    nodes are merged on both sides before comparing (used where the source already
    had unifurcations and suppression was requested: the statement asks for the
    suppression of nodes *left* with one child and is silent about the others)."""
    if modulo_unif:
        got, want = suppress_all(got), suppress_all(want)
        want_other_flag = None
    if same_tree(got, want):
        return None
    if want_other_flag is not None and same_tree(got, want_other_flag):
        return "flag"
    if sorted(ref.leaves(got), key=_lkey) != sorted(ref.leaves(want), key=_lkey):
        return "leaf-set"
    if ref.canon(got, False, False, True) != ref.canon(want, False, False, True):
        return "topology"
    if ref.canon(got, False, False) != ref.canon(want, False, False):
        return "unifurcations"
    if ref.canon(got, True, False) != ref.canon(want, True, False):
        return "lengths"
    return "node-identity"


def clade_labels(node):
    """clade -> set of node labels of the nodes with that clade (non-root)"""
    out = {}
    for i, (cl, nd) in enumerate(ref.clade_list(node)):
        out.setdefault(cl, set()).add(nd[1])
    return out


def classify_unrooted(got, want):
    """comparison modulo the position of the seed (used after encode_bipartitions on an
    unrooted tree, which collapses a basal bifurcation)"""
    if sorted(ref.leaves(got), key=_lkey) != sorted(ref.leaves(want), key=_lkey):
        return "leaf-set"
    if ref.topology_key(got, False) != ref.topology_key(want, False):
        return "topology"
    if ref.split_lengths(got, False) != ref.split_lengths(want, False):
        return "lengths"
    wl = clade_labels(want)
    allc = ref.clade(want)
    for cl, nd in ref.clade_list(got)[1:]:
        if nd[3] and cl in wl and cl != allc and nd[1] not in wl[cl]:
            return "node-identity"
    return None


@functools.lru_cache(maxsize=64)
def _path_table_cached(node):
    return ref.path_table(node)


def path_problem(got, src, keep):
    """path lengths between surviving leaves unchanged"""
    a = ref.path_table(got)
    b = _path_table_cached(src)
    for pair, (d, e) in b.items():
        if not pair <= keep:
            continue
        if pair not in a:
            return "pair %s missing" % sorted(pair)
        if not ref.feq(a[pair][0], d):
            return "%s: %r in the source, %r afterwards" % (sorted(pair), d, a[pair][0])
    return None


# ---------------------------------------------------------------------------
# object state of a source tree ("extraction never alters the source": not only its shape)

_PRIMITIVE = (type(None), bool, int, float, str)


# The fields Tree / Node / Edge objects of the unchanged library carry (vars() of a built, encoded and
# annotated tree), written down on purpose: the library under test may differ, and only what a user can
# observe is judged.  Judged: these fields, and any other attribute whose name does not start with an
# underscore.  An unknown attribute that starts with an underscore is hidden implementation state (a
# cache parked on a source node is legitimate if it is handled correctly): it is counted, never reported;
# a mishandled one shows through its behaviour in the repeated-extraction layer.
KNOWN_FIELDS = frozenset([
    # Node
    "_child_nodes", "_parent_node", "_edge", "_label", "taxon", "age", "comments", "_annotations",
    # Edge
    "_head_node", "_bipartition", "length", "rootedge",
    # Tree
    "_seed_node", "_is_rooted", "_taxon_namespace", "_bipartition_edge_map", "_split_bitmask_edge_map",
    "bipartition_encoding", "automigrate_taxon_namespace_on_assignment", "length_type", "weight",
])


def _judged_items(d):
    if KNOWN_FIELDS.issuperset(d):
        return tuple(d.items())
    return tuple((k, v) for k, v in d.items() if k in KNOWN_FIELDS or not k.startswith("_"))


def capture_state(tree):
    """[(description, object, its judged __dict__ items as a tuple, [(list-valued attribute, its elements)])]
    for the tree, every node and every edge reachable from the seed"""
    out = []
    objs = [("tree", tree)]
    for i, nd in enumerate(live_preorder(tree)):
        objs.append((i, nd))
        if nd._edge is not None:
            objs.append((-1 - i, nd._edge))
    for desc, o in objs:
        items = _judged_items(o.__dict__)
        out.append((desc, o, items, [(v, tuple(v)) for k, v in items if type(v) is list]))
    return out


def _state_desc(desc):
    if desc == "tree":
        return desc
    return "node #%d" % desc if desc >= 0 else "edge of node #%d" % (-1 - desc)


def state_problem(state):
    """None, or a description of the first judged attribute of a source object that appeared, vanished or
    changed (same attribute names; values the same object or ==; list attributes the same list object
    with the same elements)"""
    for desc, o, items, lists in state:
        now = _judged_items(o.__dict__)
        if now != items:
            cur, d = dict(now), dict(items)
            if cur.keys() != d.keys():
                return "%s: attributes added %s, removed %s" % (_state_desc(desc), sorted(k for k in cur if k not in d),
                                                                sorted(k for k in d if k not in cur))
            for k, v in d.items():
                if cur[k] is not v and not (type(cur[k]) is type(v) and cur[k] == v):
                    return "%s: attribute %r changed from %r to %r" % (_state_desc(desc), k, v, cur[k])
        for v, elems in lists:
            if len(v) != len(elems) or any(a is not b for a, b in zip(v, elems)):
                return "%s: a list attribute was changed in place" % _state_desc(desc)
    return None


def note_unknown_private(ctx, state):
    """hidden implementation state on source objects: counted, not judged"""
    n = 0
    for desc, o, items, lists in state:
        d = o.__dict__
        if not KNOWN_FIELDS.issuperset(d):
            n += sum(1 for k in d if k not in KNOWN_FIELDS and k.startswith("_"))
    ctx.count("unknown_private_fields_seen_on_source", n)
    ctx.maximum("unknown_private_fields_seen_on_source", n)


def state_wanted(case):
    """The object-state comparison costs as much as the call itself, so it is made on every extraction call
    of the layers 'none' and 'pow2' (object state does not depend on the edge-length pattern: the other three
    length layers repeat the same calls), on the as-generated child order in the unifurcation layer, and on
    every call of all other layers (histories, labels, large trees, internal taxa, containers, Node.extract_subtree)."""
    if case.get("nostate"):
        return False
    return case.get("lens") not in ("unit", "cyc123", "partial") or bool(case.get("big"))


def report_state(ctx, api, case, state, when=""):
    if state is None:
        return None
    ctx.count("source_object_states_checked")
    note_unknown_private(ctx, state)
    p = state_problem(state)
    if p:
        ctx.violation("%s|source-object-state-changed" % api,
                      "%s%s left the source tree's objects in a different state: %s" % (api, when, p), case)
    return p


# ---------------------------------------------------------------------------
# one case

def _src(case):
    if case.get("big"):
        shape = _big_shape(tuple(case["big"]))
        return shape, source_snapshot(shape, case["lens"], False, True)
    shape = tup(case["shape"])
    lens = case["lens"]
    sn = source_snapshot(shape, lens, bool(case.get("itaxa")))
    return shape, sn


def _container(kind, items):
    items = list(items)
    if kind == "list":
        return items
    if kind == "tuple":
        return tuple(items)
    if kind == "set":
        return set(items)
    if kind == "frozenset":
        return frozenset(items)
    if kind == "reversed_list":
        return list(reversed(items))
    if kind == "iterator":
        return iter(items)
    if kind == "generator":
        return (x for x in items)
    if kind == "dict_keys":
        return dict((x, 1) for x in items).keys()
    if kind == "namespace":
        return dendropy.TaxonNamespace(items)       # the same Taxon objects in another namespace
    raise ValueError(kind)


ONE_SHOT = ("iterator", "generator")


def _sig(case, feature):
    return "%s|%s" % (case["api"], feature)


def _msg(case, sn, got, want, extra=""):
    return "%s(survivors=%s, suppress_unifurcations=%r%s) on %s gave %s, induced subtree is %s%s" % (
        case["api"], case.get("keep"), case.get("suppress"),
        ", update_bipartitions=%r" % case["upd"] if "upd" in case else "",
        ref.to_newick(sn), ref.to_newick(got) if got is not None else None,
        ref.to_newick(want) if want is not None else None, extra)


def _report_difference(ctx, case, sn, got, want, want_other, keep, unrooted_lenient=False):
    """strict (or lenient unrooted) comparison + path lengths.  Returns True when equal."""
    ok = True
    if unrooted_lenient:
        # encode_bipartitions on an unrooted tree may move the seed (documented), so the
        # comparison is modulo the seed position unless the trees are equal outright
        if same_tree(got, want):
            feat = None
        elif has_unifurcation(want) and not has_unifurcation(got) and classify_unrooted(got, suppress_all(want)) is None:
            feat = "flag"
        else:
            feat = classify_unrooted(got, want)
            if feat is None and has_unifurcation(got) != has_unifurcation(want):
                feat = "unifurcations"
    else:
        # Sources that already contain out-degree-one nodes: with suppression requested and at
        # least one leaf excluded every such node must be gone (that is what in-place pruning does,
        # and the statement wants extraction to agree with it).  Only when nothing at all is
        # excluded is the comparison modulo out-degree-one nodes: extract_tree documents that
        # suppression "only will be done if some nodes are excluded".
        nothing_excluded = sorted(ref.leaves(want), key=_lkey) == sorted(ref.leaves(sn), key=_lkey)
        feat = classify(got, want, want_other,
                        modulo_unif=bool(case.get("unif")) and bool(case.get("suppress")) and nothing_excluded)
    if feat == "flag":
        if case.get("suppress"):
            f = "unifurcations-kept-although-suppression-requested"
        elif case.get("upd"):
            f = "suppress_unifurcations=False-overridden-by-update_bipartitions"
        else:
            f = "suppress_unifurcations=False-ignored"
        ctx.violation(_sig(case, f), _msg(case, sn, got, want), case)
        ok = False
    elif feat is not None:
        ctx.violation(_sig(case, feat), _msg(case, sn, got, want), case)
        ok = False
    pp = path_problem(got, sn, frozenset(x for x in ref.leaves(want) if x is not None))
    if pp:
        ctx.violation(_sig(case, "path-lengths"), _msg(case, sn, got, want, "; path length " + pp), case)
        ok = False
    return ok


def _check_encoding(ctx, case, tree, bit):
    """update_bipartitions=True: every edge carries the bipartition of the leaves below it"""
    nodes = live_preorder(tree)
    masks = {}
    for nd in reversed(nodes):
        if not nd._child_nodes:
            m = (1 << bit[nd.taxon._label]) if (nd.taxon is not None and nd.taxon._label in bit) else 0
        else:
            m = 0
            for c in nd._child_nodes:
                m |= masks[id(c)]
        masks[id(nd)] = m
    enc = tree.bipartition_encoding
    bad = None
    if enc is None or len(enc) != len(nodes):
        bad = "bipartition_encoding has %s entries for %d edges" % (None if enc is None else len(enc), len(nodes))
    else:
        encids = set(id(b) for b in enc)
        for nd in nodes:
            bp = nd._edge.bipartition
            if bp is None or id(bp) not in encids or bp._leafset_bitmask != masks[id(nd)]:
                bad = "edge above %r has leafset bitmask %r, leaves below give %s" % (
                    nd.taxon._label if nd.taxon is not None else nd._label,
                    None if bp is None else bin(bp._leafset_bitmask), bin(masks[id(nd)]))
                break
    ctx.count("encodings_checked")
    if bad:
        ctx.violation(_sig(case, "update_bipartitions|encoding-not-current"), bad, case)


def check_inplace(case, ctx):
    """case: kind=inplace, api, n, shape, lens, ns, rooted, keep, suppress, upd,
    optional: container, recursive, accept_internal, itaxa + remove + flags"""
    shape, sn = _src(case)
    n = case["n"]
    labels = _labels(case)
    api = case["api"]
    suppress, upd, rooted = case["suppress"], case["upd"], case["rooted"]
    kind = case.get("container", "list")
    ns, bit = build.make_namespace(labels, case["ns"])
    tree = build.build_tree((rooted, sn), ns)
    nodes = live_preorder(tree)
    index = dict((id(nd), i) for i, nd in enumerate(nodes))
    cl = ref.clade_list(sn)
    taxa = dict((t._label, t) for t in ns._taxa)
    kw = dict(update_bipartitions=upd, suppress_unifurcations=suppress)
    drop_empty = True
    removed_subtrees = frozenset()
    if case.get("itaxa"):
        remove = list(case["remove"])
        fl, fi = case["flags"]
        keep = frozenset(l for l in labels if not (fl and l in remove))
        if fi:
            removed_subtrees = frozenset(nd[1] for c, nd in cl if nd[3] and nd[0] in remove)
        kw["is_apply_filter_to_leaf_nodes"] = fl
        kw["is_apply_filter_to_internal_nodes"] = fi
        if api in ("retain_taxa", "retain_taxa_with_labels"):
            del kw["is_apply_filter_to_leaf_nodes"], kw["is_apply_filter_to_internal_nodes"]
        retain = [l for l in sorted(taxa) if l not in remove]
    else:
        keep = frozenset(case["keep"])
        remove = [l for l in labels if l not in keep]
        retain = sorted(keep)
    ret = None
    expect_removed = None
    try:
        if api == "prune_taxa":
            tree.prune_taxa(_container(kind, [taxa[l] for l in remove]), **kw)
        elif api == "prune_taxa_with_labels":
            tree.prune_taxa_with_labels(_container(kind, remove), **kw)
        elif api == "retain_taxa":
            tree.retain_taxa(_container(kind, [taxa[l] for l in retain]), **kw)
        elif api == "retain_taxa_with_labels":
            tree.retain_taxa_with_labels(_container(kind, retain), **kw)
        elif api == "filter_leaf_nodes":
            recursive = case.get("recursive", True)
            if case.get("accept_internal"):
                fn = lambda nd: nd.taxon is None or nd.taxon.label in keep
            else:
                fn = lambda nd: nd.taxon is not None and nd.taxon.label in keep
            drop_empty = recursive and not case.get("accept_internal")
            ret = tree.filter_leaf_nodes(fn, recursive=recursive, **kw)
            expect_removed = True
        elif api == "prune_leaves_without_taxa":
            recursive = case.get("recursive", True)
            for nd in nodes:
                if not nd._child_nodes and nd.taxon._label not in keep:
                    nd.taxon = None
            drop_empty = recursive
            ret = tree.prune_leaves_without_taxa(recursive=recursive, **kw)
            expect_removed = True
        else:
            raise ValueError(api)
    except Exception as e:
        ctx.violation(_sig(case, "exception|%s" % type(e).__name__),
                      "%s(survivors=%s, %s) on %s raised %r" % (api, sorted(keep), kw, ref.to_newick(sn), e), case)
        return
    return _after_inplace(ctx, case, sn, tree, bit, keep, drop_empty, removed_subtrees, ret, expect_removed, index, cl)


def _after_inplace(ctx, case, sn, tree, bit, keep, drop_empty, removed_subtrees, ret, expect_removed, index, cl):
    suppress, upd, rooted = case["suppress"], case["upd"], case["rooted"]
    probs = ref.wellformed(tree)
    if probs:
        ctx.violation(_sig(case, "malformed-tree"), "; ".join(probs), case)
        return
    got = ref.snap_node(tree._seed_node)
    want = filtered(sn, keep, drop_empty, suppress, removed_subtrees)
    other = filtered(sn, keep, drop_empty, not suppress, removed_subtrees)
    lenient = upd and not rooted
    if case.get("itaxa") and case["flags"][1]:
        stray = sorted(x for x in ref.leaves(got) if x is not None and x.startswith("X") and x in case["remove"])
        if stray:
            # its own defect class: an internal node named in the prune set whose children were all
            # removed earlier in the same call is no longer "internal" when the traversal reaches it
            ctx.violation(_sig(case, "internal-node-filter|node-emptied-by-the-same-call-is-kept"),
                          "%s(%s, is_apply_filter_to_leaf_nodes=%r, is_apply_filter_to_internal_nodes=True) on %s gave %s: the node(s) with taxon %s "
                          "were to be pruned but are still in the tree (as leaves); expected %s" % (
                              case["api"], case["remove"], case["flags"][0], ref.to_newick(sn), ref.to_newick(got), stray,
                              ref.to_newick(want)), case)
            return
    _report_difference(ctx, case, sn, got, want, other, keep, unrooted_lenient=lenient)
    if upd:
        _check_encoding(ctx, case, tree, bit)
    if expect_removed:
        ctx.count("removed_lists_checked")
        if drop_empty:
            exp = sorted(i for i, (c, nd) in enumerate(cl) if not (c & keep))
        else:
            exp = sorted(i for i, (c, nd) in enumerate(cl) if not nd[3] and nd[0] not in keep)
        try:
            gotidx = sorted(index.get(id(x), -1) for x in ret)
        except TypeError:
            gotidx = None
        if gotidx != exp:
            ctx.violation(_sig(case, "removed-nodes"),
                          "%s on %s (survivors %s) reported removed nodes %s (pre-order indices in the source, -1 = not a node of the tree), the removed ones are %s" % (
                              case["api"], ref.to_newick(sn), sorted(keep), gotidx, exp), case)
    return got


def check_subtree(case, ctx):
    """prune_subtree at the node with pre-order index `node`"""
    shape, sn = _src(case)
    n = case["n"]
    labels = _labels(case)
    ns, bit = build.make_namespace(labels, case["ns"])
    tree = build.build_tree((case["rooted"], sn), ns)
    nodes = live_preorder(tree)
    index = dict((id(nd), i) for i, nd in enumerate(nodes))
    cl = ref.clade_list(sn)
    i = case["node"]
    sub_labels = frozenset(x[1] for x in ref.preorder(cl[i][1]) if x[1] is not None)
    sub_leaves = frozenset(x for x in ref.leaves(cl[i][1]) if x is not None)
    keep = frozenset(l for l in ref.leaves(sn) if l is not None and l not in sub_leaves)
    case = dict(case, keep=sorted(keep))
    only_child = len(nodes[i]._parent_node._child_nodes) == 1
    try:
        tree.prune_subtree(nodes[i], update_bipartitions=case["upd"], suppress_unifurcations=case["suppress"])
    except Exception as e:
        ctx.violation(_sig(case, "exception|%s" % type(e).__name__),
                      "prune_subtree(node %d) on %s raised %r" % (i, ref.to_newick(sn), e), case)
        return
    if case.get("unif") and only_child:
        got = ref.snap_node(tree._seed_node)
        bare = [x for x in ref.preorder(got) if not x[3] and x[0] is None]
        if only_child and bare and not ref.wellformed(tree):
            ctx.violation(_sig(case, "only-child|childless-parent-left-as-leaf"),
                          "prune_subtree of the only child of node %s in %s (suppress_unifurcations=%r) gave %s: the emptied parent stays as a leaf without taxon; induced subtree is %s" % (
                              bare[0][1], ref.to_newick(sn), case["suppress"], ref.to_newick(got),
                              ref.to_newick(filtered(sn, keep, True, case["suppress"]))), case)
            return
    _after_inplace(ctx, case, sn, tree, bit, keep, True, sub_labels if cl[i][1][3] else frozenset(), None, None, index, cl)


def check_extract(case, ctx):
    """case: kind=extract, api, n, shape, lens, ns, rooted, keep, suppress; optional
    excluded (labels of internal nodes the predicate rejects), apply_leaf, apply_internal,
    attr (extraction_source_reference_attr_name; '' = default), container, nofilter"""
    shape, sn = _src(case)
    n = case["n"]
    labels = _labels(case)
    api = case["api"]
    suppress = case["suppress"]
    kind = case.get("container", "list")
    ns, bit = build.make_namespace(labels, case["ns"])
    tree = build.build_tree((case["rooted"], sn), ns)
    nodes = live_preorder(tree)
    index = dict((id(nd), i) for i, nd in enumerate(nodes))
    cl = ref.clade_list(sn)
    taxa = dict((t._label, t) for t in ns._taxa)
    keep = frozenset(case["keep"])
    if case.get("itaxa"):
        # the wrappers' predicates look at leaves only; internal taxa are inert
        names = sorted(taxa)
        remove = [l for l in names if l not in case["retain"]]
        retain = list(case["retain"])
    else:
        remove = [l for l in labels if l not in keep]
        retain = sorted(keep)
    attr = case.get("attr", "")
    kw = {}
    if attr != "":
        kw["extraction_source_reference_attr_name"] = attr
    attr_name = "extraction_source" if attr == "" else attr
    removed_subtrees = frozenset()
    eff_keep = keep
    state = capture_state(tree) if state_wanted(case) else None
    try:
        if api == "extract_tree":
            if case.get("nofilter"):
                eff_keep = frozenset(labels)
                other = tree.extract_tree(suppress_unifurcations=suppress, **kw)
            else:
                excluded = frozenset(case.get("excluded", ()))
                al, ai = case.get("apply_leaf", True), case.get("apply_internal", False)

                def fn(nd, keep=keep, excluded=excluded):
                    if nd._child_nodes:
                        return nd.label not in excluded
                    return nd.taxon is not None and nd.taxon.label in keep
                if ai:
                    removed_subtrees = excluded
                if not al:
                    eff_keep = frozenset(labels)
                other = tree.extract_tree(node_filter_fn=fn, suppress_unifurcations=suppress,
                                          is_apply_filter_to_leaf_nodes=al, is_apply_filter_to_internal_nodes=ai, **kw)
        elif api == "extract_tree_with_taxa":
            other = tree.extract_tree_with_taxa(_container(kind, [taxa[l] for l in retain]), suppress_unifurcations=suppress, **kw)
        elif api == "extract_tree_with_taxa_labels":
            other = tree.extract_tree_with_taxa_labels(_container(kind, retain), suppress_unifurcations=suppress, **kw)
        elif api == "extract_tree_without_taxa":
            other = tree.extract_tree_without_taxa(_container(kind, [taxa[l] for l in remove]), suppress_unifurcations=suppress, **kw)
        elif api == "extract_tree_without_taxa_labels":
            other = tree.extract_tree_without_taxa_labels(_container(kind, remove), suppress_unifurcations=suppress, **kw)
        else:
            raise ValueError(api)
    except Exception as e:
        report_state(ctx, api, case, state, " (which raised)")
        ctx.violation(_sig(case, "exception|%s" % type(e).__name__),
                      "%s(survivors=%s, suppress_unifurcations=%r) on %s raised %r" % (api, sorted(keep), suppress, ref.to_newick(sn), e), case)
        return
    report_state(ctx, api, case, state)
    want = filtered(sn, eff_keep, True, suppress, removed_subtrees)
    wother = filtered(sn, eff_keep, True, not suppress, removed_subtrees)
    if want is None:
        raise AssertionError("harness: empty expectation generated for %r" % (case,))
    survivors = frozenset(x for x in ref.leaves(want) if x is not None)
    return _after_extract(ctx, case, sn, tree, nodes, index, cl, other, other._seed_node if other is not None else None,
                          want, wother, survivors, attr_name, attr is not None)


def _after_extract(ctx, case, sn, tree, nodes, index, cl, other_tree, other_seed, want, wother, survivors, attr_name, expect_attr,
                   src_root_index=0):
    # the source is untouched
    now = live_preorder(tree)
    if [id(x) for x in now] != [id(x) for x in nodes] or ref.snap_node(tree._seed_node) != sn or tree._is_rooted != case["rooted"]:
        ctx.violation(_sig(case, "source-altered"), "%s changed its source tree: %s -> %s" % (
            case["api"], ref.to_newick(sn), ref.to_newick(ref.snap_node(tree._seed_node))), case)
    probs = ref.wellformed(tree)
    if probs:
        ctx.violation(_sig(case, "source-altered"), "source no longer well formed: " + "; ".join(probs), case)
    if other_seed is None:
        ctx.violation(_sig(case, "no-result"), "no tree / seed node returned", case)
        return
    if other_tree is not None:
        probs = ref.wellformed(other_tree)
        if probs:
            ctx.violation(_sig(case, "malformed-tree"), "; ".join(probs), case)
            return
        if other_tree is tree:
            ctx.violation(_sig(case, "result-is-source"), "the source itself was returned", case)
            return
    newnodes = node_preorder(other_seed)
    if any(id(x) in index for x in newnodes):
        ctx.violation(_sig(case, "shares-nodes-with-source"), "the extracted tree contains node objects of the source", case)
        return
    got = ref.snap_node(other_seed)
    _report_difference(ctx, case, sn, got, want, wother, survivors)
    _extraction_source_links(ctx, case, newnodes, index, cl, survivors, attr_name, expect_attr)
    return got


def _extraction_source_links(ctx, case, newnodes, index, cl, survivors, attr_name, expect_attr):
    seen = set()
    for nd in newnodes:
        ctx.count("extraction_source_links_checked")
        if not expect_attr:
            if hasattr(nd, "extraction_source"):
                ctx.violation(_sig(case, "extraction_source|set-although-declined"),
                              "attribute extraction_source present although the attribute name was None", case)
                break
            continue
        if not hasattr(nd, attr_name):
            ctx.violation(_sig(case, "extraction_source|missing"), "new node %r has no attribute %r" % (
                nd.taxon._label if nd.taxon is not None else nd._label, attr_name), case)
            break
        s = getattr(nd, attr_name)
        i = index.get(id(s))
        if i is None:
            ctx.violation(_sig(case, "extraction_source|not-a-source-node"), "%s of new node %r is %r, not a node of the source tree" % (
                attr_name, nd.taxon._label if nd.taxon is not None else nd._label, s), case)
            break
        below = frozenset(x.taxon._label for x in node_preorder(nd) if not x._child_nodes and x.taxon is not None)
        if s.taxon is not nd.taxon or s._label != nd._label or i in seen or (cl[i][0] & survivors) != below:
            ctx.violation(_sig(case, "extraction_source|wrong-node"),
                          "new node (taxon %r, label %r, leaves %s) is mapped to source node #%d (taxon %r, label %r, leaves %s; survivors %s)" % (
                              nd.taxon._label if nd.taxon is not None else None, nd._label, sorted(below), i,
                              s.taxon._label if s.taxon is not None else None, s._label, sorted(cl[i][0]), sorted(survivors)), case)
            break
        seen.add(i)


def check_node_extract(case, ctx):
    """Node.extract_subtree started at the inner node with pre-order index `node`"""
    shape, sn = _src(case)
    n = case["n"]
    labels = _labels(case)
    ns, bit = build.make_namespace(labels, case["ns"])
    tree = build.build_tree((case["rooted"], sn), ns)
    nodes = live_preorder(tree)
    index = dict((id(nd), i) for i, nd in enumerate(nodes))
    cl = ref.clade_list(sn)
    i = case["node"]
    keep = frozenset(case["keep"])
    suppress = case["suppress"]
    sub = cl[i][1]
    fn = lambda nd: nd.taxon is not None and nd.taxon.label in keep
    state = capture_state(tree)
    try:
        res = nodes[i].extract_subtree(node_filter_fn=fn, suppress_unifurcations=suppress)
    except Exception as e:
        report_state(ctx, "Node.extract_subtree", case, state, " (which raised)")
        ctx.violation(_sig(case, "inner-start-node|exception|%s" % type(e).__name__),
                      "Node.extract_subtree at node %s of %s (survivors %s, suppress_unifurcations=%r) raised %r" % (
                          sub[1], ref.to_newick(sn), sorted(keep), suppress, e), case)
        return
    report_state(ctx, "Node.extract_subtree", case, state)
    want = filtered(sub, keep, True, suppress)
    wother = filtered(sub, keep, True, not suppress)
    # `sn` for the path check is the subtree; the source-untouched check uses the whole tree
    shape_case = dict(case)
    now = live_preorder(tree)
    if [id(x) for x in now] != [id(x) for x in nodes] or ref.snap_node(tree._seed_node) != sn:
        ctx.violation(_sig(case, "source-altered"), "Node.extract_subtree changed its source tree", case)
    if res is None:
        ctx.violation(_sig(case, "no-result"), "None returned", case)
        return
    newnodes = node_preorder(res)
    if any(id(x) in index for x in newnodes):
        ctx.violation(_sig(case, "shares-nodes-with-source"), "the extracted subtree contains node objects of the source", case)
        return
    if res._parent_node is not None:
        ctx.violation(_sig(case, "result-has-parent"), "the returned start node has a parent", case)
    got = ref.snap_node(res)
    _report_difference(ctx, shape_case, sub, got, want, wother, keep)
    for nd in newnodes:
        s = getattr(nd, "extraction_source", None)
        j = index.get(id(s))
        below = frozenset(x.taxon._label for x in node_preorder(nd) if not x._child_nodes and x.taxon is not None)
        if j is None or s.taxon is not nd.taxon or s._label != nd._label or (cl[j][0] & keep) != below:
            ctx.violation(_sig(case, "extraction_source|wrong-node"), "clone %r mapped to %r" % (nd._label, s), case)
            break


GROUP_INPLACE = ["prune_taxa", "retain_taxa"]
GROUP_EXTRACT = ["extract_tree", "extract_tree_with_taxa", "extract_tree_without_taxa"]


def check_unif_group(case, ctx):
    """One source drawing that already contains out-degree-one nodes, one survivor set, one
    suppress setting: every API of the group is compared with the induced-subtree reference
    (by the ordinary single-API checks) and, in addition, every extraction result must equal
    the result of pruning / retaining in place on a fresh copy (unordered, with lengths and
    labels) - the 'all agree' clause of the statement."""
    results = {}
    big = bool(case.get("big"))
    apis = case.get("apis") or ((INPLACE + ["extract_tree"] + WRAPPERS) if big else (GROUP_INPLACE + GROUP_EXTRACT))
    for api in apis:
        sub = dict((k, v) for k, v in case.items() if k != "apis")
        sub.update(kind="inplace" if api in INPLACE else "extract", api=api)
        if api in INPLACE:
            sub["upd"] = False
        ctx.count("large_tree_calls" if big else "unifurcation_layer_calls")
        ctx.case(_key(sub), nontrivial=case["n"] >= 2)
        results[api] = _check(sub, ctx)
    shape, sn = _src(case)
    nothing_excluded = len(case["keep"]) == case["n"]
    modulo = case["suppress"] and nothing_excluded and bool(case.get("unif"))
    suffix = "|source-has-unifurcations" if case.get("unif") else ""
    normed = {}

    def norm(a):
        if a not in normed:
            normed[a] = suppress_all(results[a]) if modulo else results[a]
        return normed[a]
    for a in apis:
        if a in INPLACE or results.get(a) is None:
            continue
        for b in apis:
            if b not in INPLACE or results.get(b) is None:
                continue
            ctx.count("extraction_vs_inplace_agreements_checked")
            if not same_tree(norm(a), norm(b)):
                # one signature per extraction entry point; the message names the in-place one
                ctx.violation("%s|disagrees-with-in-place-pruning%s" % (a, suffix),
                              "on %s with survivors %s, suppress_unifurcations=%r: %s gives %s but %s on a fresh copy gives %s" % (
                                  ref.to_newick(sn), case["keep"], case["suppress"], a, ref.to_newick(results[a]),
                                  b, ref.to_newick(results[b])), case)
                break


# ---------------------------------------------------------------------------
# namespaces in which one label names several Taxon objects

LABEL_VARIANTS = ["duplicate-labels", "case-variant-labels"]
LABEL_PLACEMENTS = ["both-on-tree", "extra-taxon-after", "extra-taxon-before"]
LABEL_APIS = ["prune_taxa_with_labels", "retain_taxa_with_labels",
              "extract_tree_with_taxa_labels", "extract_tree_without_taxa_labels"]


def _label_setup(case):
    """-> (leaf labels by leaf index, namespace labels in accession order, index of the off-tree taxon or None)"""
    n = case["n"]
    twin = "a" if case["variant"] == "duplicate-labels" else "A"
    if case["placement"] == "both-on-tree":
        leaf = (["a", twin] + ["b", "c", "d", "e"])[:n]
        return leaf, list(leaf), None
    leaf = ["a", "b", "c", "d", "e", "f"][:n]
    if case["placement"] == "extra-taxon-after":
        return leaf, leaf + [twin], n
    return leaf, [twin] + leaf, 0


def _label_match(label, req, cs):
    if cs:
        return label in req
    return label.lower() in set(r.lower() for r in req)


def _build_label_tree(case):
    shape = tup(case["shape"])
    leaf, nslabels, off = _label_setup(case)
    sn = ref.mk(shape, lens=_lens("pow2"), labels=leaf, ilabels=_ilabel)
    ns = dendropy.TaxonNamespace(is_case_sensitive=case["cs"])
    taxa = [dendropy.Taxon(label=l) for l in nslabels]
    for t in taxa:
        ns.add_taxon(t)
    on_tree = [t for i, t in enumerate(taxa) if i != off]

    def rec(sh, snode):
        nd = dendropy.Node()
        if isinstance(sh, int):
            nd.taxon = on_tree[sh]
        else:
            nd.label = snode[1]
            for c, sc in zip(sh, snode[3]):
                nd.add_child(rec(c, sc))
        nd.edge.length = snode[2]
        return nd
    tree = dendropy.Tree(taxon_namespace=ns)
    tree.seed_node = rec(shape, sn)
    tree.is_rooted = True
    if ref.snap_node(tree._seed_node) != sn:
        raise AssertionError("harness: label-layer builder does not reproduce its snapshot")
    return tree, sn, leaf, nslabels


def _label_expectations(case, api, leaf, nslabels, req):
    """acceptable survivor label sets for one call (more than one only where the docstrings leave
    the matching rule open)"""
    cs = case["cs"]
    rule = frozenset(l for l in leaf if _label_match(l, req, cs))
    exact = frozenset(l for l in leaf if l in req)
    allv = frozenset(leaf)
    if api == "prune_taxa_with_labels":          # "Taxon objects with labels given by labels": the namespace's rule
        return [allv - rule]
    if api == "retain_taxa_with_labels":
        return [rule]
    # the extraction wrappers say "labels matching those listed" without naming a case rule:
    # exact matching and the namespace's rule are both accepted
    alts = [exact, rule] if exact != rule else [rule]
    if api == "extract_tree_without_taxa_labels":
        alts = [allv - a for a in alts]
    return alts


def check_label_group(case, ctx):
    """case: kind=labelgroup, n, shape, variant, placement, cs, req, suppress"""
    req = list(case["req"])
    suppress = case["suppress"]
    variant = case["variant"]
    tree0, sn, leaf, nslabels = _build_label_tree(case)
    distinct = []
    for l in nslabels:
        if l not in distinct:
            distinct.append(l)
    complement = [l for l in distinct if not _label_match(l, req, case["cs"])]
    calls = [(api, req) for api in LABEL_APIS]
    if complement:
        calls.append(("retain_taxa_with_labels", complement))      # retaining the complement == pruning req
        calls.append(("prune_taxa_with_labels", complement))       # pruning the complement == retaining req
    results = {}
    for k, (api, arg) in enumerate(calls):
        alts = _label_expectations(case, api, leaf, nslabels, arg)
        if any(not a for a in alts):
            ctx.count("skipped_would_remove_every_leaf")
            continue
        ctx.count("label_layer_calls")
        sub = dict(case, api=api, arg=arg)
        ctx.case(_key(dict(sub, kind="labelcall")), nontrivial=True)
        tree, _, _, _ = _build_label_tree(case)
        nodes = live_preorder(tree)
        state = capture_state(tree) if api.startswith("extract") else None
        try:
            if api.startswith("extract"):
                res = getattr(tree, api)(arg, suppress_unifurcations=suppress)
            else:
                getattr(tree, api)(arg, suppress_unifurcations=suppress)
                res = tree
        except Exception as e:
            ctx.violation("%s|%s|exception|%s" % (api, variant, type(e).__name__),
                          "%s(%s, suppress_unifurcations=%r) on %s, namespace labels %s (is_case_sensitive=%r) raised %r" % (
                              api, arg, suppress, ref.to_newick(sn), nslabels, case["cs"], e), case)
            continue
        probs = ref.wellformed(res)
        if probs:
            ctx.violation("%s|%s|malformed-tree" % (api, variant), "; ".join(probs), case)
            continue
        if api.startswith("extract"):
            report_state(ctx, api, case, state)
            if [id(x) for x in live_preorder(tree)] != [id(x) for x in nodes] or ref.snap_node(tree._seed_node) != sn:
                ctx.violation("%s|%s|source-altered" % (api, variant), "%s changed its source tree" % api, case)
        got = ref.snap_node(res._seed_node)
        results[(api, tuple(arg))] = got
        feats = []
        for keep in alts:
            want = filtered(sn, keep, True, suppress)
            other = filtered(sn, keep, True, not suppress)
            f = classify(got, want, other)
            feats.append((f, want))
            if f is None:
                break
        if feats[-1][0] is not None:
            f, want = feats[0]
            if f == "flag":
                f = "suppress_unifurcations-flag-not-honoured"
            ctx.violation("%s|%s|%s" % (api, variant, f),
                          "%s(%s, suppress_unifurcations=%r) on %s with namespace labels %s (is_case_sensitive=%r, %s) gave %s; the leaves "
                          "whose taxon label matches are %s, so the induced subtree is %s" % (
                              api, arg, suppress, ref.to_newick(sn), nslabels, case["cs"], case["placement"], ref.to_newick(got),
                              sorted(l for l in leaf if _label_match(l, arg, case["cs"])), ref.to_newick(want)), case)
    # mutual agreement (only where the docstrings fix one answer for both sides)
    rule = frozenset(l for l in leaf if _label_match(l, req, case["cs"]))
    exact = frozenset(l for l in leaf if l in req)
    pairs = [(("prune_taxa_with_labels", tuple(req)), ("retain_taxa_with_labels", tuple(complement))),
             (("retain_taxa_with_labels", tuple(req)), ("prune_taxa_with_labels", tuple(complement)))]
    if rule == exact:
        pairs += [(("extract_tree_without_taxa_labels", tuple(req)), ("prune_taxa_with_labels", tuple(req))),
                  (("extract_tree_with_taxa_labels", tuple(req)), ("retain_taxa_with_labels", tuple(req)))]
    else:
        ctx.count("label_layer_extraction_agreement_not_demanded_case_rule_open")
    for x, y in pairs:
        if x in results and y in results:
            ctx.count("label_layer_agreements_checked")
            if not same_tree(results[x], results[y]):
                ctx.violation("%s|%s|disagrees-with-%s" % (x[0], variant, y[0]),
                              "on %s with namespace labels %s (is_case_sensitive=%r): %s(%s) gives %s but %s(%s) gives %s" % (
                                  ref.to_newick(sn), nslabels, case["cs"], x[0], list(x[1]), ref.to_newick(results[x]),
                                  y[0], list(y[1]), ref.to_newick(results[y])), case)


# ---------------------------------------------------------------------------
# repeated extraction from one source (state left behind by one call must not leak into the next)

def _step_kind(step):
    api = step["api"]
    if api in ("prune_taxa", "retain_taxa"):
        return api
    if step.get("excluded"):
        return "extract_tree-internal-filter"
    return api


def check_repeat(case, ctx):
    """case: kind=repeat, n, shape, lens, steps = [step...]; step = {api, keep, suppress[, excluded]}
    with api in extract_tree_with_taxa / extract_tree (node filter; `excluded` = labels of internal nodes
    the predicate rejects, is_apply_filter_to_internal_nodes=True) / prune_taxa / retain_taxa (in place on
    the source).  All steps act on ONE live source tree; every extraction step is judged by the induced
    subtree of the source as it then is; a step whose expectation is empty must be refused (raise)."""
    shape, sn = _src(case)
    labels = _labels(case)
    ns, bit = build.make_namespace(labels, "exact")
    tree = build.build_tree((True, sn), ns)
    taxa = dict((t._label, t) for t in ns._taxa)
    cur = sn
    prev = "start"
    for k, step in enumerate(case["steps"]):
        api, suppress = step["api"], step["suppress"]
        kind = _step_kind(step)
        here = frozenset(x for x in ref.leaves(cur) if x is not None)
        keep = frozenset(step["keep"]) & here
        sig = "repeat|%s->%s|" % (prev, kind)
        ctx.count("repeat_layer_calls")
        if api in ("prune_taxa", "retain_taxa"):
            want = filtered(cur, keep, True, suppress)
            if want is None:
                raise AssertionError("harness: in-place step that removes every leaf generated: %r" % (case,))
            try:
                if api == "prune_taxa":
                    tree.prune_taxa([taxa[l] for l in sorted(here - keep)], suppress_unifurcations=suppress)
                else:
                    tree.retain_taxa([taxa[l] for l in sorted(keep)], suppress_unifurcations=suppress)
            except Exception as e:
                ctx.violation(sig + "exception|%s" % type(e).__name__, "step %d of %s raised %r" % (k, case["steps"], e), case)
                return
            got = ref.snap_node(tree._seed_node)
            f = classify(got, want, None)
            if f is not None or ref.wellformed(tree):
                ctx.violation(sig + (f or "malformed-tree"), "after steps %s the source is %s, induced subtree is %s" % (
                    case["steps"][:k + 1], ref.to_newick(got), ref.to_newick(want)), case)
                return
            cur = got
            prev = kind
            continue
        excluded = frozenset(step.get("excluded", ()))
        want = filtered(cur, keep, True, suppress, excluded)
        other = None if want is None else filtered(cur, keep, True, not suppress, excluded)
        nodes = live_preorder(tree)
        state = capture_state(tree)
        err = None
        res = None
        try:
            if api == "extract_tree_with_taxa":
                res = tree.extract_tree_with_taxa([taxa[l] for l in sorted(keep)], suppress_unifurcations=suppress)
            elif api == "extract_tree":
                def fn(nd, keep=keep, excluded=excluded):
                    if nd._child_nodes:
                        return nd.label not in excluded
                    return nd.taxon is not None and nd.taxon.label in keep
                res = tree.extract_tree(node_filter_fn=fn, suppress_unifurcations=suppress,
                                        is_apply_filter_to_internal_nodes=bool(excluded))
            else:
                raise ValueError(api)
        except ValueError as e:
            if api not in ("extract_tree_with_taxa", "extract_tree"):
                raise
            err = e
        except Exception as e:
            err = e
        note_unknown_private(ctx, state)
        if state_problem(state):
            ctx.violation(sig + "source-object-state-changed", "step %d of %s%s: %s" % (
                k, case["steps"], " (which raised %r)" % (err,) if err is not None else "", state_problem(state)), case)
        if [id(x) for x in live_preorder(tree)] != [id(x) for x in nodes] or ref.snap_node(tree._seed_node) != cur:
            ctx.violation(sig + "source-altered", "step %d of %s changed the source tree" % (k, case["steps"]), case)
            return
        if want is None:
            # nothing would survive: the call has to be refused; what it raises is the library's business
            ctx.count("repeat_layer_refused_calls")
            if err is None:
                ctx.count("repeat_layer_refused_calls_that_returned")
            prev = kind + "-refused"
            continue
        if err is not None:
            ctx.violation(sig + "exception|%s" % type(err).__name__, "step %d of %s on %s raised %r; induced subtree is %s" % (
                k, case["steps"], ref.to_newick(cur), err, ref.to_newick(want)), case)
            return
        probs = ref.wellformed(res)
        if probs:
            ctx.violation(sig + "malformed-tree", "; ".join(probs), case)
            return
        ids = set(id(x) for x in nodes)
        got = ref.snap_node(res._seed_node)
        if any(id(x) in ids for x in live_preorder(res)):
            ctx.violation(sig + "shares-nodes-with-source", "step %d of %s: the extracted tree contains node objects of the source" % (
                k, case["steps"]), case)
            return
        f = classify(got, want, other)
        if f is not None:
            if f == "flag":
                f = "suppress_unifurcations-flag-not-honoured"
            ctx.violation(sig + f, "steps %s on %s: step %d gave %s, the induced subtree of the source (then %s) is %s" % (
                case["steps"], ref.to_newick(sn), k, ref.to_newick(got), ref.to_newick(cur), ref.to_newick(want)), case)
            return
        prev = kind


class _Probe(object):
    """stand-in for Ctx that only records violations"""

    def __init__(self):
        self.got = []

    def violation(self, signature, message, case):
        self.got.append((signature, message))

    def case(self, *a, **k):
        pass

    count = maximum = sample = case


def check(case, ctx):
    if case.get("container") in ONE_SHOT:
        # An argument that can be iterated only once: if the call fails with it but
        # succeeds with the same items in a list, that is one defect class of its own
        # (the argument is consumed by the first membership test), reported per API.
        p = _Probe()
        _check(case, p)
        if p.got:
            q = _Probe()
            _check(dict(case, container="list"), q)
            if not q.got:
                ctx.violation("%s|one-shot-iterable-argument" % case["api"],
                              "with the %s passed as a one-shot %s: %s" % (
                                  "labels" if case["api"].endswith("labels") else "taxa", case["container"], p.got[0][1]), case)
            else:
                for sig, msg in p.got:
                    ctx.violation(sig, msg, case)
        return
    _check(case, ctx)


def _check(case, ctx):
    k = case["kind"]
    if k == "inplace":
        return check_inplace(case, ctx)
    elif k == "subtree":
        check_subtree(case, ctx)
    elif k == "extract":
        return check_extract(case, ctx)
    elif k == "node_extract":
        check_node_extract(case, ctx)
    elif k == "unifgroup":
        check_unif_group(case, ctx)
    elif k == "labelgroup":
        check_label_group(case, ctx)
    elif k == "repeat":
        check_repeat(case, ctx)
    else:
        raise ValueError("unknown case kind %r" % (k,))


def _key(case):
    return tuple(sorted((k, tup(v) if isinstance(v, list) else v) for k, v in case.items()))


def _do(case, ctx, counter, nontrivial):
    ctx.case(_key(case), nontrivial=nontrivial)
    ctx.count(counter)
    check(case, ctx)


# ---------------------------------------------------------------------------
# enumeration

def run_chunk(chunk, ctx):
    kind = chunk["kind"]
    if kind == "core":
        return run_core(chunk, ctx)
    if kind == "itaxa":
        return run_itaxa(chunk, ctx)
    if kind == "containers":
        return run_containers(chunk, ctx)
    if kind == "unif":
        return run_unif(chunk, ctx)
    if kind == "node_extract":
        return run_node_extract(chunk, ctx)
    if kind == "big":
        return run_big(chunk, ctx)
    if kind == "labels":
        return run_labels(chunk, ctx)
    if kind == "repeat":
        return run_repeat(chunk, ctx)
    raise ValueError(kind)


def run_core(chunk, ctx):
    n, layer = chunk["n"], chunk["layer"]
    lens, nscfg = LAYERS[layer]
    labels = U.LABELS[:n]
    shapes = U.shapes(n)
    nt = n >= 3
    for si in range(chunk["lo"], chunk["hi"]):
        shape = shapes[si]
        sn = source_snapshot(shape, lens)
        base = {"n": n, "shape": shape, "lens": lens, "ns": nscfg}
        cl = ref.clade_list(sn)
        inner = [nd[1] for c, nd in cl[1:] if nd[3]]
        ctx.count("source_trees")
        for keep in nonempty_subsets(labels):
            keepl = list(keep)
            ctx.count("tree_x_subset")
            if len(keep) == 1:
                ctx.count("subsets_single_survivor")
            if len(keep) == n:
                ctx.count("subsets_all_kept")
            w = filtered(sn, frozenset(keep), True, False)
            # harness self-check: the two reference implementations agree and the
            # induced subtree preserves the path lengths of the source
            for sup in (True, False):
                r1, r2 = filtered(sn, frozenset(keep), True, sup), ref.induced(sn, frozenset(keep), sup)
                if r1 != r2 or path_problem(r1, sn, frozenset(keep)):
                    raise AssertionError("harness: reference models disagree on %r keep %r" % (shape, keep))
            if len(w[3]) == 1:
                ctx.count("subsets_leaving_root_with_one_child")
            if has_unifurcation(w):
                ctx.count("subsets_creating_unifurcations")
            # in-place family
            for api in INPLACE:
                for suppress in (True, False):
                    for upd in (False, True):
                        rootings = (True, False) if (upd and lens != "partial") else (True,)
                        for rooted in rootings:
                            _do(dict(base, kind="inplace", api=api, keep=keepl, suppress=suppress, upd=upd, rooted=rooted),
                                ctx, "inplace_calls", nt)
            # filter variants: single pass; predicate accepting emptied internal nodes
            for api in ("filter_leaf_nodes", "prune_leaves_without_taxa"):
                for suppress in (True, False):
                    _do(dict(base, kind="inplace", api=api, keep=keepl, suppress=suppress, upd=False, rooted=True, recursive=False),
                        ctx, "filter_variant_calls", nt)
            for suppress in (True, False):
                _do(dict(base, kind="inplace", api="filter_leaf_nodes", keep=keepl, suppress=suppress, upd=False, rooted=True,
                         accept_internal=True), ctx, "filter_variant_calls", nt)
            # extraction family
            for suppress in (True, False):
                for api in WRAPPERS:
                    _do(dict(base, kind="extract", api=api, keep=keepl, suppress=suppress, rooted=True), ctx, "extract_calls", nt)
                _do(dict(base, kind="extract", api="extract_tree", keep=keepl, suppress=suppress, rooted=True), ctx, "extract_calls", nt)
                # internal-node predicates: every non-empty set of rejected non-root internal nodes
                for ex in nonempty_subsets(inner):
                    exs = frozenset(ex)
                    if filtered(sn, frozenset(keep), True, True, exs) is None:
                        ctx.count("skipped_would_remove_every_leaf")
                        continue
                    _do(dict(base, kind="extract", api="extract_tree", keep=keepl, suppress=suppress, rooted=True,
                             excluded=list(ex), apply_internal=True), ctx, "extract_internal_predicate_calls", nt)
            if layer == "pow2":
                for attr in (None, "origin"):
                    for api in ("extract_tree", "extract_tree_with_taxa", "extract_tree_without_taxa_labels"):
                        _do(dict(base, kind="extract", api=api, keep=keepl, suppress=True, rooted=False, attr=attr),
                            ctx, "extract_attr_name_calls", nt)
        # once per tree: no filter; filter not applied to leaves; internal predicate declared but not applied
        for suppress in (True, False):
            _do(dict(base, kind="extract", api="extract_tree", keep=list(labels), suppress=suppress, rooted=True, nofilter=True),
                ctx, "extract_calls", nt)
            _do(dict(base, kind="extract", api="extract_tree", keep=[labels[0]], suppress=suppress, rooted=True, apply_leaf=False),
                ctx, "extract_calls", nt)
            for ex in nonempty_subsets(inner):
                _do(dict(base, kind="extract", api="extract_tree", keep=list(labels), suppress=suppress, rooted=True,
                         excluded=list(ex), apply_internal=False), ctx, "extract_calls", nt)
        # prune_subtree at every non-root node
        for i in range(1, len(cl)):
            for suppress in (True, False):
                for upd in (False, True):
                    rootings = (True, False) if (upd and lens != "partial") else (True,)
                    for rooted in rootings:
                        _do(dict(base, kind="subtree", api="prune_subtree", node=i, suppress=suppress, upd=upd, rooted=rooted),
                            ctx, "prune_subtree_calls", nt)
        if n >= 4 and si % 7 == 0:
            kp = frozenset(labels[1:n - 1])
            ctx.sample({"tree": ref.to_newick(sn), "layer": layer, "namespace": nscfg, "survivor_subsets_enumerated": 2 ** n - 1,
                        "example_survivors": sorted(kp),
                        "induced_subtree": ref.to_newick(filtered(sn, kp, True, True)),
                        "induced_subtree_suppression_declined": ref.to_newick(filtered(sn, kp, True, False)),
                        "apis": INPLACE + ["prune_subtree"] + WRAPPERS + ["extract_tree"]}, 1)
    return None


def run_itaxa(chunk, ctx):
    """trees whose internal nodes carry taxa: every subset of all taxa as the prune set"""
    n = chunk["n"]
    labels = U.LABELS[:n]
    shapes = U.shapes(n)
    nt = n >= 3
    for si in range(chunk["lo"], chunk["hi"]):
        shape = shapes[si]
        sn = source_snapshot(shape, "pow2", True)
        cl = ref.clade_list(sn)
        itax = [nd[0] for c, nd in cl if nd[3]]
        alltax = list(labels) + itax
        base = {"n": n, "shape": shape, "lens": "pow2", "ns": "exact", "itaxa": True, "rooted": True}
        ctx.count("source_trees_with_internal_taxa")
        internal_only = bool(chunk.get("internal_only"))
        for remove in all_subsets(itax if internal_only else alltax):
            rm = frozenset(remove)
            for flags in (((True, True), (False, True)) if internal_only else ((True, False), (True, True), (False, True))):
                fl, fi = flags
                keep = frozenset(l for l in labels if not (fl and l in rm))
                rsub = frozenset(nd[1] for c, nd in cl if nd[3] and nd[0] in rm) if fi else frozenset()
                if fi and sn[0] in rm:
                    ctx.count("skipped_would_remove_every_leaf")
                    continue
                w = filtered(sn, keep, True, False, rsub)
                if w is None:
                    ctx.count("skipped_would_remove_every_leaf")
                    continue
                # domain: no surviving taxon-bearing internal node is emptied
                w2 = filtered(sn, keep, False, False, rsub)
                if ref.canon(w2) != ref.canon(w):
                    ctx.count("skipped_emptied_taxon_bearing_internal_node")
                    continue
                for suppress in (True, False):
                    for api in ("prune_taxa", "prune_taxa_with_labels"):
                        _do(dict(base, kind="inplace", api=api, remove=list(remove), flags=list(flags), keep=sorted(keep),
                                 suppress=suppress, upd=False), ctx, "internal_taxa_calls", nt)
                    if flags == (True, False):
                        for api in ("retain_taxa", "retain_taxa_with_labels"):
                            _do(dict(base, kind="inplace", api=api, remove=list(remove), flags=list(flags), keep=sorted(keep),
                                     suppress=suppress, upd=False), ctx, "internal_taxa_calls", nt)
                        retain = [l for l in alltax if l not in rm]
                        for api in WRAPPERS:
                            _do(dict(base, kind="extract", api=api, keep=sorted(keep), retain=retain, suppress=suppress),
                                ctx, "internal_taxa_calls", nt)
    return None


CONTAINERS = ["tuple", "set", "frozenset", "reversed_list", "dict_keys", "namespace", "iterator", "generator"]


def run_containers(chunk, ctx):
    n = chunk["n"]
    labels = U.LABELS[:n]
    shapes = U.shapes(n)
    nt = n >= 3
    for si in range(chunk["lo"], chunk["hi"]):
        shape = shapes[si]
        base = {"n": n, "shape": shape, "lens": "pow2", "ns": "exact", "rooted": True, "suppress": True}
        for keep in nonempty_subsets(labels):
            for kind in CONTAINERS:
                for api in ("prune_taxa", "prune_taxa_with_labels", "retain_taxa", "retain_taxa_with_labels"):
                    if kind == "namespace" and api.endswith("labels"):
                        continue
                    _do(dict(base, kind="inplace", api=api, keep=list(keep), upd=False, container=kind), ctx, "container_calls", nt)
                for api in WRAPPERS:
                    if kind == "namespace" and api.endswith("labels"):
                        continue
                    _do(dict(base, kind="extract", api=api, keep=list(keep), container=kind), ctx, "container_calls", nt)
    return None


def unif_drawings(shape, n, b):
    """drawings of `shape` with pre-existing out-degree-one nodes: one chain of length 1 or 2
    above any node (leaves and the root included) or two single insertions above any two nodes;
    [(drawing, is_base_order)].  Up to `unifurcation_all_orders_up_to` leaves every child order
    of every such drawing, above that the as-generated and the fully reversed order."""
    base = sorted(set(U.with_unifurcations(shape, 1, (1, 2))) | set(U.with_unifurcations(shape, 2, (1,))), key=repr)
    out = []
    seen = set()
    for d in base:
        seen.add(d)
        out.append((d, True))
    for d in base:
        others = U.all_orders(d) if n <= b["unifurcation_all_orders_up_to"] else [U.reverse_all(d)]
        for o in sorted(set(others), key=repr):
            if o not in seen:
                seen.add(o)
                out.append((o, False))
    return out


def run_unif(chunk, ctx):
    """sources that already contain out-degree-one nodes"""
    n = chunk["n"]
    b = bounds(chunk["tier"])
    labels = U.LABELS[:n]
    shapes = U.shapes(n)
    nt = n >= 2
    for si in range(chunk["lo"], chunk["hi"]):
        for di, (shape, is_base) in enumerate(unif_drawings(shapes[si], n, b)):
            if di % chunk["parts"] != chunk["part"]:
                continue
            sn = source_snapshot(shape, "pow2")
            cl = ref.clade_list(sn)
            base = {"n": n, "shape": shape, "lens": "pow2", "ns": "exact", "rooted": True, "unif": True}
            ctx.count("source_drawings_with_unifurcations")
            for keep in nonempty_subsets(labels):
                for suppress in (True, False):
                    g = dict(base, kind="unifgroup", keep=list(keep), suppress=suppress)
                    if not is_base:
                        g["nostate"] = True
                    check_unif_group(g, ctx)
                    if is_base:
                        # the remaining entry points on the as-generated order
                        for api in INPLACE:
                            if api not in GROUP_INPLACE:
                                _do(dict(base, kind="inplace", api=api, keep=list(keep), suppress=suppress, upd=False), ctx, "unifurcation_layer_calls", nt)
                        for api in WRAPPERS:
                            if api not in GROUP_EXTRACT:
                                _do(dict(base, kind="extract", api=api, keep=list(keep), suppress=suppress), ctx, "unifurcation_layer_calls", nt)
            if is_base:
                for i in range(1, len(cl)):
                    if not (ref.clade(sn) - cl[i][0]):
                        continue          # would remove every leaf
                    for suppress in (True, False):
                        _do(dict(base, kind="subtree", api="prune_subtree", node=i, suppress=suppress, upd=False), ctx, "unifurcation_layer_calls", nt)
    return None


def repeat_menus(sn, labels):
    """(first calls, second calls) for the ordered-pair histories on one source tree"""
    cl = ref.clade_list(sn)
    inner_all = [nd[1] for c, nd in cl if nd[3]]           # the root included: rejecting it refuses the call
    subsets = [list(k) for k in nonempty_subsets(labels)]
    first = []
    for keep in subsets:
        first.append({"api": "extract_tree_with_taxa", "keep": keep, "suppress": True})
    xs = [[x] for x in inner_all]
    if len(inner_all) > 1:
        xs.append(list(inner_all[1:]) or list(inner_all))
    wide = [list(labels)] + [[l for l in labels if l != x] for x in labels if len(labels) > 1]
    for keep in wide:                      # all leaves and every all-but-one set
        for ex in xs:
            first.append({"api": "extract_tree", "keep": keep, "suppress": True, "excluded": ex})
    first.append({"api": "extract_tree_with_taxa", "keep": [], "suppress": True})        # refused: nothing survives
    second = []
    for keep in subsets:
        second.append({"api": "extract_tree_with_taxa", "keep": keep, "suppress": len(keep) % 2 == 1})
        second.append({"api": "extract_tree", "keep": keep, "suppress": True})
    return first, second


def run_repeat(chunk, ctx):
    """every ordered pair [extraction 1; extraction 2] and every [extract; prune/retain in place; extract]
    on one source tree"""
    n = chunk["n"]
    labels = U.LABELS[:n]
    shapes = U.shapes(n)
    for si in range(chunk["lo"], chunk["hi"]):
        shape = shapes[si]
        sn = source_snapshot(shape, "pow2")
        base = {"kind": "repeat", "n": n, "shape": shape, "lens": "pow2"}
        first, second = repeat_menus(sn, labels)
        ctx.count("repeat_layer_source_trees")
        fi = 0
        for a in first:
            if fi % chunk["parts"] == chunk["part"]:
                for b2 in second:
                    case = dict(base, steps=[a, b2])
                    ctx.case(_key_steps(case), nontrivial=n >= 2)
                    ctx.count("repeat_layer_histories")
                    check_repeat(case, ctx)
            fi += 1
        # extract; prune / retain in place; extract
        subsets = [list(k) for k in nonempty_subsets(labels)]
        hi = 0
        for k1 in subsets:
            if 1 < len(k1) < n - 1:
                continue                    # first survivors: singles, all-but-one sets, all
            for j, k2 in enumerate(subsets):
                hi += 1
                if hi % chunk["parts"] != chunk["part"]:
                    continue
                mid = {"api": "prune_taxa" if j % 2 == 0 else "retain_taxa", "keep": k2, "suppress": (len(k1) + j) % 3 != 0}
                for k3 in nonempty_subsets(k2):
                    case = dict(base, steps=[{"api": "extract_tree_with_taxa", "keep": k1, "suppress": True}, mid,
                                             {"api": "extract_tree_with_taxa", "keep": list(k3), "suppress": True}])
                    ctx.case(_key_steps(case), nontrivial=n >= 2)
                    ctx.count("repeat_layer_histories")
                    check_repeat(case, ctx)
    return None


def _key_steps(case):
    return ("repeat", case["shape"], tuple(tuple(sorted((k, tup(v) if isinstance(v, list) else v) for k, v in st.items()))
                                           for st in case["steps"]))


def run_labels(chunk, ctx):
    """one label naming several Taxon objects: duplicates, and case variants under both case rules"""
    n = chunk["n"]
    shapes = U.shapes(n)
    for si in range(chunk["lo"], chunk["hi"]):
        shape = shapes[si]
        for variant in LABEL_VARIANTS:
            for placement in LABEL_PLACEMENTS:
                if placement == "both-on-tree" and n < 2:
                    continue
                for cs in (False, True):
                    base = {"kind": "labelgroup", "n": n, "shape": shape, "variant": variant, "placement": placement, "cs": cs}
                    leaf, nslabels, off = _label_setup(base)
                    distinct = []
                    for l in nslabels:
                        if l not in distinct:
                            distinct.append(l)
                    ctx.count("label_layer_source_trees")
                    for req in nonempty_subsets(distinct):
                        for suppress in (True, False):
                            check_label_group(dict(base, req=list(req), suppress=suppress), ctx)
    return None


def run_big(chunk, ctx):
    """large representatives: every API on a stated family of survivor sets"""
    desc, lens = chunk["big"], chunk["lens"]
    n = big_size(desc)
    base = {"n": n, "big": list(desc), "lens": lens, "ns": "exact"}
    shape, sn = _src(base)
    cl = ref.clade_list(sn)
    ctx.count("large_source_trees")
    ctx.maximum("largest_tree_leaves", n)
    for name in LARGE["survivor_sets"]:
        keep = big_keep(desc, name)
        for suppress in (True, False):
            # all twelve entry points, update_bipartitions=False, + extraction == in-place agreement
            check_unif_group(dict(base, kind="unifgroup", keep=keep, suppress=suppress, rooted=True), ctx)
            # update_bipartitions=True, rooted and unrooted
            for api in INPLACE:
                for rooted in ((True, False) if api == "prune_taxa" else (True,)):
                    _do(dict(base, kind="inplace", api=api, keep=keep, suppress=suppress, upd=True, rooted=rooted), ctx, "large_tree_calls", True)
    nonroot = list(range(1, len(cl)))
    inner = [i for i in nonroot if cl[i][1][3]]
    for picks, what in ((nonroot, "subtree"), (inner, "inner")):
        if not picks:
            continue
        for i in sorted(set([picks[0], picks[len(picks) // 2], picks[-1]])):
            for suppress in (True, False):
                if what == "subtree":
                    for upd in (False, True):
                        _do(dict(base, kind="subtree", api="prune_subtree", node=i, suppress=suppress, upd=upd, rooted=True), ctx, "large_tree_calls", True)
                else:
                    _do(dict(base, kind="extract", api="extract_tree", keep=big_labels(n), suppress=suppress, rooted=True,
                             excluded=[cl[i][1][1]], apply_internal=True), ctx, "large_tree_calls", True)
                    _do(dict(base, kind="node_extract", api="Node.extract_subtree", node=i, keep=sorted(cl[i][0]), suppress=suppress, rooted=True),
                        ctx, "large_tree_calls", True)
    ctx.sample({"large_tree": big_name(desc), "leaves": n, "lens": lens, "survivor_sets": LARGE["survivor_sets"]}, 1)
    return None


def run_node_extract(chunk, ctx):
    n = chunk["n"]
    shapes = U.shapes(n)
    for si in range(chunk["lo"], chunk["hi"]):
        shape = shapes[si]
        for lens in ("pow2", "none"):
            sn = source_snapshot(shape, lens)
            cl = ref.clade_list(sn)
            base = {"n": n, "shape": shape, "lens": lens, "ns": "exact", "rooted": True, "kind": "node_extract",
                    "api": "Node.extract_subtree"}
            for i in range(1, len(cl)):
                if not cl[i][1][3]:
                    continue
                for keep in nonempty_subsets(sorted(cl[i][0])):
                    for suppress in (True, False):
                        _do(dict(base, node=i, keep=list(keep), suppress=suppress), ctx, "node_extract_calls", True)
    return None


def replay(case, ctx):
    check(case, ctx)
