"""C19 - character-matrix row/column operations select exactly what they name, leave
their arguments alone, refuse foreign namespaces and terminate (DESIGN 3/C19).

Engines E1 + E2.  One explicit-state BFS per configuration (data type x namespace
size) whose transition function is the real CharacterMatrix method:

* a *state* is the snapshot of the current matrix M read from its primitive fields

      (label, (row per namespace taxon: None | tuple of cell tokens), ((subset label, indices), ...))

  (cell token = state symbol / float / None);
* depth 0 = every matrix of a fixed pool built by the harness (full, partial, ragged,
  empty, equal / distinct / None labels); depth 1 additionally contains the result of
  ``concatenate(list)`` for EVERY list of <= 3 pool matrices (the E1 layer: repeated
  objects, repeated labels, foreign namespace, invalid members);
* from every visited state every operation of the alphabet with every argument choice
  is applied to a FRESH rebuild of the state (harness builder, primitive fields, never a
  library copy) together with freshly built argument matrices; the outcome is compared
  with a list-of-tuples reference model; the snapshot of the result is the successor.

Termination is a deterministic verdict: calls run behind a cheap wall-clock pre-filter
(budget.run_limited) and anything that trips it - and, directly, every call of the two
input classes that are known to loop (an extension whose argument is the matrix itself,
a concatenation in which two subset names collide) - runs under budget.budgeted() with a
fixed line budget; 'hang' = more than LINE_BUDGET lines of dendropy code executed.
"""
import array
import itertools

from dendropy import TaxonNamespace
from dendropy.datamodel import charmatrixmodel as cmm
from dendropy.datamodel import charstatemodel

from mc import budget

ID = "C19"
LEVEL = "model_checking"
EXHAUSTIVE = True
RULE = ("explicit-state BFS per configuration (data type dna/standard/continuous x 1..3 namespace taxa): start states = "
        "every pool matrix (full / some taxa missing / ragged / zero columns / zero rows; labels equal, distinct, None) "
        "and the result of concatenate(list) for every list of <= 3 pool matrices incl. the same object twice and a "
        "foreign-namespace matrix; from every visited state every operation (add_/replace_/update_/extend_sequences "
        "(both flags)/extend_matrix with every pool matrix, the matrix itself and a foreign matrix; fill/pack with every "
        "size x append choice; fill_taxa; remove_/discard_/keep_sequences with every taxon subset; "
        "export_character_indices with every index subset; export_character_subset with every recorded subset by label "
        "and by object; concatenate of lists containing the current matrix) is applied to a fresh rebuild, up to the "
        "depth and column bounds; for DNA additionally concatenate_from_streams over every list of <= 3 pool matrices "
        "written as FASTA / PHYLIP text; plus (>= 2 taxa) concatenate of 2-3 sources where one source, in every list "
        "position, takes every row-length pattern over {missing,0,1,2,3} per taxon (DNA: also as FASTA streams); plus "
        "export_character_indices / export_character_subset on a rectangular and a ragged matrix of every width up to "
        "the bound with EVERY index list of length <= width+1 (repeats, every order) as list / tuple / generator / "
        "CharacterSubset / new_character_subset, and set / frozenset / range forms of the same contents; "
        "a case = one transition (state, operation, argument); non-trivial = the namespace has "
        ">= 2 taxa and the matrices involved hold at least one cell")
ASSUMPTIONS = [
    "a matrix's state for these operations is its label, its row store (taxon -> cell values, compared by state symbol / "
    "float value / None) and its character subsets (label -> index set); states are rebuilt from that snapshot through "
    "the primitive fields _taxon_sequence_map, _character_values/_types/_annotations, character_subsets",
    "the insertion order of the row dict is not part of the state: only vector_size reads it, and it only matters for "
    "ragged matrices, which concatenate() refuses before using it",
    "object sharing between a result/receiver and an argument is detected directly after each call (no row object or "
    "value list of the receiver/result may be one of the argument's), so that rebuilding arguments freshly for the "
    "next operation loses nothing",
    "argument domains: concatenate() is documented for matrices of one type over one namespace, all taxa present, "
    "rectangular: a list with a missing-taxon or ragged member must either be refused with the documented ValueError "
    "(arguments unchanged) or its result must satisfy the statement in full (rows = per-taxon concatenation; the "
    "recorded subsets match the sources one-to-one and each selects, for every taxon, exactly that taxon's sequence "
    "in its source); a foreign-namespace member must give ValueError; fill/pack sizes are None, max, max+1 (never below "
    "the longest row); index sets stay inside range(longest row); remove_sequences on a taxon without a row must give "
    "the documented KeyError (rows named before it may or may not have been removed)",
    "labels, subset names and the presence/absence of subsets on the result of a mutator or export are the library's "
    "business (not in the statement): the successor state uses whatever the library produced; for concatenate only "
    "the multiset of recorded index sets is compared",
    "a call is declared non-terminating when it executes more than LINE_BUDGET lines of dendropy code "
    "(>= 100x the largest count measured on terminating calls of the same run, see maxima)",
]
MANIFEST = {
    "engine": "E1-ENUM + E2-HIST",
    "text": ("Every history of up to `depth` matrix operations from every pool matrix and from every concatenation of "
             "<= 3 pool matrices is executed on the real CharacterMatrix classes with visited-state hashing on the "
             "row/subset snapshot.  After every transition the resulting rows are compared cell by cell with a "
             "list-of-tuples reference model of the docstrings, recorded subsets of a concatenation with the column "
             "ranges of its sources, exported columns with the ascending selection, every argument's snapshot with its "
             "snapshot before the call, row objects for sharing with the arguments, the public view "
             "(len, iteration, symbols_as_string) with the primitive one; foreign namespaces must be refused with "
             "ValueError; non-termination is decided by a fixed line budget."),
    "note": ("trusted: the harness's reference semantics for each docstring, the primitive-field snapshot/rebuild, "
             "sys.monitoring line counting (mc/budget.py)"),
    "technique": "explicit-state BFS over operation histories on the implementation, reference model per transition, "
                 "deterministic line budget for termination",
}

LINE_BUDGET = 300000
PREFILTER_S = 1.0

DTYPES = ("dna", "standard", "continuous")
CLS = {"dna": cmm.DnaCharacterMatrix, "standard": cmm.StandardCharacterMatrix,
       "continuous": cmm.ContinuousCharacterMatrix}
TAXA = ("a", "b", "c")
# pool rows are written in DNA letters and translated per data type
TR = {"dna": {"A": "A", "C": "C", "G": "G", "T": "T"},
      "standard": {"A": "0", "C": "1", "G": "2", "T": "3"},
      "continuous": {"A": 0.5, "C": 1.5, "G": 2.5, "T": -1.0}}
FILLTOKEN = {"dna": "N", "standard": "?", "continuous": 9.0}

BIN = {"add": "add_sequences", "replace": "replace_sequences", "update": "update_sequences",
       "extend": "extend_sequences", "extend_new": "extend_sequences(is_add_new_sequences=True)",
       "extend_matrix": "extend_matrix"}
BIN_KINDS = ("add", "replace", "update", "extend", "extend_new", "extend_matrix")
ROWOPS = {"remove": "remove_sequences", "discard": "discard_sequences", "keep": "keep_sequences"}


# bounds: depth[data type][taxa-1] = history length; max_columns = widest row of a state / predicted result;
# concat_list_len_* = E1 lists over the pool (full pool / SUBPOOL+foreign); concat_with_current_len = lists that
# contain the current matrix (length 3 only in states of depth <= concat_with_current_len3_depth);
# self_extension_depth / name_collision_depth(_lists_of_3) = deepest state in which the two input classes that
# never terminated before the repairs of F16/F17 (m.extend_*(m); concatenate with colliding subset names) are
# enumerated (9 = every depth; they run directly under the line budget);
# history_pairs_min_taxa_missing = in every state with at least that many namespace taxa lacking a row (and depth
# <= depth bound - 2) every pair [fill_taxa | pack | fill] -> row-wise operation is executed on ONE live object
def bounds(tier):
    if tier == "quick":
        return {"depth": {"dna": [3, 3, 2], "standard": [3, 3, 2], "continuous": [3, 3, 2]},
                "data_types": list(DTYPES), "namespace_sizes": [1, 2, 3], "pool": "base(9)",
                "concat_list_len_full_pool": 2, "concat_list_len_subpool": 3, "concat_with_current_len": 2,
                "concat_with_current_len3_depth": -1,
                "max_columns": 6, "all_index_subsets_up_to_columns": 4, "index_collection_columns": 4,
                "self_extension_depth": 9, "name_collision_depth": 9, "name_collision_depth_lists_of_3": 9,
                "history_pairs_min_taxa_missing": 2,
                "line_budget": LINE_BUDGET, "chunk_states": 24}
    return {"depth": {"dna": [3, 3, 3], "standard": [3, 3, 3], "continuous": [3, 3, 3]},
            "data_types": list(DTYPES), "namespace_sizes": [1, 2, 3], "pool": "base(9)+case-variant+locus-label(11)",
            "concat_list_len_full_pool": 3, "concat_list_len_subpool": 3, "concat_with_current_len": 3,
            "concat_with_current_len3_depth": 1,
            "max_columns": 7, "all_index_subsets_up_to_columns": 5, "index_collection_columns": 5,
            "self_extension_depth": 9, "name_collision_depth": 9, "name_collision_depth_lists_of_3": 9,
            "history_pairs_min_taxa_missing": 1,
            "line_budget": LINE_BUDGET, "chunk_states": 24}


def depth_of(cfg, b):
    return b["depth"][cfg[0]][cfg[1] - 1]


# ---------------------------------------------------------------------------
# helpers on plain data

def tup(x):
    if isinstance(x, (list, tuple)):
        return tuple(tup(y) for y in x)
    return x


def maxlen(rows):
    return max([len(r) for r in rows if r is not None] or [0])


def nrows(rows):
    return sum(1 for r in rows if r is not None)


def ncells(rows):
    return sum(len(r) for r in rows if r is not None)


def is_full(rows):
    return all(r is not None for r in rows)


def is_rect(rows):
    return len(set(len(r) for r in rows if r is not None)) <= 1


def show_rows(rows):
    def one(r):
        if r is None:
            return "-"
        if all(isinstance(c, str) for c in r):
            return "'" + "".join(r) + "'"
        return "[" + " ".join("None" if c is None else str(c) for c in r) + "]"
    return "{" + ", ".join("%s:%s" % (TAXA[i], one(r)) for i, r in enumerate(rows)) + "}"


def pretty(state):
    label, rows, subsets = state
    s = "label=%r rows=%s" % (label, show_rows(rows))
    if subsets:
        s += " subsets=%s" % ({k: list(v) for k, v in subsets},)
    return s


# ---------------------------------------------------------------------------
# the pool

_POOL_DEF = [
    ("x", ("AC", "GT", "CA")),          # 0 full, 2 columns
    ("x", ("T", "A", "G")),             # 1 full, 1 column, SAME label as 0
    ("y", ("TGA", "CAT", "GGC")),       # 2 full, 3 columns
    (None, ("C", "T", "A")),            # 3 full, label None
    (None, ("", "", "")),               # 4 full, zero columns, label None
    ("z", ("GA", None, None)),          # 5 first taxon only
    ("w", ("A", "CGT", "")),            # 6 ragged
    ("e", (None, None, None)),          # 7 zero rows
    ("z", "last"),                      # 8 last taxon only
    ("X", ("G", "C", "T")),             # 9 (thorough) label differs from 0/1 only in case
    ("locus001", ("A", "A", "C")),      # 10 (thorough) label equal to a generated default name
]
SUBPOOL = (0, 1, 3, 5)                  # members (plus the foreign matrix) used for the longer lists


def pool(cfg, b):
    """list of (label, rows) snapshots (no subsets)"""
    dtype, n = cfg
    tr = TR[dtype]
    out = []
    k = 9 if b["pool"].startswith("base(9)") and "+" not in b["pool"] else 11
    for label, rows in _POOL_DEF[:k]:
        if rows == "last":
            rows = tuple([None] * (n - 1) + ["TC"])
        else:
            rows = rows[:n]
        out.append((label, tuple(None if r is None else tuple(tr[c] for c in r) for r in rows)))
    return out


def foreign_snapshot(cfg):
    dtype, n = cfg
    tr = TR[dtype]
    return ("f", tuple((tr[c],) for c in "GAT"[:n]))


_POOL_CACHE = {}


def cached_pool(cfg, b):
    key = (cfg, b["pool"])
    if key not in _POOL_CACHE:
        _POOL_CACHE[key] = pool(cfg, b)
    return _POOL_CACHE[key]


def arg_snapshot(cfg, b, a, state):
    """plain-data (nsid, label, rows) of argument a = pool index | 'self' | 'foreign'"""
    if a == "self":
        return (0, state[0], state[1])
    if a == "foreign":
        lab, rows = foreign_snapshot(cfg)
        return (1, lab, rows)
    lab, rows = cached_pool(cfg, b)[a]
    return (0, lab, rows)


# ---------------------------------------------------------------------------
# building real objects / reading them back

def value_of(dtype, m, token):
    if token is None:
        return None
    if dtype == "dna":
        return charstatemodel.DNA_STATE_ALPHABET[token]
    if dtype == "standard":
        return m.default_state_alphabet[token]
    return token


def token_of(v):
    if v is None:
        return None
    if isinstance(v, (int, float)) and not isinstance(v, bool):
        return v
    s = getattr(v, "symbol", None)
    if s is not None:
        return s
    return "<%s>" % type(v).__name__


def build_matrix(dtype, ns, label, rows, subsets=()):
    cls = CLS[dtype]
    m = cls(taxon_namespace=ns, label=label)
    taxa = ns._taxa
    for i, r in enumerate(rows):
        if r is None:
            continue
        seq = cls.character_sequence_type()
        seq._character_values = [value_of(dtype, m, c) for c in r]
        seq._character_types = [None] * len(r)
        seq._character_annotations = [None] * len(r)
        m._taxon_sequence_map[taxa[i]] = seq
    for lab, idx in subsets:
        m.character_subsets[lab] = cmm.CharacterSubset(label=lab, character_indices=list(idx))
    return m


def snapshot(m, taxa):
    """((label, rows, subsets), problems) from the primitive fields"""
    problems = []
    tsm = m._taxon_sequence_map
    rows = []
    known = set()
    for t in taxa:
        known.add(id(t))
        seq = tsm.get(t)
        if seq is None:
            rows.append(None)
        else:
            vals = seq._character_values
            if not (len(seq._character_types) == len(seq._character_annotations) == len(vals)):
                problems.append("parallel type/annotation lists of row %r out of step with its values" % (t._label,))
            rows.append(tuple(token_of(v) for v in vals))
    for t in tsm:
        if id(t) not in known:
            problems.append("row keyed by a taxon outside the namespace")
    subsets = []
    for k in m.character_subsets:
        cs = m.character_subsets[k]
        subsets.append((k, tuple(sorted(cs.character_indices))))
    return (m.label, tuple(rows), tuple(subsets)), problems


def cellstr(dtype, row):
    sep = " " if dtype == "continuous" else ""
    return sep.join(str(c) for c in row)


def public_view_problems(dtype, m, taxa, rows):
    """compare len / iteration / symbols_as_string with the primitive snapshot"""
    present = [t for t, r in zip(taxa, rows) if r is not None]
    if len(m) != len(present):
        return "len(matrix)=%d, %d rows stored" % (len(m), len(present))
    it = list(m)
    if len(it) != len(present) or any(x is not y for x, y in zip(it, present)):
        return "iteration yields %s, rows stored for %s" % ([t._label for t in it], [t._label for t in present])
    for t, r in zip(taxa, rows):
        if r is None:
            continue
        s = m[t].symbols_as_string()
        if s != cellstr(dtype, r):
            return "matrix[%r].symbols_as_string()=%r, stored cells give %r" % (t._label, s, cellstr(dtype, r))
    return None


def shared_rows(m):
    """(label, label) of two taxa whose rows are one object (or one value list), else None"""
    seen = {}
    for t, seq in m._taxon_sequence_map.items():
        for key in (id(seq), id(seq._character_values), id(seq._character_types), id(seq._character_annotations)):
            if key in seen and seen[key] is not t:
                return (seen[key]._label, t._label)
            seen[key] = t
    return None


def seq_ids(m):
    ids = set()
    for seq in m._taxon_sequence_map.values():
        ids.add(id(seq))
        ids.add(id(seq._character_values))
    return ids


class World(object):
    """Fresh objects for one call: the namespace, the current matrix, lazily the arguments."""

    def __init__(self, cfg, state, b):
        self.cfg = cfg
        self.b = b
        dtype, n = cfg
        self.ns = TaxonNamespace(list(TAXA[:n]))
        self.taxa = list(self.ns._taxa)
        label, rows, subsets = state
        self.M = build_matrix(dtype, self.ns, label, rows, subsets) if rows is not None else None
        self._pool = {}
        self.fns = None
        self.F = None

    def arg(self, a):
        """a = pool index | 'self' | 'foreign'  ->  (matrix, its taxa, its snapshot-before)"""
        dtype, n = self.cfg
        if a == "self":
            return self.M
        if a == "foreign":
            if self.F is None:
                self.fns = TaxonNamespace(list(TAXA[:n]))
                lab, rows = foreign_snapshot(self.cfg)
                self.F = build_matrix(dtype, self.fns, lab, rows)
            return self.F
        if a not in self._pool:
            lab, rows = cached_pool(self.cfg, self.b)[a]
            self._pool[a] = build_matrix(dtype, self.ns, lab, rows)
        return self._pool[a]

    def taxa_of(self, a):
        return list(self.fns._taxa) if a == "foreign" else self.taxa

    def arg_snapshot(self, a, state):
        return arg_snapshot(self.cfg, self.b, a, state)


# ---------------------------------------------------------------------------
# reference model

def ref_bin(kind, rows, orows):
    out = list(rows)
    for i, (r, o) in enumerate(zip(rows, orows)):
        if o is None:
            continue
        if kind == "add":
            if r is None:
                out[i] = o
        elif kind == "replace":
            if r is not None:
                out[i] = o
        elif kind == "update":
            out[i] = o
        elif kind == "extend":
            if r is not None:
                out[i] = r + o
        elif kind in ("extend_new", "extend_matrix"):
            out[i] = o if r is None else r + o
        else:
            raise ValueError(kind)
    return tuple(out)


def size_of(code, rows):
    m = maxlen(rows)
    return {"none": None, "max": m, "max+1": m + 1}[code]


def ref_fill(rows, size, append, tok):
    if size is None:
        size = maxlen(rows)
    out = []
    for r in rows:
        if r is None or len(r) >= size:
            out.append(r)
        elif append:
            out.append(r + (tok,) * (size - len(r)))
        else:
            out.append((tok,) * (size - len(r)) + r)
    return tuple(out)


def ref_fill_taxa(rows):
    return tuple(() if r is None else r for r in rows)


def ref_export(rows, idx):
    s = set(idx)
    return tuple(None if r is None else tuple(c for i, c in enumerate(r) if i in s) for r in rows)


def concat_plan(elems):
    """elems: [(nsid, label, rows)].  Returns dict:
       status 'valid' | 'foreign' (ValueError demanded) | 'free' (outside the documented domain)
       rows, ranges (when valid), collide (a subset name is generated twice before anything is refused)"""
    nsid0 = elems[0][0]
    names = set()
    collide = False
    status = "valid"
    for k, (nsid, label, rows) in enumerate(elems):
        if nsid != nsid0:
            status = "foreign"
            break
        if not is_full(rows) or not is_rect(rows):
            status = "free"
            break
        name = ("locus%03d" % k) if label is None else label
        if name.lower() in names:
            collide = True
        names.add(name.lower())
    out = {"status": status, "collide": collide, "rows": None, "ranges": None}
    if status == "valid":
        n = len(elems[0][2])
        rows = [()] * n
        ranges = []
        pos = 0
        for nsid, label, r in elems:
            w = len(r[0]) if r else 0
            rows = [a + b for a, b in zip(rows, r)]
            ranges.append(tuple(range(pos, pos + w)))
            pos += w
        out["rows"] = tuple(rows)
        out["ranges"] = ranges
    return out


def raggedness_class(rows):
    """pattern class of one source matrix (never its concrete lengths)"""
    if not is_full(rows):
        return "taxa-missing"
    lens = [len(r) for r in rows]
    if len(set(lens)) <= 1:
        return "rectangular"
    if lens[0] == max(lens):
        return "first-row-longest"
    if lens[0] == min(lens):
        return "first-row-shortest"
    return "first-row-middle"


def source_class(sources):
    """class of the first source that is outside concatenate's documented domain"""
    for rows in sources:
        c = raggedness_class(rows)
        if c != "rectangular":
            return c
    return "rectangular"


def judge_concat(sources, res_rows, res_subsets):
    """The statement in full for an ACCEPTED list: sources = [rows per taxon]; returns (feature, message) | None.
    rows: every taxon's row is the concatenation of its sequences in argument order (a source that lacks the
    taxon contributes nothing); subsets: the recorded subsets can be matched one-to-one with the sources so
    that the columns a subset names are, for every taxon, exactly that taxon's sequence in that source."""
    n = len(res_rows)
    for i in range(n):
        want = ()
        anyrow = False
        for rows in sources:
            if rows[i] is not None:
                anyrow = True
                want = want + rows[i]
        got = res_rows[i]
        if (got is None and anyrow) or (got is not None and got != want):
            return ("wrong-rows", "row of taxon %s is %s, the concatenation of its sequences is %s" % (
                TAXA[i], show_rows((got,))[3:-1], show_rows((want,))[3:-1]))
    if len(res_subsets) != len(sources):
        return ("subset-count", "%d subsets recorded for %d sources" % (len(res_subsets), len(sources)))

    def covers(idx, rows):
        chosen = set(idx)
        for i in range(n):
            if res_rows[i] is None:
                continue
            got = tuple(c for j, c in enumerate(res_rows[i]) if j in chosen)
            if got != (rows[i] or ()):
                return False
        return True

    for perm in itertools.permutations(range(len(sources))):
        if all(covers(res_subsets[perm[k]][1], sources[k]) for k in range(len(sources))):
            return None
    k = [k for k in range(len(sources)) if k < len(res_subsets) and not covers(res_subsets[k][1], sources[k])]
    k = k[0] if k else 0
    chosen = set(res_subsets[k][1])
    return ("subset-not-the-source-columns",
            "subset %r (columns %s) selects %s from the result %s, source #%d holds %s" % (
                res_subsets[k][0], list(res_subsets[k][1]),
                show_rows(tuple(None if r is None else tuple(c for j, c in enumerate(r) if j in chosen) for r in res_rows)),
                show_rows(res_rows), k + 1, show_rows(sources[k])))


def index_collection_class(idx, form):
    """class of the index collection handed to an export (never its contents)"""
    seq = list(idx)[::-1] if form == "rev" else list(idx)
    kind = {"set": "index-set", "frozenset": "index-set", "range": "index-range", "subset-object": "subset-from-list",
            "new-subset": "subset-from-list", "iter": "index-iterator", "gen": "index-iterator",
            "tuple": "index-tuple"}.get(form, "index-list")
    if len(set(seq)) < len(seq):
        return kind + "-with-repeats"
    if seq != sorted(seq):
        return kind + "-unsorted"
    return kind + "-ascending"


def index_collections(w):
    """every (index sequence, form) over columns 0..w-1: every list of length <= w+1 (repeats, every order) as
    list / tuple / generator / CharacterSubset(list) / new_character_subset(list); every distinct content also
    as set / frozenset; every contiguous content as range"""
    out = []
    for k in range(0, w + 2):
        for seq in itertools.product(range(w), repeat=k):
            for form in ("list", "tuple", "gen", "subset-object", "new-subset"):
                out.append((seq, form))
            if list(seq) == sorted(set(seq)):
                out.append((seq, "set"))
                out.append((seq, "frozenset"))
                if not seq or list(range(seq[0], seq[-1] + 1)) == list(seq):
                    out.append((seq, "range"))
    return out


def export_layer_matrices(cfg, b):
    """[(label, rows)]: for every width w <= the bound a rectangular and a ragged matrix whose cells differ
    from column to column"""
    dtype, n = cfg
    tr = TR[dtype]
    out = []
    for w in range(1, b["index_collection_columns"] + 1):
        rect = tuple(tuple(tr["ACGT"[(i + j) % 4]] for j in range(w)) for i in range(n))
        out.append((w, ("v", rect)))
        if n >= 2:
            ragged = tuple(tuple(tr["ACGT"[(i + j) % 4]] for j in range(max(w - i, 0))) if i != 1 or n == 2 else None
                           for i in range(n))
            out.append((w, ("r", ragged)))
    return out


def index_subsets(L, b):
    """every subset of range(L) up to the bound; beyond it the empty set, everything, every
    single column, every all-but-one and every contiguous range"""
    if L <= b["all_index_subsets_up_to_columns"]:
        out = []
        for r in range(L + 1):
            out.extend(itertools.combinations(range(L), r))
        return out
    fam = set()
    fam.add(())
    for i in range(L):
        fam.add(tuple(j for j in range(L) if j != i))
        for j in range(i + 1, L + 1):
            fam.add(tuple(range(i, j)))
    return sorted(fam, key=lambda t: (len(t), t))


# ---------------------------------------------------------------------------
# operation alphabet

def is_hang_prone(cfg, state, op, b):
    """Scheduling hint (such calls go straight to the line budget instead of through the wall-clock
    pre-filter) and the two input classes bounded by `self_extension_depth` / `name_collision_depth`:
    the argument patterns that are known not to terminate.  The verdict itself always comes from the
    line budget, never from this prediction."""
    if op[0] == "bin":
        return op[2] == "self" and op[1] in ("extend", "extend_new", "extend_matrix") and ncells(state[1]) > 0
    if op[0] == "concat":
        plan = concat_plan([arg_snapshot(cfg, b, a, state) for a in op[1]])
        return plan["collide"]
    return False


def concat_lists_with_current(cfg, b, npool, depth):
    args = list(range(npool)) + ["foreign"]
    out = [("self",), ("self", "self")]
    for a in args:
        out.append(("self", a))
        out.append((a, "self"))
    if b["concat_with_current_len"] >= 3 and depth <= b["concat_with_current_len3_depth"]:
        sub = [a for a in SUBPOOL] + ["foreign", "self"]
        for l3 in itertools.product(sub, repeat=3):
            if "self" in l3:
                out.append(l3)
    return out


def concat_lists_pool_only(cfg, b, npool):
    args = list(range(npool)) + ["foreign"]
    out = []
    for k in range(1, b["concat_list_len_full_pool"] + 1):
        out.extend(itertools.product(args, repeat=k))
    if b["concat_list_len_full_pool"] < 3 <= b["concat_list_len_subpool"]:
        sub = list(SUBPOOL) + ["foreign"]
        out.extend(itertools.product(sub, repeat=3))
    return [tuple(x) for x in out]


def enabled_ops(cfg, state, depth, b):
    dtype, n = cfg
    label, rows, subsets = state
    P = cached_pool(cfg, b)
    cap = b["max_columns"]
    # the two input classes that never terminated before F16/F17 were repaired go straight to the line
    # budget; they are enumerated in every state up to their own depth bounds
    selfext_ok = depth <= b["self_extension_depth"]
    collide_ok = depth <= b["name_collision_depth"]
    L = maxlen(rows)
    ops = []
    for kind in BIN_KINDS:
        for a in list(range(len(P))) + ["self", "foreign"]:
            op = ("bin", kind, a)
            if a != "foreign":
                orows = rows if a == "self" else P[a][1]
                if maxlen(ref_bin(kind, rows, orows)) > cap:
                    continue
            if not selfext_ok and is_hang_prone(cfg, state, op, b):
                continue
            ops.append(op)
    for code in ("none", "max", "max+1"):
        if code == "max+1" and L + 1 > cap:
            continue
        for app in (1, 0):
            ops.append(("fill", code, app))
    ops.append(("fill_taxa",))
    for code in ("none", "max+1"):
        if code == "max+1" and L + 1 > cap:
            continue
        for app in (1, 0):
            ops.append(("pack", code, app, 1))
    ops.append(("pack", "none", 1, 0))           # pack() with all defaults (pads with None)
    for kind in ("remove", "discard", "keep"):
        for mask in range(1 << n):
            ops.append(("rows", kind, mask))
    for idx in index_subsets(L, b):
        ops.append(("export_idx", idx, "rev"))
        if depth == 0:
            for form in ("list", "set", "iter", "subset-object"):
                ops.append(("export_idx", idx, form))
    for k in range(len(subsets)):
        ops.append(("export_sub", k, "label"))
        ops.append(("export_sub", k, "object"))
    for lst in concat_lists_with_current(cfg, b, len(P), depth):
        op = ("concat", lst)
        plan = concat_plan([arg_snapshot(cfg, b, a, state) for a in lst])
        if plan["status"] == "valid" and maxlen(plan["rows"]) > cap:
            continue
        if plan["collide"] and (not collide_ok or (len(lst) >= 3 and depth > b["name_collision_depth_lists_of_3"])):
            continue
        ops.append(op)
    return ops


def site(op):
    k = op[0]
    if k == "bin":
        return BIN[op[1]]
    if k == "rows":
        return ROWOPS[op[1]]
    if k == "export_idx":
        return "export_character_subset" if op[2] in ("subset-object", "new-subset") else "export_character_indices"
    if k == "export_sub":
        return "export_character_subset"
    if k == "concat":
        return "concatenate"
    if k == "setcell":
        return "cell-assignment"
    return k


def argname(a):
    return "m" if a == "self" else ("foreign" if a == "foreign" else "P%d" % a)


def opstr(cfg, op):
    k = op[0]
    n = cfg[1]
    if k == "bin":
        meth = {"extend_new": "extend_sequences"}.get(op[1], BIN[op[1]])
        return "m.%s(%s%s)" % (meth, argname(op[2]), ", is_add_new_sequences=True" if op[1] == "extend_new" else "")
    if k == "fill":
        return "m.fill(v, size=%s, append=%s)" % (op[1], bool(op[2]))
    if k == "fill_taxa":
        return "m.fill_taxa()"
    if k == "pack":
        if not op[3]:
            return "m.pack()"
        return "m.pack(v, size=%s, append=%s)" % (op[1], bool(op[2]))
    if k == "rows":
        return "m.%s([%s])" % (ROWOPS[op[1]], ", ".join(TAXA[i] for i in range(n) if op[2] >> i & 1))
    if k == "export_idx":
        idx = list(op[1])
        if op[2] == "rev":
            return "m = m.export_character_indices(%r)" % (idx[::-1],)
        if op[2] == "list":
            return "m = m.export_character_indices(%r)" % (idx,)
        if op[2] == "set":
            return "m = m.export_character_indices(set(%r))" % (idx,)
        if op[2] == "iter":
            return "m = m.export_character_indices(iter(%r))" % (idx,)
        if op[2] == "tuple":
            return "m = m.export_character_indices(%r)" % (tuple(idx),)
        if op[2] == "frozenset":
            return "m = m.export_character_indices(frozenset(%r))" % (idx,)
        if op[2] == "range":
            return "m = m.export_character_indices(%r)" % (range(idx[0], idx[-1] + 1) if idx else range(0),)
        if op[2] == "gen":
            return "m = m.export_character_indices(i for i in %r)" % (idx,)
        if op[2] == "new-subset":
            return "m.new_character_subset('s', character_indices=%r); m = m.export_character_subset('s')" % (idx,)
        return "m = m.export_character_subset(CharacterSubset(character_indices=%r))" % (idx,)
    if k == "export_sub":
        return "m = m.export_character_subset(<recorded subset #%d by %s>)" % (op[1], op[2])
    if k == "concat":
        return "m = %s.concatenate([%s])" % (CLS[cfg[0]].__name__, ", ".join(argname(a) for a in op[1]))
    if k == "setcell":
        return "m[%s][%d] = v" % (TAXA[op[1]], op[2])
    if k == "start":
        return "m = P%d" % op[1]
    return repr(op)


# ---------------------------------------------------------------------------
# executing one call

def execute(make, direct_budget):
    """make() -> (world, thunk) on fresh objects.  ('ok'|'exc'|'hang', value, world, lines|None)"""
    if direct_budget:
        w, th = make()
        st, v, nlines = budget.budgeted(th, LINE_BUDGET)
        return st, v, w, nlines
    w, th = make()
    st, v = budget.run_limited(th, PREFILTER_S)
    if st != "timeout":
        return st, v, w, None
    w = th = None
    w, th = make()
    st, v, nlines = budget.budgeted(th, LINE_BUDGET)
    return st, v, w, nlines


def thunk_for(cfg, w, op, state):
    """the library call for op on world w (arguments are created here, before the call)"""
    dtype, n = cfg
    M = w.M
    k = op[0]
    if k == "bin":
        o = w.arg(op[2])
        kind = op[1]
        if kind == "extend_new":
            return lambda: M.extend_sequences(o, is_add_new_sequences=True)
        meth = getattr(M, BIN[kind])
        return lambda: meth(o)
    if k == "fill":
        v = value_of(dtype, M, FILLTOKEN[dtype])
        size = size_of(op[1], state[1])
        return lambda: M.fill(v, size=size, append=bool(op[2]))
    if k == "fill_taxa":
        return lambda: M.fill_taxa()
    if k == "pack":
        if not op[3]:
            return lambda: M.pack()
        v = value_of(dtype, M, FILLTOKEN[dtype])
        size = size_of(op[1], state[1])
        return lambda: M.pack(v, size=size, append=bool(op[2]))
    if k == "rows":
        taxa = [w.taxa[i] for i in range(n) if op[2] >> i & 1]
        meth = getattr(M, ROWOPS[op[1]])
        return lambda: meth(taxa)
    if k == "export_idx":
        idx = list(op[1])
        form = op[2]
        if form == "rev":
            a = idx[::-1]
        elif form == "list":
            a = idx
        elif form == "set":
            a = set(idx)
        elif form == "iter":
            a = iter(idx)
        elif form == "tuple":
            a = tuple(idx)
        elif form == "frozenset":
            a = frozenset(idx)
        elif form == "range":
            a = range(idx[0], idx[-1] + 1) if idx else range(0)
            if list(a) != idx:
                raise ValueError("harness: %r is not a range" % (idx,))
        elif form == "gen":
            a = (i for i in idx)
        elif form == "new-subset":
            # the subset is created through the public call, from the list as given
            M.new_character_subset("s", character_indices=list(idx))
            return lambda: M.export_character_subset("s")
        else:
            cs = cmm.CharacterSubset(label="s", character_indices=list(idx))
            return lambda: M.export_character_subset(cs)
        return lambda: M.export_character_indices(a)
    if k == "export_sub":
        lab = state[2][op[1]][0]
        if op[2] == "label":
            return lambda: M.export_character_subset(lab)
        cs = M.character_subsets[lab]
        return lambda: M.export_character_subset(cs)
    if k == "concat":
        lst = [w.arg(a) for a in op[1]]
        cls = CLS[dtype]
        return lambda: cls.concatenate(lst)
    if k == "setcell":
        t = w.taxa[op[1]]
        v = value_of(dtype, M, FILLTOKEN[dtype])
        j = op[2]

        def assign():
            M[t][j] = v
        return assign
    raise ValueError("unknown op %r" % (op,))


def check_transition(cfg, state, op, ctx, b, measure=False, prefix=None):
    """Apply op to a fresh rebuild of state, compare with the reference.  Returns the successor
    state or None.
    prefix = (state0, op0): the live matrix is built from state0 and op0 is applied to it first, on the
    same object; `state` must be the snapshot op0 leaves behind.  The reference still judges op against
    `state` alone, so anything op0 left outside the snapshot (rows sharing one object) shows up as a
    disagreement, reported under 'history:<op0>-><op>|...'."""
    cfg = (cfg[0], int(cfg[1]))
    state = tup(state)
    op = tup(op)
    dtype, n = cfg
    label, rows, subsets = state
    s_site = site(op)
    case = {"kind": "trans", "cfg": cfg, "state": state, "op": op, "py": opstr(cfg, op),
            "pre": pretty(state) if rows is not None else "(no current matrix)"}
    if prefix is not None:
        prefix = (tup(prefix[0]), tup(prefix[1]))
        s_site = "history:%s->%s" % (site(prefix[1]), s_site)
        case["prefix_state"], case["prefix_op"] = prefix
        case["py"] = "%s; %s" % (opstr(cfg, prefix[1]), case["py"])
        case["pre"] = pretty(prefix[0])

    def V(sig, msg):
        ctx.violation(sig, "%s   [%s %d taxa; m: %s; call: %s]" % (msg, dtype, n, case["pre"], case["py"]), case)

    args = []                       # argument names other than the current matrix
    if op[0] == "bin" and op[2] != "self":
        args = [op[2]]
    elif op[0] == "concat":
        args = sorted(set(a for a in op[1] if a != "self"), key=str)
    uses_self = rows is not None
    hold = {}

    def make():
        if prefix is None:
            w = World(cfg, state, b)
        else:
            w = World(cfg, prefix[0], b)
            thunk_for(cfg, w, prefix[1], prefix[0])()
            mid, _probs = snapshot(w.M, w.taxa)
            if mid != state:
                raise AssertionError("harness: the prefix operation did not reproduce the intermediate snapshot")
            hold["inherited_sharing"] = shared_rows(w.M) is not None
        th = thunk_for(cfg, w, op, state)
        # ids of every argument row object, before the call
        hold["argids"] = set()
        for a in args:
            hold["argids"] |= seq_ids(w.arg(a))
        hold["selfids"] = seq_ids(w.M) if uses_self else set()
        return w, th

    hp = is_hang_prone(cfg, state if uses_self else (None, (), ()), op, b)
    st, val, w, nlines = execute(make, measure or hp)
    if nlines is not None and st != "hang":
        ctx.maximum("lines_of_a_terminating_call", nlines)
        ctx.count("calls_run_under_the_line_budget")
    # ---- termination
    if st == "hang":
        ctx.count("outcome:hang")
        feature = ""
        if op[0] == "bin" and op[2] == "self":
            feature = "|other-is-self"
        elif op[0] == "concat":
            plan = concat_plan([arg_snapshot(cfg, b, a, state) for a in op[1]])
            feature = "|subset-name-collision" if plan["collide"] else ""
        V("%s|hang%s" % (s_site, feature), "does not terminate: more than %d lines executed, last at %s" % (LINE_BUDGET, val))
        return None
    # ---- expectation
    k = op[0]
    producer = k in ("export_idx", "export_sub", "concat")
    exp_exc = None          # None | "value" | "key" | "free"
    exp_rows = None
    exp_ranges = None
    partial_remove = None
    if k == "bin":
        if op[2] == "foreign":
            exp_exc, exp_rows = "value", rows
        else:
            orows = rows if op[2] == "self" else w.arg_snapshot(op[2], state)[2]
            exp_rows = ref_bin(op[1], rows, orows)
    elif k == "fill":
        exp_rows = ref_fill(rows, size_of(op[1], rows), bool(op[2]), FILLTOKEN[dtype])
    elif k == "fill_taxa":
        exp_rows = ref_fill_taxa(rows)
    elif k == "pack":
        r1 = ref_fill_taxa(rows)
        exp_rows = ref_fill(r1, size_of(op[1], rows), bool(op[2]), FILLTOKEN[dtype] if op[3] else None)
    elif k == "rows":
        named = [i for i in range(n) if op[2] >> i & 1]
        if op[1] == "keep":
            exp_rows = tuple(r if i in named else None for i, r in enumerate(rows))
        else:
            exp_rows = tuple(None if i in named else r for i, r in enumerate(rows))
            if op[1] == "remove" and any(rows[i] is None for i in named):
                exp_exc = "key"
                partial_remove = named
    elif k == "setcell":
        exp_rows = tuple(r[:op[2]] + (FILLTOKEN[dtype],) + r[op[2] + 1:] if i == op[1] else r for i, r in enumerate(rows))
    elif k == "export_idx":
        exp_rows = ref_export(rows, op[1])
    elif k == "export_sub":
        exp_rows = ref_export(rows, subsets[op[1]][1])
    elif k == "concat":
        plan = concat_plan([w.arg_snapshot(a, state) for a in op[1]])
        if plan["status"] == "foreign":
            exp_exc = "value"
        elif plan["status"] == "free":
            exp_exc = "free"
        else:
            exp_rows, exp_ranges = plan["rows"], plan["ranges"]
    # ---- exceptions
    ok = True
    if st == "exc":
        ctx.count("outcome:%s" % type(val).__name__)
        if exp_exc == "free" and isinstance(val, ValueError):
            ctx.count("concatenate_outside_domain_refused")
        good = ((exp_exc in ("free", "value") and isinstance(val, ValueError))
                or (exp_exc == "key" and isinstance(val, KeyError)))
        if not good:
            V("%s|exception:%s" % (s_site, type(val).__name__), "raised %r, expected %s" % (
                val, {None: "no exception", "value": "ValueError (foreign namespace)", "key": "KeyError",
                      "free": "the documented ValueError or a correct result"}[exp_exc]))
            ok = False
    else:
        ctx.count("outcome:returned")
        if exp_exc == "value":
            V("%s|foreign-namespace-accepted" % s_site, "a matrix over a different TaxonNamespace was accepted (no ValueError)")
            ok = False
        elif exp_exc == "key":
            V("%s|missing-KeyError" % s_site, "no KeyError although a named taxon has no sequence")
            ok = False
    # ---- arguments unchanged
    for a in args:
        snap, probs = snapshot(w.arg(a), w.taxa_of(a))
        before = w.arg_snapshot(a, state)
        if (snap[0], snap[1]) != (before[1], before[2]) or snap[2] != () or probs:
            V("%s|argument-changed" % s_site, "argument %s changed: now %s" % (argname(a), probs or pretty(snap)))
            ok = False
        sh = shared_rows(w.arg(a))
        if sh:
            V("%s|rows-share-one-object" % s_site, "the rows of taxa %r and %r of argument %s are one and the same object" % (sh + (argname(a),)))
            ok = False
    succ = None
    if uses_self:
        after, probs = snapshot(w.M, w.taxa)
        if probs:
            V("%s|inconsistent-row-store" % s_site, "; ".join(probs))
            return None
        if producer or exp_exc == "value":
            src_want = state
            if k == "export_idx" and op[2] == "new-subset":
                src_want = (label, rows, subsets + (("s", tuple(sorted(set(op[1])))),))
            if after != src_want:
                V("%s|%s" % (s_site, "source-changed" if producer else "changed-despite-refusal"),
                  "the matrix the method was called on / passed in changed: now %s" % pretty(after))
                ok = False
    if not producer:
        # ---- mutators: rows after the call
        if st == "exc" and partial_remove is not None:
            bad = [i for i in range(n) if (i not in partial_remove and after[1][i] != rows[i])
                   or (i in partial_remove and after[1][i] is not None and after[1][i] != rows[i])]
            if bad:
                V("%s|wrong-rows" % s_site, "rows after the KeyError: %s" % show_rows(after[1]))
                ok = False
        elif st == "ok" or exp_exc is None:
            if after[1] != exp_rows and ok:
                V("%s|%s" % (s_site, row_feature(k, rows, after[1], exp_rows)),
                  "rows after the call %s, reference %s" % (show_rows(after[1]), show_rows(exp_rows)))
                ok = False
        if args and hold["argids"] & seq_ids(w.M):
            V("%s|row-shared-with-argument" % s_site, "a row object (or its value list) of the receiver is the argument's own")
            ok = False
        sh = shared_rows(w.M)
        if sh and not hold.get("inherited_sharing"):
            # (sharing left behind by the first operation of a pair is reported once, at its origin,
            #  as '<first op>|rows-share-one-object'; here only its behavioural consequences count)
            V("%s|rows-share-one-object" % s_site, "the rows of taxa %r and %r are one and the same object" % sh)
            ok = False
        target, ttaxa, trows = w.M, w.taxa, after[1]
        succ = after
    else:
        if st != "ok":
            return None
        res = val
        cls = CLS[dtype]
        if not isinstance(res, cmm.CharacterMatrix) or type(res) is not cls or any(res is w.arg(a) for a in args) or res is w.M:
            V("%s|not-a-new-matrix-of-the-same-type" % s_site, "returned %r" % (res,))
            return None
        first = op[1][0] if k == "concat" else "self"
        want_ns = w.fns if first == "foreign" else w.ns
        if res.taxon_namespace is not want_ns:
            V("%s|wrong-namespace" % s_site, "the result does not reference the source's taxon namespace")
            return None
        ttaxa = list(want_ns._taxa)
        rsnap, probs = snapshot(res, ttaxa)
        if probs:
            V("%s|inconsistent-row-store" % s_site, "; ".join(probs))
            return None
        if exp_exc == "free":
            # a list with a ragged / incomplete member was ACCEPTED: the statement must hold in full
            ctx.count("concatenate_outside_domain_accepted")
            srcs = [w.arg_snapshot(a, state)[2] for a in op[1]]
            j = judge_concat(srcs, rsnap[1], rsnap[2])
            if j:
                V("concatenate|ragged-source|%s|%s" % (source_class(srcs), j[0]), j[1])
            return None
        if rsnap[1] != exp_rows:
            if k == "export_idx":
                feature = "%s|wrong-columns" % index_collection_class(op[1], op[2])
            elif k == "export_sub":
                feature = "recorded-subset|wrong-columns"
            else:
                feature = row_feature(k, rows, rsnap[1], exp_rows)
            V("%s|%s" % (s_site, feature),
              "result rows %s, reference %s" % (show_rows(rsnap[1]), show_rows(exp_rows)))
            ok = False
        if exp_ranges is not None:
            got = sorted(s[1] for s in rsnap[2])
            if got != sorted(exp_ranges):
                V("concatenate|wrong-subsets", "recorded subsets %s, the sources' column ranges are %s" % (
                    [(s[0], list(s[1])) for s in rsnap[2]], [list(r) for r in exp_ranges]))
                ok = False
        if (hold["argids"] | hold["selfids"]) & seq_ids(res):
            V("%s|row-shared-with-argument" % s_site, "a row object (or its value list) of the result is one of the source's own")
            ok = False
        sh = shared_rows(res)
        if sh:
            V("%s|rows-share-one-object" % s_site, "the rows of taxa %r and %r of the result are one and the same object" % sh)
            ok = False
        if uses_self:
            sh = shared_rows(w.M)
            if sh and not hold.get("inherited_sharing"):
                V("%s|rows-share-one-object" % s_site, "the rows of taxa %r and %r of the source are one and the same object" % sh)
                ok = False
        target, trows = res, rsnap[1]
        succ = rsnap if first != "foreign" else None
    if not ok:
        return None
    pv = public_view_problems(dtype, target, ttaxa, trows)
    if pv:
        V("%s|public-view-differs" % s_site, pv)
        return None
    if succ is not None and maxlen(succ[1]) > b["max_columns"]:
        return None
    return succ


def row_feature(k, before, got, want):
    """distinguishing feature of a row mismatch (never the witness's labels or sizes)"""
    gp = tuple(r is not None for r in got)
    wp = tuple(r is not None for r in want)
    if gp != wp:
        return "wrong-row-set"
    if k in ("fill", "pack"):
        lens = set(len(r) for r in got if r is not None)
        if len(lens) > 1:
            return "rows-not-equally-long"
        if any(len(g) != len(x) for g, x in zip(got, want) if g is not None):
            return "wrong-length"
        return "cells-altered"
    if any(len(g) != len(x) for g, x in zip(got, want) if g is not None):
        return "wrong-row-length"
    return "wrong-cells"


# ---------------------------------------------------------------------------
# concatenate_from_streams (E1 layer, DNA): the same lists, written as FASTA / PHYLIP text

STREAM_MEMBERS = (0, 1, 2, 3, 5, 6, 8)      # pool members that can be written as text (>= 1 row, no empty rows)


def as_text(rows, schema):
    present = [(TAXA[i], "".join(r)) for i, r in enumerate(rows) if r is not None]
    if schema == "fasta":
        return "".join(">%s\n%s\n" % (t, s) for t, s in present)
    return " %d %d\n" % (len(present), len(present[0][1])) + "".join("%s  %s\n" % (t, s) for t, s in present)


def stream_lists(cfg, b):
    P = cached_pool(cfg, b)
    members = [j for j in STREAM_MEMBERS if nrows(P[j][1]) > 0 and all(r is None or len(r) > 0 for r in P[j][1])]
    out = []
    for k in (1, 2, 3):
        for lst in itertools.product(members, repeat=k):
            out.append(("fasta", lst))
            if all(is_full(P[j][1]) and is_rect(P[j][1]) for j in lst):
                out.append(("phylip", lst))
    return out


def judge_streams_result(res, sources, n):
    """judge_concat for a result whose namespace was made by the reader: rows are matched by taxon label"""
    if not isinstance(res, cmm.CharacterMatrix):
        return ("not-a-matrix", "returned %r" % (res,))
    taxa = list(res.taxon_namespace._taxa)
    labels = [t._label for t in taxa]
    if len(set(labels)) != len(labels) or any(l not in TAXA[:n] for l in labels):
        return ("wrong-namespace", "taxa of the result: %s" % (labels,))
    rsnap, probs = snapshot(res, taxa)
    if probs:
        return ("inconsistent-row-store", "; ".join(probs))
    rows = [None] * n
    for l, r in zip(labels, rsnap[1]):
        rows[TAXA.index(l)] = r
    if shared_rows(res):
        return ("rows-share-one-object", "two rows of the result are one object")
    return judge_concat(sources, tuple(rows), rsnap[2])


def check_streams(cfg, schema, lst, ctx, b):
    import io
    cfg = (cfg[0], int(cfg[1]))
    lst = tup(lst)
    dtype, n = cfg
    P = cached_pool(cfg, b)
    py = "%s.concatenate_from_streams([%s], %r)" % (CLS[dtype].__name__, ", ".join("text(P%d)" % j for j in lst), schema)
    case = {"kind": "streams", "cfg": cfg, "schema": schema, "list": lst, "py": py,
            "texts": [as_text(P[j][1], schema) for j in lst]}

    def V(sig, msg):
        ctx.violation(sig, "%s   [%s %d taxa; call: %s; texts %r]" % (msg, dtype, n, py, case["texts"]), case)

    def make():
        streams = [io.StringIO(t) for t in case["texts"]]
        return None, (lambda: CLS[dtype].concatenate_from_streams(streams, schema))

    st, val, _w, nlines = execute(make, False)
    if st == "hang":
        ctx.count("outcome:hang")
        V("concatenate_from_streams|hang", "does not terminate: more than %d lines executed, last at %s" % (LINE_BUDGET, val))
        return
    valid = all(is_full(P[j][1]) and is_rect(P[j][1]) for j in lst)
    if st == "exc":
        ctx.count("outcome:%s" % type(val).__name__)
        if valid:
            V("concatenate_from_streams|exception:%s" % type(val).__name__, "raised %r on matrices that all hold every taxon" % (val,))
        return
    ctx.count("outcome:returned")
    res = val
    if not valid:
        ctx.count("concatenate_outside_domain_accepted")
        j = judge_streams_result(res, [P[k][1] for k in lst], n)
        if j:
            V("concatenate_from_streams|ragged-source|%s|%s" % (source_class([P[k][1] for k in lst]), j[0]), j[1])
        return
    if type(res) is not CLS[dtype]:
        V("concatenate_from_streams|not-a-new-matrix-of-the-same-type", "returned %r" % (res,))
        return
    taxa = list(res.taxon_namespace._taxa)
    if [t._label for t in taxa] != list(TAXA[:n]):
        V("concatenate_from_streams|wrong-namespace", "taxa of the result: %s" % ([t._label for t in taxa],))
        return
    rsnap, probs = snapshot(res, taxa)
    plan = concat_plan([(0, None, P[j][1]) for j in lst])
    if probs or rsnap[1] != plan["rows"]:
        V("concatenate_from_streams|%s" % ("inconsistent-row-store" if probs else row_feature("concat", None, rsnap[1], plan["rows"])),
          "result rows %s, reference %s" % (probs or show_rows(rsnap[1]), show_rows(plan["rows"])))
        return
    sh = shared_rows(res)
    if sh:
        V("concatenate_from_streams|rows-share-one-object", "the rows of taxa %r and %r of the result are one and the same object" % sh)
    if sorted(x[1] for x in rsnap[2]) != sorted(plan["ranges"]):
        V("concatenate_from_streams|wrong-subsets", "recorded subsets %s, the sources' column ranges are %s" % (
            [(x[0], list(x[1])) for x in rsnap[2]], [list(r) for r in plan["ranges"]]))


# ---------------------------------------------------------------------------
# ragged / incomplete sources (E1 layer): one source with EVERY pattern of row lengths over
# {missing, 0, 1, 2, 3} per taxon, in every position of a list of 2-3 sources

RAGGED_GRID = ("ACG", "CGT", "GTA")           # cells of the patterned source (row i truncated to its length)
RAGGED_OTHERS = {"P": ("TT", "AA", "CC"), "Q": ("G", "T", "A")}     # the rectangular companions
ARRANGEMENTS = ("RP", "PR", "RPQ", "PRQ", "PQR")


def ragged_patterns(n):
    return list(itertools.product((None, 0, 1, 2, 3), repeat=n))


def ragged_sources(cfg, pattern, arr):
    """[(label, rows)] in list order; labels g1.. by position"""
    tr = TR[cfg[0]]
    n = cfg[1]
    out = []
    for pos, who in enumerate(arr):
        if who == "R":
            rows = tuple(None if L is None else tuple(tr[c] for c in RAGGED_GRID[i][:L]) for i, L in enumerate(pattern))
        else:
            rows = tuple(tuple(tr[c] for c in r) for r in RAGGED_OTHERS[who][:n])
        out.append(("g%d" % (pos + 1), rows))
    return out


def check_ragged(cfg, pattern, arr, via, ctx, b):
    import io
    cfg = (cfg[0], int(cfg[1]))
    dtype, n = cfg
    pattern = tup(pattern)
    srcs = ragged_sources(cfg, pattern, arr)
    klass = raggedness_class(srcs[arr.index("R")][1])
    site_ = "concatenate" if via == "concatenate" else "concatenate_from_streams"
    py = "%s.%s([%s])" % (CLS[dtype].__name__, site_, ", ".join("%s=%s" % (lab, show_rows(rows)) for lab, rows in srcs))
    case = {"kind": "ragged", "cfg": cfg, "pattern": pattern, "arr": arr, "via": via, "py": py}

    def V(sig, msg):
        ctx.violation(sig, "%s   [%s %d taxa; call: %s]" % (msg, dtype, n, py), case)

    hold = {}

    def make():
        if via == "concatenate":
            ns = TaxonNamespace(list(TAXA[:n]))
            ms = [build_matrix(dtype, ns, lab, rows) for lab, rows in srcs]
            hold["ns"], hold["ms"] = ns, ms
            hold["ids"] = set()
            for m in ms:
                hold["ids"] |= seq_ids(m)
            return None, (lambda: CLS[dtype].concatenate(ms))
        streams = [io.StringIO(as_text(rows, "fasta")) for lab, rows in srcs]
        return None, (lambda: CLS[dtype].concatenate_from_streams(streams, "fasta"))

    st, val, _w, nlines = execute(make, via == "concatenate")
    if nlines is not None and st != "hang":
        ctx.maximum("lines_of_a_terminating_call", nlines)
    if st == "hang":
        ctx.count("outcome:hang")
        V("%s|ragged-source|%s|hang" % (site_, klass), "does not terminate: more than %d lines executed, last at %s" % (LINE_BUDGET, val))
        return
    if via == "concatenate":
        for (lab, rows), m in zip(srcs, hold["ms"]):
            snap, probs = snapshot(m, list(hold["ns"]._taxa))
            if probs or snap != (lab, rows, ()):
                V("concatenate|argument-changed", "source %s changed: now %s" % (lab, probs or pretty(snap)))
            if shared_rows(m):
                V("concatenate|rows-share-one-object", "two rows of source %s are one object" % lab)
    valid = klass == "rectangular"
    if st == "exc":
        ctx.count("outcome:%s" % type(val).__name__)
        if valid or (via == "concatenate" and not isinstance(val, ValueError)):
            V("%s|%s|exception:%s" % (site_, "ragged-source|" + klass if not valid else "rectangular-sources", type(val).__name__),
              "raised %r" % (val,))
        else:
            ctx.count("ragged_or_incomplete_source:refused")
        return
    ctx.count("outcome:returned")
    ctx.count("ragged_or_incomplete_source:accepted" if not valid else "rectangular_sources:accepted")
    res = val
    if via == "concatenate":
        if type(res) is not CLS[dtype] or res.taxon_namespace is not hold["ns"]:
            V("concatenate|not-a-new-matrix-of-the-same-type", "returned %r" % (res,))
            return
        rsnap, probs = snapshot(res, list(hold["ns"]._taxa))
        if probs:
            V("concatenate|inconsistent-row-store", "; ".join(probs))
            return
        if shared_rows(res):
            V("concatenate|rows-share-one-object", "two rows of the result are one object")
        if hold["ids"] & seq_ids(res):
            V("concatenate|row-shared-with-argument", "a row object of the result is one of a source's own")
        j = judge_concat([rows for lab, rows in srcs], rsnap[1], rsnap[2])
    else:
        j = judge_streams_result(res, [rows for lab, rows in srcs], n)
    if j:
        V("%s|%s|%s" % (site_, "ragged-source|" + klass if not valid else "rectangular-sources", j[0]), j[1])


def ragged_items(cfg):
    """(pattern, arrangement, via) for one configuration"""
    dtype, n = cfg
    out = []
    if n < 2:
        return out
    for pat in ragged_patterns(n):
        for arr in ARRANGEMENTS:
            out.append((pat, arr, "concatenate"))
            # as FASTA text (DNA): rows must exist and be non-empty to be written
            if dtype == "dna" and any(L is not None for L in pat) and all(L is None or L > 0 for L in pat):
                out.append((pat, arr, "streams"))
    return out


# ---------------------------------------------------------------------------
# BFS levels

def nontrivial(cfg, state):
    return cfg[1] >= 2 and state[1] is not None and ncells(state[1]) > 0


def run_starts(chunk, ctx):
    """depth 0: build every pool matrix (state = its snapshot, checked against the definition);
    E1 layer: concatenate(list) for every list of pool matrices -> depth-1 states"""
    cfg = (chunk["cfg"][0], int(chunk["cfg"][1]))
    b = bounds(chunk["tier"])
    out = []
    if chunk["part"] == "pool":
        P = pool(cfg, b)
        for j, (lab, rows) in enumerate(P):
            w = World(cfg, (lab, rows, ()), b)
            snap, probs = snapshot(w.M, w.taxa)
            if probs or snap != (lab, rows, ()):
                raise AssertionError("harness: builder/snapshot disagree on pool matrix %d of %r" % (j, cfg))
            if shared_rows(w.M):
                raise AssertionError("harness: builder made two rows one object")
            pv = public_view_problems(cfg[0], w.M, w.taxa, rows)
            if pv:
                ctx.violation("observation|public-view-differs", pv, {"kind": "pool", "cfg": cfg, "index": j})
            ctx.count("pool_matrices")
            out.append((snap, ("start", j)))
        return out
    if chunk["part"] == "exports":
        mats = export_layer_matrices(cfg, b)
        for mi, lo, hi in chunk["slices"]:
            w, (lab, rows) = mats[mi]
            state = (lab, rows, ())
            for seq, form in index_collections(w)[lo:hi]:
                op = ("export_idx", tup(seq), form)
                ctx.case((cfg, "E1x", mi, op), nontrivial=cfg[1] >= 2)
                ctx.count("transitions")
                ctx.count("calls:%s(index collection layer)" % site(op))
                ctx.count("index_collections:" + index_collection_class(seq, form))
                check_transition(cfg, state, op, ctx, b)
                if form == "list" and seq == (0, 1, 1, 3) and lab == "r":
                    ctx.sample({"layer": "E1 export, index collections", "config": "%s, %d taxa" % cfg, "m": pretty(state),
                                "call": opstr(cfg, op), "reference": show_rows(ref_export(rows, seq))}, 1)
        return out
    if chunk["part"] == "ragged":
        for pat, arr, via in chunk["items"]:
            pat = tup(pat)
            ctx.case((cfg, "E1r", pat, arr, via), nontrivial=True)
            ctx.count("transitions")
            ctx.count("calls:%s(ragged/incomplete source layer)" % ("concatenate" if via == "concatenate" else "concatenate_from_streams"))
            ctx.count("ragged_layer:source-class:" + raggedness_class(ragged_sources(cfg, pat, arr)[arr.index("R")][1]))
            check_ragged(cfg, pat, arr, via, ctx, b)
            if arr == "PRQ" and pat[0] == 3 and pat[-1] == 1 and via == "concatenate":
                ctx.sample({"layer": "E1 ragged source", "config": "%s, %d taxa" % cfg,
                            "sources": {lab: show_rows(rows) for lab, rows in ragged_sources(cfg, pat, arr)},
                            "oracle": "documented ValueError, or rows = per-taxon concatenation and every recorded subset "
                                      "selects exactly its source's sequence for every taxon"}, 1)
        return out
    if chunk["part"] == "streams":
        for schema, lst in chunk["lists"]:
            ctx.case((cfg, "E1s", schema, tup(lst)), nontrivial=cfg[1] >= 2)
            ctx.count("transitions")
            ctx.count("calls:concatenate_from_streams")
            check_streams(cfg, schema, lst, ctx, b)
        return out
    none_state = (None, None, ())
    for lst in chunk["lists"]:
        op = ("concat", tup(lst))
        ctx.case((cfg, "E1", op), nontrivial=cfg[1] >= 2)
        ctx.count("transitions")
        ctx.count("calls:concatenate")
        ctx.count("concatenate_lists_over_the_pool")
        succ = check_transition(cfg, none_state, op, ctx, b, measure=True)
        if succ is not None:
            out.append((succ, op))
            if len(lst) == 3 and cfg[1] == 3:
                ctx.sample({"layer": "E1 concatenate", "config": "%s, %d taxa" % cfg, "call": opstr(cfg, op),
                            "pool": {"P%d" % j: pretty((cached_pool(cfg, b)[j][0], cached_pool(cfg, b)[j][1], ()))
                                     for j in lst if j != "foreign"},
                            "result": pretty(succ)}, 1)
    return out


def digest(state):
    """what the explorer needs to know about a state of the last level (never expanded), packed into one
    unsigned 64-bit number: 56 bits of the state's hash + widest row (4 bits) + ragged / taxa missing /
    has subsets / has cells"""
    rows = state[1]
    return ((hash(state) & 0xFFFFFFFFFFFFFF) << 8) | (min(maxlen(rows), 15) << 4) | (int(not is_rect(rows)) << 3) | \
        (int(not is_full(rows)) << 2) | (int(bool(state[2])) << 1) | int(ncells(rows) > 0)


def _expand_state(cfg, state, depth, last, b, ctx, out, seen_local, pidx):
    ops = enabled_ops(cfg, state, depth, b)
    ctx.maximum("ops_enabled_in_one_state", len(ops))
    nt = nontrivial(cfg, state)
    for op in ops:
        ctx.case((cfg, "t", state, op), nontrivial=nt)
        ctx.count("transitions")
        ctx.count("calls:" + site(op))
        succ = check_transition(cfg, state, op, ctx, b, measure=(depth == 0))
        if succ is None:
            ctx.count("transitions_without_successor")
            continue
        if succ == state:
            ctx.count("transitions_self_loop")
            continue
        if succ not in seen_local:
            seen_local.add(succ)
            out.append(digest(succ) if last else (succ, pidx, op))


FIRST_OPS = (("fill_taxa",), ("pack", "none", 1, 1), ("pack", "max+1", 1, 1), ("pack", "max+1", 0, 1),
             ("pack", "none", 1, 0), ("fill", "none", 1), ("fill", "max+1", 0))


def history_pairs(cfg, state, depth, b):
    """[(first op, intermediate snapshot, [second ops])]: fill_taxa / pack / fill followed, ON THE SAME LIVE
    OBJECT, by every operation enabled in the intermediate state plus every single-cell assignment"""
    n = cfg[1]
    if depth > depth_of(cfg, b) - 2 or n - nrows(state[1]) < b["history_pairs_min_taxa_missing"]:
        return []
    out = []
    for f in FIRST_OPS:
        if f[1:2] == ("max+1",) and maxlen(state[1]) + 1 > b["max_columns"]:
            continue
        w = World(cfg, state, b)
        try:
            thunk_for(cfg, w, f, state)()
        except Exception:
            continue                       # reported by the plain transition
        mid, probs = snapshot(w.M, w.taxa)
        if probs:
            continue
        seconds = list(enabled_ops(cfg, mid, depth + 1, b))
        for i, r in enumerate(mid[1]):
            if r is not None:
                for j in range(len(r)):
                    seconds.append(("setcell", i, j))
        out.append((f, mid, seconds))
    return out


def _expand_pairs(cfg, state, depth, b, ctx):
    nt = nontrivial(cfg, state) or cfg[1] >= 2
    for f, mid, seconds in history_pairs(cfg, state, depth, b):
        for op in seconds:
            ctx.case((cfg, "h", state, f, op), nontrivial=nt)
            ctx.count("transitions")
            ctx.count("two_step_histories_on_one_live_object")
            ctx.count("calls:history:%s->%s" % (site(f), site(op)))
            check_transition(cfg, mid, op, ctx, b, prefix=(state, f))


def run_level(chunk, ctx):
    cfg = (chunk["cfg"][0], int(chunk["cfg"][1]))
    b = bounds(chunk["tier"])
    out = []
    seen_local = set()
    for pidx, state in enumerate(chunk["states"]):
        _expand_state(cfg, tup(state), chunk["depth"], chunk["last"], b, ctx, out, seen_local, pidx)
        _expand_pairs(cfg, tup(state), chunk["depth"], b, ctx)
    if chunk["states"] and cfg[1] >= 2:
        from mc.runner import Ctx
        st = tup(chunk["states"][len(chunk["states"]) // 2])
        ops = enabled_ops(cfg, st, chunk["depth"], b)
        scratch = Ctx()
        written = []
        for o in ops[::max(1, len(ops) // 5)][:6]:
            if is_hang_prone(cfg, st, o, b):
                continue
            nxt = check_transition(cfg, st, o, scratch, b)
            written.append({"call": opstr(cfg, o), "result": pretty(nxt) if nxt is not None else "(exception / violation: no successor)"})
        ctx.sample({"config": "%s, %d taxa" % cfg, "depth": chunk["depth"], "m": pretty(st), "enabled_ops": len(ops),
                    "some_transitions": written}, 2)
    if chunk["last"]:
        return array.array("Q", out).tobytes()
    return out


def configs(b):
    return [(d, n) for d in b["data_types"] for n in b["namespace_sizes"]]


def _count_state(ctx, cfg, depth, d):
    h, cols, ragged, missing, subs, cells = d >> 8, (d >> 4) & 15, (d >> 3) & 1, (d >> 2) & 1, (d >> 1) & 1, d & 1
    ctx.case((cfg, "s", h), nontrivial=cfg[1] >= 2 and bool(cells))
    ctx.count("states")
    ctx.count("states_at_depth_%d" % depth)
    ctx.maximum("columns", cols)
    if ragged:
        ctx.count("states_ragged")
    if missing:
        ctx.count("states_with_taxa_missing")
    if subs:
        ctx.count("states_with_character_subsets")


def _progress(msg):
    import os
    import sys
    import time
    if os.environ.get("VERIF_PROGRESS"):
        sys.stderr.write("[C19 %s] %s\n" % (time.strftime("%H:%M:%S"), msg))
        sys.stderr.flush()


def explore(tier, runner):
    b = bounds(tier)
    ctx = runner.ctx
    cfgs = configs(b)
    # ---- depth 0 (pool) and the E1 concatenate layers
    chunks = []
    for cfg in cfgs:
        chunks.append({"cfg": cfg, "tier": tier, "part": "pool"})
        lists = concat_lists_pool_only(cfg, b, len(pool(cfg, b)))
        for i in range(0, len(lists), 40):
            chunks.append({"cfg": cfg, "tier": tier, "part": "concat", "lists": lists[i:i + 40]})
        for mi, (w, _m) in enumerate(export_layer_matrices(cfg, b)):
            total = len(index_collections(w))
            for lo in range(0, total, 1500):
                chunks.append({"cfg": cfg, "tier": tier, "part": "exports", "slices": [(mi, lo, min(lo + 1500, total))]})
        items = ragged_items(cfg)
        for i in range(0, len(items), 80):
            chunks.append({"cfg": cfg, "tier": tier, "part": "ragged", "items": items[i:i + 80]})
        if cfg[0] == "dna":
            lists = stream_lists(cfg, b)
            for i in range(0, len(lists), 60):
                chunks.append({"cfg": cfg, "tier": tier, "part": "streams", "lists": lists[i:i + 60]})
    res = runner.map("run_starts", chunks)
    parent = {}                       # (cfg, state) -> (predecessor state | None, op)    [expanded levels only]
    seenh = {cfg: set() for cfg in cfgs}
    level = {0: {cfg: [] for cfg in cfgs}, 1: {cfg: [] for cfg in cfgs}}
    for part, d in (("pool", 0), ("concat", 1)):
        for ch, r in zip(chunks, res):
            cfg = tuple(ch["cfg"])
            if ch["part"] != part:
                continue
            for s, op in r:
                if (cfg, s) not in parent:
                    parent[(cfg, s)] = (None, op)
                    seenh[cfg].add(digest(s) >> 8)
                    level[d][cfg].append(s)
    ctx.count("start_states", sum(len(v) for d in (0, 1) for v in level[d].values()))
    frontier = {cfg: sorted(level[0][cfg], key=repr) for cfg in cfgs}
    pending1 = {cfg: sorted(level[1][cfg], key=repr) for cfg in cfgs}
    for cfg in cfgs:
        for s in frontier[cfg]:
            _count_state(ctx, cfg, 0, digest(s))
    depth = 0
    completed = {}
    while any(frontier.values()):
        chunks = []
        for cfg in cfgs:
            D = depth_of(cfg, b)
            if depth >= D or not frontier[cfg]:
                continue
            n = 1 if depth == 0 else b["chunk_states"]
            for i in range(0, len(frontier[cfg]), n):
                chunks.append({"cfg": cfg, "states": frontier[cfg][i:i + n], "last": depth == D - 1, "tier": tier, "depth": depth})
            completed[cfg] = depth + 1
        if not chunks:
            break
        _progress("depth %d: expanding %d states in %d chunks" % (depth, sum(len(c["states"]) for c in chunks), len(chunks)))
        results = runner.map("run_level", chunks)
        _progress("depth %d done: transitions=%d hangs=%d" % (depth, ctx.counters.get("transitions", 0), ctx.counters.get("outcome:hang", 0)))
        new = {cfg: [] for cfg in cfgs}
        if depth == 0:
            for cfg in cfgs:            # a concatenation of pool matrices is a history of one operation
                for s in pending1[cfg]:
                    _count_state(ctx, cfg, 1, digest(s))
                if depth_of(cfg, b) > 1:
                    new[cfg].extend(pending1[cfg])
        for ch, r in zip(chunks, results):
            cfg = tuple(ch["cfg"])
            if ch["last"]:
                ds = array.array("Q")
                ds.frombytes(r)
                for d in ds:
                    if (d >> 8) not in seenh[cfg]:
                        seenh[cfg].add(d >> 8)
                        _count_state(ctx, cfg, depth + 1, d)
                continue
            for succ, pidx, op in r:
                if (cfg, succ) not in parent:
                    parent[(cfg, succ)] = (tup(ch["states"][pidx]), op)
                    seenh[cfg].add(digest(succ) >> 8)
                    _count_state(ctx, cfg, depth + 1, digest(succ))
                    new[cfg].append(succ)
        frontier = {cfg: sorted(new[cfg], key=repr) for cfg in cfgs}
        depth += 1
        ctx.maximum("depth_completed", depth)
    for sig, ent in ctx.viol.items():
        for v in ent["first"]:
            c = v["case"]
            if isinstance(c, dict) and c.get("kind") == "trans" and c["state"][1] is not None:
                c["history"] = history(parent, tuple(c["cfg"]), tup(c.get("prefix_state", c["state"]))) + [c["py"]]
    runner.notes.append("BFS completed per configuration (data type/taxa: depth) %s; states of the last level are "
                        "counted, not expanded" % (", ".join("%s/%d:%d" % (c[0], c[1], d) for c, d in sorted(completed.items())),))


def history(parent, cfg, state):
    steps = []
    s = state
    guard = 0
    while s is not None and (cfg, s) in parent and guard < 50:
        p, op = parent[(cfg, s)]
        steps.append(opstr(cfg, op))
        s = p
        guard += 1
    return steps[::-1]


# ---------------------------------------------------------------------------

def replay(case, ctx):
    k = case.get("kind")
    b = bounds("thorough")
    if k == "trans":
        cfg = (case["cfg"][0], int(case["cfg"][1]))
        prefix = (tup(case["prefix_state"]), tup(case["prefix_op"])) if "prefix_op" in case else None
        check_transition(cfg, tup(case["state"]), tup(case["op"]), ctx, b, prefix=prefix)
    elif k == "ragged":
        check_ragged(tuple(case["cfg"]), tup(case["pattern"]), case["arr"], case["via"], ctx, b)
    elif k == "streams":
        check_streams(tuple(case["cfg"]), case["schema"], tup(case["list"]), ctx, b)
    elif k == "pool":
        cfg = (case["cfg"][0], int(case["cfg"][1]))
        run_starts({"cfg": cfg, "tier": "thorough", "part": "pool"}, ctx)
    else:
        raise ValueError("unknown case kind %r" % k)
