"""C01 - bipartition encoding exact, canonical, sufficient to rebuild (DESIGN 3/C01).

Engine E1: exhaustive enumeration of U(n) x rooting x child orders x unifurcation
placements x unrooted re-drawings x namespace configurations x encoder flags.
"""
import itertools

import dendropy
from dendropy.datamodel.treemodel import Bipartition

from mc import ref, build
from mc import universe as U

ID = "C01"
LEVEL = "exploration"
EXHAUSTIVE = True
RULE = ("every tree of U(n) (all rooted shapes on n labelled leaves, n up to the tier bound) x rooting {rooted, "
        "unrooted, undefined} x child-order variants x unifurcation insertions x unrooted re-drawings x six "
        "namespace configurations x encoder flag pairs; a case = one (drawing, rooting, namespace config, flags) "
        "encoding, one reconstruction order, or one predicate argument pair; non-trivial = tree has >= 3 leaves; plus a stated "
        "finite set of large representatives (ladders, stars, balanced trees, a broom with 16..130 leaves) for size-triggered defects")
ASSUMPTIONS = [
    "reference bit index of a taxon = order of accession recorded by the harness (mc/build.make_namespace)",
    "reference topology = clade sets computed from Node._child_nodes by mc/ref.py",
    "reconstruction is checked only for trees whose leaves span their namespace (the statement's 'over all taxa of the namespace')",
    "trivial bipartition = one side has at most one taxon (docstring of Bipartition.is_trivial), for both rooting states",
]


def bounds(tier):
    if tier == "quick":
        return {"max_leaves": 5, "all_orders_up_to": 4, "double_unifurcations_up_to": 4,
                "ns_configs": build.NS_CONFIGS, "full_permutation_limit": 6,
                "large_representatives": [(k, n) for k, n, _ in big_shapes()]}
    return {"max_leaves": 6, "all_orders_up_to": 4, "double_unifurcations_up_to": 4,
            "ns_configs": build.NS_CONFIGS, "full_permutation_limit": 7,
            "large_representatives": [(k, n) for k, n, _ in big_shapes()]}


def chunks(tier):
    b = bounds(tier)
    out = []
    for n in range(1, b["max_leaves"] + 1):
        ns = len(U.shapes(n))
        step = 4 if n >= 5 else 30
        for rooted in (True, False):
            for lo in range(0, ns, step):
                out.append({"kind": "enc", "n": n, "lo": lo, "hi": min(ns, lo + step), "rooted": rooted, "tier": tier})
        for rooted in (True, False):
            out.append({"kind": "pred", "n": n, "rooted": rooted, "tier": tier})
    for i in range(len(big_shapes())):
        out.append({"kind": "big", "index": i, "tier": tier})
    for n in range(2, (4 if tier == "quick" else 5) + 1):
        ns = len(U.shapes(n))
        step = 6 if n <= 4 else 8
        for lo in range(0, ns, step):
            out.append({"kind": "reenc", "n": n, "lo": lo, "hi": min(ns, lo + step), "tier": tier})
    for n in range(1, (4 if tier == "quick" else 5) + 1):
        out.append({"kind": "taxonless", "n": n, "tier": tier})
    return out


def labels_for(n):
    if n <= len(U.LABELS):
        return U.LABELS[:n]
    return ["t%03d" % i for i in range(n)]


def big_shapes():
    """A stated finite set of larger trees (size-triggered defects - word sizes, block sizes,
    recursion limits - are invisible in U(n<=6)): ladders, balanced trees, stars, a broom."""
    out = []

    def ladder(k, left=True):
        s = 0
        for i in range(1, k):
            s = (s, i) if left else (i, s)
        return s

    def balanced(lo, hi):
        if hi - lo == 1:
            return lo
        mid = (lo + hi) // 2
        return (balanced(lo, mid), balanced(mid, hi))
    for k in (17, 31, 32, 33, 40, 63, 64, 65, 70, 130):
        out.append(("ladder", k, ladder(k)))
        out.append(("star", k, tuple(range(k))))
    for k in (16, 32, 64, 128):
        out.append(("balanced", k, balanced(0, k)))
    out.append(("broom", 60, (ladder(20), tuple(range(20, 60)))))
    out.append(("right-ladder", 66, ladder(66, left=False)))
    return out


def tup(x):
    if isinstance(x, list):
        return tuple(tup(y) for y in x)
    return x


# ---------------------------------------------------------------------------

def variants(shape, n, b):
    """[(tag, drawing)]: child orders, unifurcations, (unrooted handled by caller)."""
    out = [("base", shape)]
    if n <= b["all_orders_up_to"]:
        for o in U.all_orders(shape):
            if o != shape:
                out.append(("order", o))
    else:
        for o in U.order_variants(shape)[1:]:
            out.append(("order", o))
    k = 2 if n <= b["double_unifurcations_up_to"] else 1
    for u in U.with_unifurcations(shape, k, (1, 2) if n <= 3 else (1,)):
        out.append(("unif", u))
    return out


def expected_masks(tree, bit):
    """From primitive links: {id(edge): leafset mask}, tree mask."""
    masks = {}

    def rec(nd):
        if not nd._child_nodes:
            m = (1 << bit[nd.taxon._label]) if nd.taxon is not None else 0
        else:
            m = 0
            for c in nd._child_nodes:
                m |= rec(c)
        masks[id(nd._edge)] = m
        return m
    total = rec(tree._seed_node)
    return masks, total


def normalise(mask, total):
    low = total & (-total)
    if mask & low:
        return (~mask) & total
    return mask & total


def check_encoding(case, ctx, collect=None):
    shape = tup(case["shape"])
    rooted = case["rooted"]
    cfg = case["ns"]
    su, cb = case["flags"]
    labels = labels_for(case["n"])
    ns, bit = build.make_namespace(labels, cfg)
    sn = ref.mk(shape, lens=1, labels=labels)
    tree = build.build_tree((rooted, sn), ns)
    is_rooted = bool(rooted)
    ref_key = ref.topology_key(sn, is_rooted)
    try:
        enc = tree.encode_bipartitions(suppress_unifurcations=su, collapse_unrooted_basal_bifurcation=cb)
    except Exception as e:
        ctx.violation("encode|exception|%s" % type(e).__name__, "encode_bipartitions raised %r" % (e,), case)
        return None
    probs = ref.wellformed(tree)
    if probs:
        ctx.violation("encode|malformed-tree", "; ".join(probs), case)
        return None
    after = ref.snapshot(tree)[1]
    if ref.topology_key(after, is_rooted) != ref_key or sorted(ref.leaves(after)) != sorted(ref.leaves(sn)):
        ctx.violation("encode|topology-changed", "encode_bipartitions changed the %s topology: %s -> %s" % (
            "rooted" if is_rooted else "unrooted", ref.to_newick(sn, False), ref.to_newick(after, False)), case)
        return None
    masks, total = expected_masks(tree, bit)
    edges = []
    stack = [tree._seed_node]
    while stack:
        nd = stack.pop()
        edges.append(nd._edge)
        stack.extend(nd._child_nodes)
    lib_splits = set()
    for e in edges:
        bp = e.bipartition
        want = masks[id(e)]
        if bp is None or bp._leafset_bitmask != want or e.leafset_bitmask != want:
            ctx.violation("encode|leafset-bitmask", "edge leafset bitmask %r, leaves below give %s (tree %s, ns %s)" % (
                None if bp is None else bin(bp._leafset_bitmask), bin(want), ref.to_newick(after, False), cfg), case)
            return None
        wsplit = want if is_rooted else normalise(want, total)
        if bp._split_bitmask != wsplit or e.split_bitmask != wsplit:
            ctx.violation("encode|split-bitmask|%s" % ("rooted" if is_rooted else "unrooted"),
                          "edge split bitmask %s, definition gives %s (leafset %s, tree leafset %s, ns %s)" % (
                              bin(bp._split_bitmask) if bp._split_bitmask is not None else None, bin(wsplit), bin(want), bin(total), cfg), case)
            return None
        if bp._tree_leafset_bitmask != total:
            ctx.violation("encode|tree-leafset-bitmask", "tree_leafset_bitmask %r != %s" % (bp._tree_leafset_bitmask, bin(total)), case)
            return None
        lib_splits.add(bp._split_bitmask)
    # (c) the stored encoding lists exactly the bipartitions of the tree's edges
    enc2 = tree.bipartition_encoding
    if enc is not enc2 or sorted(id(b) for b in enc2) != sorted(id(e.bipartition) for e in edges):
        ctx.violation("encode|encoding-list", "bipartition_encoding is not exactly the edges' bipartitions (%d entries, %d edges)" % (
            len(enc2), len(edges)), case)
        return None
    sem = tree.split_bitmask_edge_map
    if set(sem.keys()) != lib_splits or any(sem[k].bipartition._split_bitmask != k for k in sem):
        ctx.violation("encode|split-bitmask-edge-map", "split_bitmask_edge_map keys/edges inconsistent", case)
    bem = tree.bipartition_edge_map
    if any(bem[b2].bipartition != b2 for b2 in bem) or set(b2._split_bitmask for b2 in bem) != lib_splits:
        ctx.violation("encode|bipartition-edge-map", "bipartition_edge_map inconsistent", case)
    if collect is not None:
        collect.append(((case["n"], is_rooted, cfg), frozenset(lib_splits), ref_key, case))
    return tree, ns, bit, sn


def placements(enc_idx, trivial_idx, limit):
    """orderings of the encoding handed to reconstruction"""
    allidx = list(enc_idx) + list(trivial_idx)
    if len(allidx) <= limit:
        for p in itertools.permutations(allidx):
            yield p
        return
    for p in itertools.permutations(enc_idx):
        p = list(p)
        yield tuple(list(trivial_idx) + p)
        yield tuple(p + list(trivial_idx))
        yield tuple(list(reversed(trivial_idx)) + list(reversed(p)))
        mix = []
        tq = list(trivial_idx)
        for x in p:
            mix.append(x)
            if tq:
                mix.append(tq.pop())
        mix.extend(tq)
        yield tuple(mix)


def check_reconstruct(case, ctx):
    """case: shape, rooted, ns, n, perm (or None = all), via"""
    shape = tup(case["shape"])
    rooted = case["rooted"]
    is_rooted = bool(rooted)
    cfg = case["ns"]
    labels = labels_for(case["n"])
    limit = case.get("limit", 6)
    ns, bit = build.make_namespace(labels, cfg)
    sn = ref.mk(shape, lens=1, labels=labels)
    tree = build.build_tree((rooted, sn), ns)
    enc = list(tree.encode_bipartitions())
    ref_key = ref.topology_key(sn, is_rooted)
    nontriv = [i for i, b in enumerate(enc) if not _trivial_mask(b._leafset_bitmask, b._tree_leafset_bitmask)]
    triv = [i for i in range(len(enc)) if i not in nontriv]
    if case.get("perm") is not None:
        perms = [tuple(case["perm"])]
    elif case.get("perm_kinds"):
        idx = list(range(len(enc)))
        perms = []
        for kind in case["perm_kinds"]:
            if kind == "identity":
                perms.append(tuple(idx))
            elif kind == "reversed":
                perms.append(tuple(reversed(idx)))
            elif kind == "rotated":
                perms.append(tuple(idx[len(idx) // 2:] + idx[:len(idx) // 2]))
            elif kind == "interleaved":
                perms.append(tuple(idx[0::2] + idx[1::2]))
            elif kind == "by-size-desc":
                perms.append(tuple(sorted(idx, key=lambda i: -bin(enc[i]._leafset_bitmask).count("1"))))
            elif kind == "by-size-asc":
                perms.append(tuple(sorted(idx, key=lambda i: bin(enc[i]._leafset_bitmask).count("1"))))
    else:
        perms = placements(nontriv, triv, limit)
    for perm in perms:
        for via in ("bipartitions", "bitmasks"):
            c = dict(case, perm=list(perm), via=via)
            ctx.case(("rec", shape, rooted, cfg, perm, via), nontrivial=case["n"] >= 3)
            try:
                if via == "bipartitions":
                    t2 = dendropy.Tree.from_bipartition_encoding([enc[i] for i in perm], ns, is_rooted=rooted)
                else:
                    t2 = dendropy.Tree.from_split_bitmasks([enc[i]._split_bitmask for i in perm], ns, is_rooted=rooted)
            except Exception as e:
                ctx.violation("reconstruct|exception|%s" % type(e).__name__, "reconstruction raised %r" % (e,), c)
                break
            probs = ref.wellformed(t2)
            s2 = ref.snapshot(t2)
            if probs:
                ctx.violation("reconstruct|malformed", "; ".join(probs), c)
                break
            if cfg in NON_SPANNING:
                # the tree covers only part of the namespace: the rebuilt tree spans every taxon of
                # the namespace, restricted to the source's leaves it is the source topology, and
                # on a rooted tree every clade of the source - its whole leaf set included - is a clade
                all_labels = sorted(bit)
                tag = "rooted" if is_rooted else "unrooted"
                if sorted(ref.leaves(s2[1])) != all_labels:
                    ctx.violation("reconstruct|extra-taxa|leaves", "rebuilt tree has leaves %s, namespace has %s" % (ref.leaves(s2[1]), all_labels), c)
                    break
                ind = ref.induced(s2[1], set(labels))
                if ind is None or ref.topology_key(ind, is_rooted) != ref_key:
                    ctx.violation("reconstruct|extra-taxa|restricted-topology|%s" % tag,
                                  "rebuilt %s from order %s, source %s" % (ref.to_newick(s2[1], False), list(perm), ref.to_newick(sn, False)), c)
                    break
                if is_rooted and frozenset(labels) not in ref.rooted_clades(s2[1]):
                    ctx.violation("reconstruct|extra-taxa|source-leaf-set-not-a-clade|rooted",
                                  "rebuilt %s from order %s, source %s: the leaves of the source tree no longer form a clade" % (ref.to_newick(s2[1], False), list(perm), ref.to_newick(sn, False)), c)
                    break
                if bool(s2[0]) != is_rooted:
                    ctx.violation("reconstruct|rooting", "rebuilt tree is_rooted=%r, asked %r" % (s2[0], rooted), c)
                    break
                ctx.count("reconstructions_with_taxa_not_on_the_tree")
                continue
            if sorted(ref.leaves(s2[1])) != sorted(labels):
                ctx.violation("reconstruct|leaves", "rebuilt tree has leaves %s, namespace has %s" % (ref.leaves(s2[1]), labels), c)
                break
            if ref.topology_key(s2[1], is_rooted) != ref_key:
                ctx.violation("reconstruct|topology|%s" % ("rooted" if is_rooted else "unrooted"),
                              "rebuilt %s from order %s, source %s" % (ref.to_newick(s2[1], False), list(perm), ref.to_newick(sn, False)), c)
                break
            if bool(s2[0]) != is_rooted:
                ctx.violation("reconstruct|rooting", "rebuilt tree is_rooted=%r, asked %r" % (s2[0], rooted), c)
                break
            if any(nd.taxon is not None and nd.taxon not in ns._taxa for nd in t2.leaf_node_iter()):
                ctx.violation("reconstruct|foreign-taxon", "leaf taxon is not a member of the namespace", c)
                break


def _trivial_mask(m, total):
    m &= total
    o = total & ~m
    return bin(m).count("1") <= 1 or bin(o).count("1") <= 1


SPANNING = ("exact", "reversed", "removed_low")
NON_SPANNING = ("extra_low", "extra_high", "sorted_after")


BIG_PERMS = ["identity", "reversed", "rotated", "interleaved", "by-size-desc", "by-size-asc"]


def run_big(chunk, ctx):
    kind, n, shape = big_shapes()[chunk["index"]]
    collect = []
    for rooted in (True, False):
        drawings = [("base", shape), ("order", U.reverse_all(shape))]
        if not rooted:
            rd = U.redrawings(shape)
            picks = sorted(set([1, 2, len(rd) // 2, len(rd) - 2, len(rd) - 1]) & set(range(len(rd))))
            drawings += [("redraw", rd[i]) for i in picks if rd[i] != shape]
        for tag, d in drawings:
            for cfg in ("exact", "removed_low", "reversed", "extra_low"):
                case = {"kind": "enc", "n": n, "shape": d, "rooted": rooted, "ns": cfg, "flags": [True, True], "tag": "big-" + tag}
                ctx.case(("enc-big", kind, n, tag, d if n <= 40 else hash(d), rooted, cfg))
                ctx.count("encodings")
                ctx.count("big_tree_encodings")
                check_encoding(case, ctx, collect)
        for cfg in ("exact", "removed_low"):
            check_reconstruct({"kind": "rec", "n": n, "shape": shape, "rooted": rooted, "ns": cfg, "perm": None,
                               "perm_kinds": BIG_PERMS}, ctx)
    ctx.sample({"large_representative": kind, "leaves": n}, 1)
    agg = {}
    for cls, lk, rk, case in collect:
        agg.setdefault(cls, {}).setdefault(lk, {}).setdefault(rk, case)
    return agg


# ---------------------------------------------------------------------------
# re-encoding histories: [earlier use of the bipartition data; edit; encode] must give exactly what a
# fresh encoding of the edited tree gives (stale/reused Bipartition objects, lazily created ones)

PRE_OPS = ["none", "touch-edge-bipartitions", "mrca-first", "encode", "encode-mutable", "encode-mutable-twice"]
EDITS = ["none", "toggle-rooting", "swap-two-leaf-taxa", "regraft-first-leaf", "reseed-at-last-internal"]
FINALS = [(False, False), (True, False), (True, True)]   # (is_bipartitions_mutable, suppress_storage)


def check_reencode(case, ctx):
    from mc import bipcheck
    shape = tup(case["shape"])
    n = case["n"]
    labels = labels_for(n)
    ns, bit = build.make_namespace(labels, case["ns"])
    sn = ref.mk(shape, lens=1, labels=labels)
    tree = build.build_tree((case["rooted"], sn), ns)
    pre, edit, (mut, nostore) = case["pre"], case["edit"], case["final"]
    try:
        if pre == "touch-edge-bipartitions":
            for nd in tree.preorder_node_iter():
                nd.edge.bipartition
        elif pre == "mrca-first":
            tree.mrca(taxon_labels=[l for l in labels[:2]])
        elif pre == "encode":
            tree.encode_bipartitions()
        elif pre == "encode-mutable":
            tree.encode_bipartitions(is_bipartitions_mutable=True)
        elif pre == "encode-mutable-twice":
            tree.encode_bipartitions(is_bipartitions_mutable=True)
            tree.encode_bipartitions(is_bipartitions_mutable=True)
        saved = tree.bipartition_encoding
        saved_vals = None if saved is None else sorted((b._leafset_bitmask, b._split_bitmask) for b in saved)
        saved_frozen = saved is not None and all(not b.is_mutable for b in saved)
        leaves = [nd for nd in tree.leaf_node_iter()]
        internal = [nd for nd in tree.preorder_node_iter() if nd._child_nodes and nd._parent_node is not None]
        if edit == "toggle-rooting":
            tree.is_rooted = not bool(tree.is_rooted)
        elif edit == "swap-two-leaf-taxa" and len(leaves) >= 2:
            leaves[0].taxon, leaves[-1].taxon = leaves[-1].taxon, leaves[0].taxon
        elif edit == "regraft-first-leaf" and len(leaves) >= 3:
            lf = leaves[0]
            target = [nd for nd in tree.preorder_node_iter() if nd._child_nodes and nd is not lf._parent_node]
            if target:
                lf._parent_node.remove_child(lf)
                target[-1].add_child(lf)
        elif edit == "reseed-at-last-internal" and internal:
            tree.reseed_at(internal[-1], update_bipartitions=False)
        enc = tree.encode_bipartitions(is_bipartitions_mutable=mut, suppress_storage=nostore)
    except Exception as e:
        ctx.violation("reencode|exception|%s" % type(e).__name__, "history %s/%s/%s raised %r" % (pre, edit, (mut, nostore), e), case)
        return
    probs = ref.wellformed(tree)
    if probs:
        ctx.violation("reencode|malformed-tree", "; ".join(probs), case)
        return
    # every edge must carry exactly what a fresh encoding of the present structure gives
    masks, total = bipcheck.expected_masks(tree, bit)
    is_rooted = bool(tree._is_rooted)
    stack = [tree._seed_node]
    while stack:
        nd = stack.pop()
        stack.extend(nd._child_nodes)
        bp = nd._edge._bipartition
        want = masks[id(nd._edge)]
        ws = want if is_rooted else normalise(want, total)
        if bp is None or bp._leafset_bitmask != want or bp._split_bitmask != ws or bool(bp._is_rooted) != is_rooted \
                or bp._tree_leafset_bitmask != total:
            ctx.violation("reencode|stale-bipartition|after:%s" % pre,
                          "after [%s; %s; encode(mutable=%s)] an edge carries leafset=%s split=%s rooted=%r, a fresh encoding gives leafset=%s split=%s rooted=%r" % (
                              pre, edit, mut, None if bp is None else bin(bp._leafset_bitmask or 0),
                              None if bp is None or bp._split_bitmask is None else bin(bp._split_bitmask), None if bp is None else bp._is_rooted,
                              bin(want), bin(ws), is_rooted), case)
            return
    if not nostore:
        ep = bipcheck.encoding_problems(tree, bit)
        if ep:
            ctx.violation("reencode|encoding-list|after:%s" % pre, "; ".join(ep[:2]), case)
            return
    # an encoding that was frozen (immutable) when it was saved must not be rewritten by later work
    if saved_frozen and saved is not tree.bipartition_encoding:
        now = sorted((b._leafset_bitmask, b._split_bitmask) for b in saved)
        if now != saved_vals:
            ctx.violation("reencode|saved-frozen-encoding-rewritten", "an immutable encoding saved before the edit changed its values", case)


def check_taxonless(case, ctx):
    """Leaves without a taxon contribute nothing to any leafset: every edge's leafset bitmask is
    exactly the set of taxa on the leaves below it, whatever the position of the taxon-less leaves
    in the child order."""
    from mc import bipcheck
    shape = tup(case["shape"])
    n = case["n"]
    labels = list(labels_for(n))
    for k in case["blank"]:
        labels[k] = None
    full = [l for l in labels_for(n)]
    ns, bit = build.make_namespace(full, case["ns"])
    sn = ref.mk(shape, lens=1, labels=labels)
    tree = build.build_tree((case["rooted"], sn), ns)
    try:
        tree.encode_bipartitions(suppress_unifurcations=False, collapse_unrooted_basal_bifurcation=False)
    except Exception as e:
        ctx.violation("encode|taxon-less-leaves|exception|%s" % type(e).__name__, repr(e), case)
        return
    probs = bipcheck.encoding_problems(tree, bit)
    if probs:
        ctx.violation("encode|taxon-less-leaves|%s" % ("rooted" if case["rooted"] else "unrooted"),
                      "%s with leaves %s lacking a taxon: %s" % (ref.to_newick(sn, False), case["blank"], "; ".join(sorted(set(probs))[:2])), case)


def run_taxonless(chunk, ctx):
    n = chunk["n"]
    for shape in U.shapes(n):
        for order in U.all_orders(shape):
            for rooted in (True, False):
                for k in range(1, n + 1):
                    for blank in itertools.combinations(range(n), k):
                        if k > 2 and k < n:
                            continue
                        for cfg in ("exact", "extra_low"):
                            case = {"kind": "taxonless", "n": n, "shape": order, "rooted": rooted, "ns": cfg, "blank": list(blank)}
                            ctx.case(("taxonless", order, rooted, cfg, blank), nontrivial=n >= 2)
                            ctx.count("encodings_with_taxon_less_leaves")
                            check_taxonless(case, ctx)
    return None


def run_reenc(chunk, ctx):
    n = chunk["n"]
    shapes = U.shapes(n)
    for si in range(chunk["lo"], chunk["hi"]):
        for rooted in (True, False):
            for cfg in ("exact", "removed_low"):
                for pre in PRE_OPS:
                    for edit in EDITS:
                        for final in FINALS:
                            case = {"kind": "reenc", "n": n, "shape": shapes[si], "rooted": rooted, "ns": cfg, "pre": pre, "edit": edit,
                                    "final": list(final)}
                            ctx.case(("reenc", shapes[si], rooted, cfg, pre, edit, final), nontrivial=n >= 3)
                            ctx.count("reencode_histories")
                            check_reencode(case, ctx)
    return None


def run_chunk(chunk, ctx):
    if chunk["kind"] == "pred":
        return run_pred(chunk, ctx)
    if chunk["kind"] == "big":
        return run_big(chunk, ctx)
    if chunk["kind"] == "reenc":
        return run_reenc(chunk, ctx)
    if chunk["kind"] == "taxonless":
        return run_taxonless(chunk, ctx)
    n, rooted, tier = chunk["n"], chunk["rooted"], chunk["tier"]
    b = bounds(tier)
    shapes = U.shapes(n)
    collect = []
    for si in range(chunk["lo"], chunk["hi"]):
        shape = shapes[si]
        vs = variants(shape, n, b)
        if not rooted:
            for d in U.redrawings(shape):
                if d != shape:
                    vs.append(("redraw", d))
        rootings = [rooted] if rooted else [False, None]
        for tag, d in vs:
            for r in rootings:
                if r is None and tag not in ("base", "redraw"):
                    continue
                for cfg in b["ns_configs"]:
                    if tag == "unif":
                        flagset = [(True, True), (False, True), (True, False), (False, False)]
                    elif tag in ("base", "redraw") and not r:
                        flagset = [(True, True), (True, False)]
                    else:
                        flagset = [(True, True)]
                    for flags in flagset:
                        case = {"kind": "enc", "n": n, "shape": d, "rooted": r, "ns": cfg, "flags": list(flags), "tag": tag}
                        ctx.case(("enc", d, r, cfg, flags), nontrivial=n >= 3)
                        ctx.count("encodings")
                        check_encoding(case, ctx, collect)
            ctx.count("drawings")
        ctx.sample({"tree": ref.to_newick(ref.mk(shape), False), "rooted": rooted, "drawings": len(vs)}, 2)
        # reconstruction from the base drawing
        for r in rootings:
            for cfg in SPANNING + NON_SPANNING:
                check_reconstruct({"kind": "rec", "n": n, "shape": shape, "rooted": r, "ns": cfg, "perm": None,
                                   "limit": b["full_permutation_limit"]}, ctx)
    # compress for the parent: class -> lib_key -> {ref_key: witness}
    agg = {}
    for cls, lk, rk, case in collect:
        agg.setdefault(cls, {}).setdefault(lk, {}).setdefault(rk, case)
    return agg


def post(tier, auxes, ctx):
    """The iff: within a class, grouping by split-bitmask set and grouping by reference
    topology must coincide (decides every pair of the class)."""
    merged = {}
    for agg in auxes:
        if not agg or not isinstance(agg, dict):
            continue
        for cls, d in agg.items():
            m = merged.setdefault(cls, {})
            for lk, rd in d.items():
                mm = m.setdefault(lk, {})
                for rk, case in rd.items():
                    mm.setdefault(rk, case)
    pairs = 0
    for cls, m in merged.items():
        by_ref = {}
        ntrees = 0
        for lk, rd in m.items():
            ntrees += len(rd)
            if len(rd) > 1:
                cs = list(rd.values())[:2]
                ctx.violation("iff|same-splits-different-topology|%s" % ("rooted" if cls[1] else "unrooted"),
                              "two different topologies have equal split bitmask sets (class %s)" % (cls,),
                              {"kind": "pair", "a": cs[0], "b": cs[1], "expect": "different"})
            for rk, case in rd.items():
                by_ref.setdefault(rk, {}).setdefault(lk, case)
        for rk, ld in by_ref.items():
            if len(ld) > 1:
                cs = list(ld.values())[:2]
                ctx.violation("iff|same-topology-different-splits|%s" % ("rooted" if cls[1] else "unrooted"),
                              "one topology drawn two ways has different split bitmask sets (class %s)" % (cls,),
                              {"kind": "pair", "a": cs[0], "b": cs[1], "expect": "equal"})
        k = len(by_ref)
        pairs += k * k
        ctx.count("iff_classes")
        ctx.count("iff_topologies", k)
    ctx.count("iff_topology_pairs_decided", pairs)


# ---------------------------------------------------------------------------
# predicates

def run_pred(chunk, ctx):
    n, rooted = chunk["n"], chunk["rooted"]
    for cfg in ("exact", "removed_low", "extra_low"):
        check_predicates({"kind": "predclass", "n": n, "rooted": rooted, "ns": cfg}, ctx)
    return None


def _labelset(mask, bit):
    return frozenset(l for l, i in bit.items() if mask & (1 << i))


def check_predicates(case, ctx):
    n, rooted, cfg = case["n"], case["rooted"], case["ns"]
    labels = labels_for(n)
    ns, bit = build.make_namespace(labels, cfg)
    allc = frozenset(labels)
    bips = {}
    trees = []
    for shape in U.shapes(n):
        sn = ref.mk(shape, lens=1)
        t = build.build_tree((rooted, sn), ns)
        t.encode_bipartitions()
        trees.append((shape, sn))
        for b in t.bipartition_encoding:
            bips.setdefault(b._leafset_bitmask, b)
    only = case.get("only")
    items = sorted(bips.items())
    for m1, b1 in items:
        A = _labelset(m1, bit)
        want_triv = len(A) <= 1 or len(allc - A) <= 1
        ctx.case(("triv", n, rooted, cfg, m1), nontrivial=n >= 3)
        if bool(b1.is_trivial()) != want_triv:
            ctx.violation("pred|is_trivial|%s" % ("rooted" if rooted else "unrooted"),
                          "is_trivial()=%r for side %s of %s" % (b1.is_trivial(), sorted(A), sorted(allc)), dict(case, only=[m1]))
        for m2, b2 in items:
            B = _labelset(m2, bit)
            ctx.case(("pair", n, rooted, cfg, m1, m2), nontrivial=n >= 3)
            want = ref.compatible_rooted(A, B) if rooted else ref.compatible_unrooted(A, B, allc)
            if bool(b1.is_compatible_with(b2)) != want:
                ctx.violation("pred|is_compatible_with|%s" % ("rooted" if rooted else "unrooted"),
                              "is_compatible_with=%r for %s vs %s over %s" % (b1.is_compatible_with(b2), sorted(A), sorted(B), sorted(allc)),
                              dict(case, only=[m1, m2]))
            if bool(b1.is_incompatible_with(b2)) == want:
                ctx.violation("pred|is_incompatible_with", "is_incompatible_with inconsistent for %s vs %s" % (sorted(A), sorted(B)),
                              dict(case, only=[m1, m2]))
            if bool(b1.is_leafset_nested_within(b2)) != (A <= B):
                ctx.violation("pred|is_leafset_nested_within", "is_leafset_nested_within=%r for %s in %s" % (
                    b1.is_leafset_nested_within(b2), sorted(A), sorted(B)), dict(case, only=[m1, m2]))
    # whole-tree compatibility
    for shape, sn in trees:
        if rooted:
            tsplits = ref.rooted_clades(sn)
        else:
            tsplits = set(min(s, key=sorted) for s in ref.unrooted_splits(sn))
        for m1, b1 in items:
            A = _labelset(m1, bit)
            if rooted:
                want = all(ref.compatible_rooted(A, c) for c in tsplits)
            else:
                want = all(ref.compatible_unrooted(A, c, allc) for c in tsplits)
            ctx.case(("treecompat", n, rooted, cfg, shape, m1), nontrivial=n >= 4)
            for fresh in (True, False):
                t = build.build_tree((rooted, sn), ns)
                if not fresh:
                    t.encode_bipartitions()
                try:
                    got = t.is_compatible_with_bipartition(b1, is_bipartitions_updated=not fresh)
                except Exception as e:
                    ctx.violation("pred|tree-compatible|exception", repr(e), dict(case, only=[m1]))
                    continue
                if bool(got) != want:
                    ctx.violation("pred|is_compatible_with_bipartition|%s" % ("rooted" if rooted else "unrooted"),
                                  "tree %s vs side %s: got %r want %r" % (ref.to_newick(sn, False), sorted(A), got, want),
                                  dict(case, only=[m1], tree=shape))
    # whole-tree compatibility with default arguments after the tree was encoded / queried and then
    # edited: the answer must be for the structure as it is now, not for the encoding left behind
    for shape, sn in trees:
        for edit in ("swap-two-leaf-taxa", "regraft-first-leaf"):
            for prime in ("encode", "query"):
                t = build.build_tree((rooted, sn), ns)
                if prime == "encode":
                    t.encode_bipartitions()
                else:
                    t.is_compatible_with_bipartition(items[0][1])
                leaves = [nd for nd in t.leaf_node_iter()]
                if edit == "swap-two-leaf-taxa":
                    if len(leaves) < 2:
                        continue
                    leaves[0].taxon, leaves[-1].taxon = leaves[-1].taxon, leaves[0].taxon
                else:
                    if len(leaves) < 3:
                        continue
                    lf = leaves[0]
                    target = [nd for nd in t.preorder_node_iter() if nd._child_nodes and nd is not lf._parent_node]
                    if not target:
                        continue
                    lf._parent_node.remove_child(lf)
                    target[-1].add_child(lf)
                cur = ref.snapshot(t)[1]
                if rooted:
                    tsplits = ref.rooted_clades(cur)
                else:
                    tsplits = set(min(x, key=sorted) for x in ref.unrooted_splits(cur))
                for m1, b1 in items:
                    A = _labelset(m1, bit)
                    if rooted:
                        want = all(ref.compatible_rooted(A, c) for c in tsplits)
                    else:
                        want = all(ref.compatible_unrooted(A, c, allc) for c in tsplits)
                    ctx.case(("treecompat-after-edit", n, rooted, cfg, shape, edit, prime, m1), nontrivial=n >= 4)
                    ctx.count("tree_compatibility_queries_after_an_edit")
                    try:
                        got = t.is_compatible_with_bipartition(b1)
                    except Exception as e:
                        ctx.violation("pred|tree-compatible|after-edit|exception", repr(e), dict(case, only=[m1]))
                        continue
                    if bool(got) != want:
                        ctx.violation("pred|is_compatible_with_bipartition|after:%s+%s|%s" % (prime, edit, "rooted" if rooted else "unrooted"),
                                      "tree now %s (was %s) vs side %s with default arguments: got %r want %r" % (
                                          ref.to_newick(cur, False), ref.to_newick(sn, False), sorted(A), got, want),
                                      dict(case, only=[m1], tree=shape))
    ctx.sample({"predicate_class": [n, rooted, cfg], "distinct_bipartitions": len(items)}, 1)


# ---------------------------------------------------------------------------

def replay(case, ctx):
    k = case.get("kind")
    if k == "enc":
        check_encoding(case, ctx, None)
    elif k == "rec":
        check_reconstruct(case, ctx)
    elif k == "predclass":
        check_predicates(case, ctx)
    elif k == "taxonless":
        check_taxonless(case, ctx)
    elif k == "reenc":
        check_reencode(case, ctx)
    elif k == "pair":
        col = []
        check_encoding(case["a"], ctx, col)
        check_encoding(case["b"], ctx, col)
        if len(col) == 2:
            same_lib = col[0][1] == col[1][1]
            same_ref = col[0][2] == col[1][2]
            if same_lib and not same_ref:
                ctx.violation("iff|same-splits-different-topology|%s" % ("rooted" if col[0][0][1] else "unrooted"), "replayed pair", case)
            if same_ref and not same_lib:
                ctx.violation("iff|same-topology-different-splits|%s" % ("rooted" if col[0][0][1] else "unrooted"), "replayed pair", case)
    else:
        raise ValueError("unknown case kind %r" % k)
