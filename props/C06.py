"""C06 - tree-sample summaries are independent of partitioning, order and scheduling
(DESIGN 3/C06).

(A) merge algebra of TreeArray: every partition of a sample into <= 3 sub-collections
    (some empty), every arrival order, every merge operation, explicit/implicit rooting;
(B) the real SumTrees master/worker code under a deterministic scheduler (mc/sched.py):
    every trace class of interleavings, sleep-set reduced, reduction validated against
    the unreduced exploration for W <= 2; bounded 'spurious Empty' deviations;
(C) TLA+ model of the work-queue protocol explored unreduced by TLC; every terminal
    trace class of the model is replayed step by step on the implementation and every
    class the implementation exhibits must be one of the model's.
"""
import itertools
import os
import shutil
import tempfile

import dendropy

from mc import ref, build, tlc
from mc import sumtrees_harness as H
from mc import sched_explore as X
from mc.sched import ReplayMismatch

ID = "C06"
LEVEL = "model_checking"
EXHAUSTIVE = True
RULE = ("(A2) every history [j trees added one at a time; one read; k-j more trees; two further reads in either order] over reads "
        "{frequencies, length summaries, age summaries, consensus tree, summarize-on-tree}, each read compared with the same read on "
        "a collection filled in one go; (A) all assignments of a k-tree sample to 3 sub-arrays x builder op x arrival permutation x merge op "
        "{update, extend, +=, +} x target {fresh, first part} x rooting {explicit, implicit} x tree rooting; "
        "(B) every Mazurkiewicz trace class of the real parallel_analyze_trees/TreeAnalysisWorker.run for W workers x "
        "F files x schema x rooting configuration, 0..D spurious-Empty deviations; (C) every terminal trace class of "
        "the TLA+ model replayed on the implementation; a case = one merge history / one execution; non-trivial = "
        "at least two sub-collections are involved or at least two workers run")
ASSUMPTIONS = [
    "code between two queue operations of a worker touches only worker-local state (audited once; in production it runs "
    "in another address space), so queue operations are the only scheduling points",
    "queues pickle on put / unpickle on get, reproducing the process boundary; OS-level failures (signals, pipe limits) are not modelled",
    "independence relation for the sleep-set reduction as stated in DESIGN C06; validated in every run against the "
    "unreduced exploration for W <= 2 (same set of trace classes and verdicts)",
    "the oracle compares split counts/frequencies, per-split length multisets, consensus topology and supports, MCC score "
    "(topology when the maximiser is unique) and the per-tree queries with the serial result, rounded to 1e-9",
]
MANIFEST = {
    "engine": "E2-HIST + E3-SCHED + E6-TLC",
    "text": "Model checking of the implementation's schedules: the unmodified SumTrees master/worker code runs in-process under a "
            "cooperative scheduler that owns every queue operation; all trace classes for W<=4 workers and F<=3 files are "
            "executed and compared with the serial result; a TLA+ model of the protocol is explored unreduced by TLC and every "
            "one of its terminal trace classes is replayed step-wise on the implementation (conformance in both directions). "
            "The TreeArray merge algebra is enumerated exhaustively over partitions, arrival orders and merge operations.",
    "note": "trusted: mc/sched.py scheduler shim (pickling queues), the stated independence relation (cross-checked unreduced for W<=2), TLC",
    "technique": "stateless exploration of all interleavings under a controlled scheduler with sleep sets + TLC model with all trace classes replayed on the code",
}

LABELS = ["a", "b", "c", "d"]
SAMPLE = [  # (shape, lengths in pre-order (root first), weight)
    (((0, 1), (2, 3)), [None, 1.0, 1.0, 2.0, 0.5, 1.0, 1.0], 1.0),
    (((0, 2), (1, 3)), [None, 2.0, 1.0, 1.0, 1.0, 1.0, 3.0], 2.0),
    ((0, (1, (2, 3))), [None, 1.0, 1.0, 1.0, 1.0, 2.0, 1.0], 0.5),
    (((0, 1), 2, 3), [None, 1.0, 1.0, 1.0, 2.0, 1.0], 1.0),
    (((0, 1), (2, 3)), [None, 3.0, 2.0, 1.0, 1.5, 1.0, 2.0], 1.0),
]


def bounds(tier):
    if tier == "quick":
        return {"A_sample_sizes": [2, 3], "A_merge_ops": ["update", "extend", "iadd", "add"],
                "B_workers": [1, 2, 3, 4], "B_files": [1, 2, 3], "B_deviation_bound": 1, "B_unreduced_up_to_workers": 2,
                "C_models": [[2, 2, 0], [3, 2, 0], [3, 3, 0], [2, 2, 1], [3, 2, 1]]}
    return {"A_sample_sizes": [2, 3, 4], "A_merge_ops": ["update", "extend", "iadd", "add"],
            "B_workers": [1, 2, 3, 4], "B_files": [1, 2, 3], "B_deviation_bound": 2, "B_unreduced_up_to_workers": 3,
            "C_models": [[2, 2, 0], [3, 2, 0], [3, 3, 0], [4, 3, 0], [2, 2, 1], [3, 2, 1], [3, 3, 1], [3, 2, 2], [4, 2, 1]]}


# ---------------------------------------------------------------------------
# (A) merge algebra

def make_tree(i, rooted, ns):
    shape, lens, w = SAMPLE[i]
    sn = ref.mk(shape, lens=lens, labels=LABELS)
    t = build.build_tree((rooted, sn), ns)
    t.weight = w
    return t


def new_array(ns, spec, ages=False):
    if ages:
        # node ages collected too (non-default option); the sample is not ultrametric, so the check is off
        return dendropy.TreeArray(taxon_namespace=ns, is_rooted_trees=spec, ignore_node_ages=False, ultrametricity_precision=False)
    return dendropy.TreeArray(taxon_namespace=ns, is_rooted_trees=spec)


def build_part(ns, idxs, rooted, spec, bop, ages=False):
    ta = new_array(ns, spec, ages)
    trees = [make_tree(i, rooted, ns) for i in idxs]
    if bop == "add_tree":
        for t in trees:
            ta.add_tree(t)
    elif bop == "append":
        for t in trees:
            ta.append(t)
    elif bop == "insert0":
        for t in trees:
            ta.insert(0, t)
    elif bop == "add_trees":
        ta.add_trees(trees)
    return ta


def merge_case(case, ctx):
    k, rooted, implicit = case["k"], case["rooted"], case["implicit"]
    spec = None if implicit else rooted
    assign, perm, mop, bop, base = case["assign"], case["perm"], case["mop"], case["bop"], case["base"]
    ages = case.get("ages", False)
    ns = dendropy.TaxonNamespace(LABELS)
    serial = new_array(ns, rooted, ages)
    for i in range(k):
        serial.add_tree(make_tree(i, rooted, ns))
    want, wp = H.summary(serial)
    parts = [[i for i in range(k) if assign[i] == p] for p in range(3)]
    arrays = [build_part(ns, parts[p], rooted, spec, bop, ages) for p in range(3)]
    order = [arrays[p] for p in perm]
    sizes = [len(parts[p]) for p in perm]
    if base == "fresh":
        target = new_array(ns, spec, ages)
        todo = list(zip(order, sizes))
        tsize = 0
    else:
        target = order[0]
        todo = list(zip(order[1:], sizes[1:]))
        tsize = sizes[0]
    for other, osize in todo:
        feature = "%s-into-%s" % ("empty" if osize == 0 else "nonempty", "empty" if tsize == 0 else "nonempty")
        try:
            if mop == "update":
                target.update(other)
            elif mop == "extend":
                target.extend(other)
            elif mop == "iadd":
                target += other
            elif mop == "add":
                target = target + other
        except Exception as e:
            ctx.violation("merge|%s|%s|%s|%s" % (mop, type(e).__name__, feature, "implicit-rooting" if implicit else "explicit-rooting"),
                          "%s of a %s raised %s: %s" % (mop, feature.replace("-", " "), type(e).__name__, str(e)[:160]), case)
            return
        tsize += osize
    got, gp = H.summary(target)
    # operands other than the target must come out of the merge unchanged (they may be merged
    # again elsewhere: "merged in any arrival order" quantifies over histories that reuse them)
    for p in range(3):
        if arrays[p] is target:
            continue
        alone = new_array(ns, rooted, ages)
        for i in parts[p]:
            alone.add_tree(make_tree(i, rooted, ns))
        wa, _ = H.summary(alone, with_queries=False)
        ga, _ = H.summary(arrays[p], with_queries=False)
        d = H.diff_summaries(wa, ga)
        if d:
            ctx.violation("merge|%s|operand-modified|%s" % (mop, "+".join(d[:3])),
                          "after %s-merging, a source sub-collection no longer summarises its own trees: %s differs (%r vs %r)" % (
                              mop, d[0], ga.get(d[0]), wa.get(d[0])), case)
            return
    for name, e in gp:
        ctx.violation("merge|%s|query-fails|%s" % (mop, name), "after %s-merging, %s fails: %r" % (mop, name, e), case)
    if gp:
        return
    diff = H.diff_summaries(want, got)
    if diff:
        ctx.violation("merge|%s|summary-differs|%s" % (mop, "+".join(diff[:3])),
                      "merged summary differs from serial in %s (e.g. %s: %r vs %r)" % (diff, diff[0], got.get(diff[0]), want.get(diff[0])), case)


# ---------------------------------------------------------------------------
# (A2) trees added one at a time with reads in between: "added one at a time in any order" also
# quantifies over collections that are looked at while they are being filled

def _canon(v):
    if isinstance(v, float):
        return round(v, 9)
    if isinstance(v, (list, tuple)):
        return tuple(_canon(x) for x in v)
    if isinstance(v, dict):
        return tuple(sorted((str(k), _canon(x)) for k, x in v.items()))
    if isinstance(v, (int, str, bool)) or v is None:
        return v
    return str(v)


def _table(t):
    return tuple(sorted((int(k), _canon(v)) for k, v in t.items()))


def _summarized(ta, rooted, ns):
    target = make_tree(0, rooted, ns)
    ta.summarize_splits_on_tree(target)
    out = {}

    def rec(nd):
        if not nd._child_nodes:
            cl = frozenset([nd.taxon._label])
        else:
            cl = frozenset()
            for c in nd._child_nodes:
                cl |= rec(c)
        ann = sorted((str(a.name), _canon(a.value)) for a in nd.annotations) + sorted(
            ("edge:" + str(a.name), _canon(a.value)) for a in nd.edge.annotations)
        out[tuple(sorted(cl))] = (_canon(getattr(nd, "support", None)), _canon(nd.edge.length), tuple(ann))
        return cl
    rec(target._seed_node)
    return tuple(sorted(out.items()))


def _consensus(ta):
    ct = ta.consensus_tree(min_freq=0.5)
    out = {}

    def rec(nd):
        if not nd._child_nodes:
            cl = frozenset([nd.taxon._label])
        else:
            cl = frozenset()
            for c in nd._child_nodes:
                cl |= rec(c)
        out[tuple(sorted(cl))] = (_canon(getattr(nd, "support", None)), _canon(nd.edge.length))
        return cl
    rec(ct._seed_node)
    return tuple(sorted(out.items()))


READS = {
    "frequencies": lambda ta, rooted, ns: _table(ta._split_distribution.split_frequencies),
    "length-summaries": lambda ta, rooted, ns: _table(ta._split_distribution.split_edge_length_summaries),
    "age-summaries": lambda ta, rooted, ns: _table(ta._split_distribution.split_node_age_summaries),
    "consensus": lambda ta, rooted, ns: _consensus(ta),
    "summarize-on-tree": lambda ta, rooted, ns: _summarized(ta, rooted, ns),
}
READ_ORDER = ["frequencies", "length-summaries", "age-summaries", "consensus", "summarize-on-tree"]


def _add(ta, t, bop):
    if bop == "add_tree":
        ta.add_tree(t)
    elif bop == "append":
        ta.append(t)
    else:
        ta.insert(0, t)


def interleave_case(case, ctx):
    k, rooted, bop, j, r1, r2a, r2b = case["k"], case["rooted"], case["bop"], case["j"], case["interim"], case["first"], case["second"]
    ns = dendropy.TaxonNamespace(LABELS)
    ta = new_array(ns, rooted)
    try:
        for i in range(k):
            if i == j and r1 is not None:
                READS[r1](ta, rooted, ns)
            _add(ta, make_tree(i, rooted, ns), bop)
        got = [READS[r2a](ta, rooted, ns), READS[r2b](ta, rooted, ns)]
    except Exception as e:
        ctx.violation("fill-and-read|exception|%s" % type(e).__name__, "history %r raised %r" % (case, e), case)
        return
    for name, g in zip((r2a, r2b), got):
        fresh = new_array(ns, rooted)
        for i in range(k):
            _add(fresh, make_tree(i, rooted, ns), bop)
        want = READS[name](fresh, rooted, ns)
        if g != want:
            ctx.violation("fill-and-read|%s|after:%s+additions|read-%s" % (name, r1, "first" if name == r2a and g is got[0] else "second"),
                          "%s read after [%d trees; %s; %d more trees%s] differs from the same read on a collection filled in one go: %r vs %r" % (
                              name, j, r1, k - j, "" if name == r2a else "; " + r2a, g[:2], want[:2]), case)
            return


def run_A2(chunk, ctx):
    k, rooted, bop = chunk["k"], chunk["rooted"], chunk["bop"]
    n = 0
    for j in range(1, k):
        for r1 in [None] + READ_ORDER:
            for r2a in READ_ORDER:
                for r2b in READ_ORDER:
                    if r2a == r2b:
                        continue
                    case = {"kind": "fill-and-read", "k": k, "rooted": rooted, "bop": bop, "j": j, "interim": r1, "first": r2a, "second": r2b}
                    ctx.case(("fill-and-read", k, rooted, bop, j, r1, r2a, r2b))
                    ctx.count("A2_fill_and_read_histories")
                    ctx.count("transitions")
                    interleave_case(case, ctx)
                    n += 1
    ctx.count("states", n)


def chunks_A2(tier):
    out = []
    for k in bounds(tier)["A_sample_sizes"]:
        for rooted in (True, False):
            for bop in ("add_tree", "append", "insert0"):
                out.append({"part": "A2", "k": k, "rooted": rooted, "bop": bop})
    return out


def chunks_A(tier):
    b = bounds(tier)
    out = []
    for k in b["A_sample_sizes"]:
        for rooted in (True, False):
            for implicit in (False, True):
                for mop in b["A_merge_ops"]:
                    for ages in (False, True):
                        out.append({"part": "A", "k": k, "rooted": rooted, "implicit": implicit, "mop": mop, "ages": ages})
    return out


def run_A(chunk, ctx):
    k = chunk["k"]
    n = 0
    for assign in itertools.product(range(3), repeat=k):
        for perm in itertools.permutations(range(3)):
            for bop in ("add_tree", "append", "insert0", "add_trees"):
                for base in ("fresh", "first"):
                    case = {"kind": "merge", "k": k, "rooted": chunk["rooted"], "implicit": chunk["implicit"], "assign": list(assign),
                            "perm": list(perm), "mop": chunk["mop"], "bop": bop, "base": base, "ages": chunk.get("ages", False)}
                    ctx.case(("merge", k, chunk["rooted"], chunk["implicit"], assign, perm, chunk["mop"], bop, base, chunk.get("ages", False)),
                             nontrivial=len(set(assign)) >= 2)
                    ctx.count("A_merge_histories")
                    ctx.count("transitions")
                    merge_case(case, ctx)
                    n += 1
    ctx.count("states", n)
    ctx.sample({"merge_history": {"sample_size": k, "assignment_to_parts": [0, 1, 2][:k], "arrival_order": [2, 0, 1],
                                  "merge_op": chunk["mop"], "implicit_rooting": chunk["implicit"]}}, 1)


# ---------------------------------------------------------------------------
# (B)/(C) SumTrees configurations

FILE_TREES = [
    ["((a:1,b:1):1,(c:1,d:1):1);", "((a:2,c:1):1,(b:1,d:1):1);"],
    ["((a:1,b:3):1,(c:1,d:1):2);"],
    ["(a:1,(b:1,(c:2,d:1):1):1);", "((a:1,b:1):2,(c:1,d:2):1);"],
]
_DIR = [None]


def files_dir():
    if _DIR[0] is None or not os.path.isdir(_DIR[0]):
        _DIR[0] = tempfile.mkdtemp(prefix="verif-c06-")
    return _DIR[0]


def make_cfg(spec):
    """spec = (schema, token, F, rooted)"""
    schema, token, F, rooted = spec
    d = files_dir()
    files = []
    for i in range(F):
        trees = [(token + " " if token else "") + t for t in FILE_TREES[i]]
        name = os.path.join(d, "%s_%s_f%d.%s" % (schema, (token or "plain").strip("[]&"), i + 1, "nex" if schema == "nexus" else "nwk"))
        if not os.path.exists(name):
            if schema == "newick":
                txt = "\n".join(trees) + "\n"
            else:
                txt = "#NEXUS\nBEGIN TAXA;\n DIMENSIONS NTAX=4;\n TAXLABELS a b c d;\nEND;\nBEGIN TREES;\n" + \
                      "".join(" TREE t%d = %s\n" % (j + 1, t) for j, t in enumerate(trees)) + "END;\n"
            with open(name + ".tmp", "w") as f:
                f.write(txt)
            os.replace(name + ".tmp", name)
        files.append(name)
    return {"files": files, "schema": schema, "labels": LABELS, "rooted": rooted, "spec": list(spec)}


def cfg_specs(tier):
    b = bounds(tier)
    out = []
    for F in b["B_files"]:
        for schema in ("newick", "nexus"):
            for token, rooted in (("", None), ("[&R]", None), ("", True), ("", False)):
                if schema == "nexus" and (token, rooted) not in (("", None), ("", True)):
                    continue
                out.append((schema, token, F, rooted))
    return out


_SERIAL = {}


def serial_summary(cfg):
    key = tuple(cfg["spec"])
    if key not in _SERIAL:
        _SERIAL[key] = H.summary(H.serial(cfg))
    return _SERIAL[key]


def judge(ex, cfg, W, case, ctx, devs):
    """compare one execution with the serial result"""
    tag = "sumtrees" if devs == 0 else "sumtrees-after-spurious-empty"
    cl = ex.outcome_class()
    idle = any(all(x in ("Empty", "SpuriousEmpty") for x in v) for t, v in cl[1])
    feature = "idle-worker" if idle else "all-workers-busy"
    rooting = "implicit-rooting" if cfg["rooted"] is None else "explicit-rooting"
    if ex.deadlock:
        ctx.violation("%s|deadlock" % tag, "no enabled task but not all finished; class %r" % (cl,), case)
        return "deadlock"
    if ex.error is not None:
        ctx.violation("%s|exception|%s|%s|%s" % (tag, type(ex.error).__name__, feature, rooting),
                      "parallel_analyze_trees raised %s: %s (class %r)" % (type(ex.error).__name__, str(ex.error)[:160], cl), case)
        return "exception:" + type(ex.error).__name__
    want, wp = serial_summary(cfg)
    got, gp = H.summary(ex.result)
    for name, e in gp:
        ctx.violation("%s|query-fails|%s" % (tag, name), "%s fails on the merged array: %r" % (name, e), case)
    diff = H.diff_summaries(want, got)
    if diff:
        nread = len(cl[0])
        ctx.violation("%s|summary-differs|%s" % (tag, "files-unread" if nread < len(cfg["files"]) else "+".join(diff[:3])),
                      "parallel summary differs from serial in %s; class %r" % (diff, cl), case)
        return "differs"
    return "ok"


def run_B(chunk, ctx):
    spec, W, D = tuple(chunk["spec"]), chunk["W"], chunk["D"]
    cfg = make_cfg(spec)
    classes = {}
    verdicts = set()

    def on(ex, schedule):
        devs = sum(1 for t in schedule if t[1] == X.SPURIOUS)
        case = {"kind": "schedule", "spec": list(spec), "W": W, "schedule": [list(t) for t in schedule], "unreduced": False}
        ctx.case(("sched", spec, W, tuple(schedule)), nontrivial=W >= 2)
        v = judge(ex, cfg, W, case, ctx, devs)
        classes[ex.outcome_class()] = v
        verdicts.add(v)
        if v in ("ok", "differs"):
            complete.add(ex.outcome_class())
    complete = set()
    st = X.explore(cfg, W, D, on)
    ctx.count("B_executions", st["executions"])
    ctx.count("B_sleep_set_blocked", st["sleep_blocked"])
    ctx.count("B_trace_classes", len(classes))
    ctx.count("transitions", st["executions"])
    ctx.count("states", len(classes))
    ctx.count("traces_validated_against_impl", st["executions"])
    red_classes = dict(classes)
    if chunk.get("unreduced"):
        classes_u = {}

        def on_u(ex, schedule):
            devs = sum(1 for t in schedule if t[1] == X.SPURIOUS)
            case = {"kind": "schedule", "spec": list(spec), "W": W, "schedule": [list(t) for t in schedule], "unreduced": True}
            ctx.case(("sched-u", spec, W, tuple(schedule)), nontrivial=W >= 2)
            classes_u[ex.outcome_class()] = judge(ex, cfg, W, case, ctx, devs)
        stu = X.explore(cfg, W, D, on_u, unreduced=True)
        ctx.count("B_unreduced_executions", stu["executions"])
        ctx.count("transitions", stu["executions"])
        ctx.count("traces_validated_against_impl", stu["executions"])
        if classes_u != red_classes:
            only_u = sorted(set(classes_u) - set(red_classes))[:2]
            only_r = sorted(set(red_classes) - set(classes_u))[:2]
            raise RuntimeError("sleep-set reduction is unsound or the scheduler does not own the nondeterminism: "
                               "unreduced-only classes %r, reduced-only %r (spec %r W=%d D=%d)" % (only_u, only_r, spec, W, D))
        ctx.count("B_reduction_validated_configs")
    if W >= 2:
        ctx.sample({"config": {"schema": spec[0], "rooting_token": spec[1], "files": spec[2], "is_source_trees_rooted": spec[3], "workers": W,
                               "deviations": D}, "trace_classes": len(classes), "one_class": repr(sorted(classes)[0])}, 1)
    # classes as (W, F, D)-model classes (file names -> 1-based index)
    # only executions that ran to completion define a trace class comparable with the model
    return {"W": W, "F": spec[2], "D": D, "classes": [normalise_class(c, cfg) for c in complete],
            "clean": len(complete) == len(classes)}


def normalise_class(c, cfg):
    idx = {os.path.basename(f): i + 1 for i, f in enumerate(cfg["files"])}
    return (tuple((t, idx[f]) for t, f in c[0]), tuple((t, tuple(idx.get(x, x) for x in v)) for t, v in c[1]), c[2])


def run_C(chunk, ctx):
    """replay model behaviours (lists of TLC labels) on the implementation"""
    W, F, D = chunk["W"], chunk["F"], chunk["D"]
    spec = tuple(chunk["spec"])
    cfg = make_cfg(spec)
    mism = []
    for labels in chunk["paths"]:
        devs = sum(1 for lab in labels if lab.startswith("Spurious"))
        case = {"kind": "model-path", "spec": list(spec), "W": W, "labels": list(labels)}
        ctx.case(("model", spec, W, tuple(labels)), nontrivial=W >= 2)
        try:
            ex = H.run_model_schedule(cfg, W, labels, tlc.parse_label)
        except ReplayMismatch as e:
            mism.append("%s on %r" % (e, labels))
            continue
        want = tlc.class_of_labels(labels, F)
        got = normalise_class(ex.outcome_class(), cfg)
        if want != got:
            mism.append("class differs: model %r implementation %r" % (want, got))
            continue
        ctx.count("C_model_traces_replayed")
        ctx.count("traces_validated_against_impl")
        ctx.count("C_model_steps_validated", ex.validated_steps)
        judge(ex, cfg, W, case, ctx, devs)
    return mism


def explore(tier, runner):
    b = bounds(tier)
    ctx = runner.ctx
    try:
        files_dir()
        specs = cfg_specs(tier)
        for s in specs:
            make_cfg(s)
        # (A)
        runner.map("run_A", chunks_A(tier))
        runner.map("run_A2", chunks_A2(tier))
        # (B)
        chunksB = []
        for spec in specs:
            for W in b["B_workers"]:
                for D in range(0, b["B_deviation_bound"] + 1):
                    if D > 0 and (W < 2 or spec[0] != "newick" or spec[1] != ""):
                        continue
                    heavy = W * 10 + spec[2]
                    if tier == "quick":
                        main = spec[0] == "newick" and spec[1] == ""
                        if heavy >= 43:
                            continue
                        if heavy >= 42 and not (main and spec[3] is True and D == 0):
                            continue
                        if heavy >= 33 and not main:
                            continue
                        if D > 0 and heavy >= 33:
                            continue
                    unred = W <= b["B_unreduced_up_to_workers"] and spec[2] <= 2 and spec[0] == "newick" and spec[1] == "" and (
                        W <= 2 or (D == 0 and spec[3] is True))
                    chunksB.append({"part": "B", "spec": list(spec), "W": W, "D": D, "unreduced": unred})
        chunksB.sort(key=lambda c: -(c["W"] * 10 + c["spec"][2] + (100 if c["unreduced"] else 0)))
        auxB = runner.map("run_B", chunksB)
        impl_classes = {}
        clean_cfgs = set()
        for a in auxB:
            impl_classes.setdefault((a["W"], a["F"], a["D"]), set()).update(a["classes"])
            if a["clean"]:
                clean_cfgs.add((a["W"], a["F"], a["D"]))
        # (C) TLC, in the parent; replays distributed
        notes = []
        for W, F, D in b["C_models"]:
            g = tlc.run_tlc(W, F, D, workers=4)
            paths = tlc.paths_to_terminals(g)
            ctx.count("C_model_states", g["states"])
            ctx.count("C_model_transitions", g["transitions"])
            ctx.count("C_model_terminal_classes", len(paths))
            model_classes = set(tlc.class_of_labels(p, F) for p in paths)
            spec = ("newick", "", F, True)
            step = max(1, len(paths) // 48)
            chunksC = [{"part": "C", "W": W, "F": F, "D": D, "spec": list(spec), "paths": paths[i:i + step]} for i in range(0, len(paths), step)]
            mism = []
            for m in runner.map("run_C", chunksC):
                mism.extend(m)
            # direction (ii): every class the implementation exhibits is a class of the model
            # (the model with bound D contains the classes with fewer deviations as well)
            impl = set()
            for d in range(0, D + 1):
                impl |= impl_classes.get((W, F, d), set())
            extra = impl - model_classes
            missing = model_classes - impl if (W, F, D) in clean_cfgs else set()
            ctx.count("C_impl_classes_checked_against_model", len(impl))
            if mism or extra or missing:
                msg = "model/implementation mismatch for W=%d F=%d D=%d: %d replay mismatches %s; %d implementation classes unknown to the model %s; %d model classes never seen in the model-free exploration %s" % (
                    W, F, D, len(mism), mism[:1], len(extra), sorted(extra)[:1], len(missing), sorted(missing)[:1])
                print("HARNESS-WARNING " + msg)
                notes.append(msg)
                ctx.count("C_model_conformance_failures")
            else:
                ctx.count("C_model_conformance_ok")
        ctx.sample({"tla_model": "mc/tla/SumTreesPar.tla", "configs_WFD": b["C_models"]}, 1)
        runner.notes.extend(notes)
        ctx.counters["states"] = ctx.counters.get("states", 0) + ctx.counters.get("C_model_states", 0)
        ctx.counters["transitions"] = ctx.counters.get("transitions", 0) + ctx.counters.get("C_model_transitions", 0)
    finally:
        if _DIR[0]:
            shutil.rmtree(_DIR[0], ignore_errors=True)
            _DIR[0] = None


def run_A_entry(chunk, ctx):
    return run_A(chunk, ctx)


def replay(case, ctx):
    k = case.get("kind")
    ctx.case(("replay", k))
    try:
        if k == "merge":
            merge_case(case, ctx)
        elif k == "fill-and-read":
            interleave_case(case, ctx)
        elif k == "schedule":
            spec = tuple(case["spec"])
            cfg = make_cfg(spec)
            sch = [tuple(x) for x in case["schedule"]]
            D = sum(1 for t in sch if t[1] == X.SPURIOUS)
            ex, rec = X.run_one(cfg, case["W"], sch, (), D, case.get("unreduced", False))
            judge(ex, cfg, case["W"], case, ctx, D)
        elif k == "model-path":
            spec = tuple(case["spec"])
            cfg = make_cfg(spec)
            D = sum(1 for lab in case["labels"] if lab.startswith("Spurious"))
            ex = H.run_model_schedule(cfg, case["W"], case["labels"], tlc.parse_label)
            judge(ex, cfg, case["W"], case, ctx, D)
        else:
            raise ValueError(k)
    finally:
        if _DIR[0]:
            shutil.rmtree(_DIR[0], ignore_errors=True)
            _DIR[0] = None
