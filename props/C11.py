"""C11 - collections keep every member inside their own taxon namespace (DESIGN 3/C11).

Engine E2: explicit-state BFS over container-operation histories on the real
TreeList / DataSet / CharacterMatrix / TreeArray methods.  Four independent state
graphs ("layers") are explored:

  TL  a TreeList (plus the trees that were removed from it)
  DS  a DataSet with its tree lists / character matrices (attached and detached)
  CM  a DnaCharacterMatrix
  TA  a TreeArray
  TP  a TreeList facing a persistent pool of three trees over ONE shared foreign namespace S
      (restricted alphabet: every import API x strategy, every way of changing the list's own
      namespace, then imports of the trees that still live in S)
  MM  TreeLists, a Tree and a matrix over ONE shared source namespace, migrated one after the other
      into one target namespace with taxon_mapping_memo not passed / None / one shared empty dict /
      one shared pre-seeded dict x unify_taxa_by_label x case rules, through every API that takes it
  DP  a DataSet holding a TreeList, same pool plus two matrices over S (imports into the component
      list, add of the pool matrices, unify / attach / member-level migration)

A state is represented by the shortest operation history that reaches it (replayed on
fresh objects; see mc/hist.py); states are merged on a canonical snapshot of everything
a later operation can observe with respect to the property: the namespaces (case rule,
member labels in order), which namespace object every member refers to, and for every
node / sequence which namespace member (by position) it refers to.

All foreign operands (trees, tree lists, matrices, namespaces, documents) are created
fresh by the operation itself from a finite menu of specifications with label sets that
overlap, are disjoint, differ only in case, or repeat a label.

The oracle is relational and written in plain Python: it records, before the call, the
identity and label of the taxon on every node / sequence involved, and compares after the
call (closure by identity scan of TaxonNamespace._taxa; "equal labels <=> one taxon" under
the target namespace's case rule for label-unifying migrations; "same object <=> same
object" for non-unifying ones; identity for the 'add' strategy).
"""
import copy
import hashlib
import itertools

import dendropy
from dendropy import Taxon, TaxonNamespace, Tree, TreeList, TreeArray, DataSet, DnaCharacterMatrix
from dendropy.datamodel.treemodel import Node
from dendropy.utility import error as dperror

from mc import hist
from mc.budget import run_limited, budgeted

ID = "C11"
LEVEL = "model_checking"
EXHAUSTIVE = True
RULE = ("explicit-state BFS in four state graphs (TreeList; DataSet attached/detached; DnaCharacterMatrix; TreeArray): "
        "from every start state every operation of the layer's alphabet (append / insert / item and slice assignment / "
        "extend / += / + with lists and with TreeLists, read, new_tree, pop / remove / del, re-insertion of removed "
        "trees, migrate / reconstruct / update of the namespace, namespace re-assignment followed by repair, "
        "constructors with a namespace, DataSet read / add / new_tree_list / new_char_matrix / attach / detach / "
        "unify_taxon_namespaces, matrix new_sequence / item assignment / from_dict / the five merge methods / clone, "
        "TreeArray add / read / extend / update / +) with every operand of a finite menu (foreign namespaces whose label "
        "sets overlap, are disjoint, differ in case only, or repeat a label; both case rules; both taxon import "
        "strategies and unify_taxa_by_label on/off) is applied to a fresh replay of the state, to the depth bound, with "
        "visited-state hashing; a case = one transition; non-trivial = the operation involves a foreign namespace or a "
        "namespace change, or the container is not empty; two further graphs (TP, DP) use a persistent pool of trees / "
        "matrices that share ONE foreign namespace S, so that import - namespace change - import of another tree still "
        "living in S is explored for every import API; a matrix container gets sequences keyed by the same Taxon objects "
        "of a persistent foreign namespace before and after its own migration")
ASSUMPTIONS = [
    "a state is (case rule and member labels of every namespace in play, for every member which namespace object it is "
    "bound to, for every node / sequence the position of its taxon in that namespace); tree shape, sequence contents "
    "and labels of containers are not observed by the operations of the alphabet",
    "label equality follows the target namespace's is_case_sensitive flag (documented in migrate_taxon_namespace); "
    "case-insensitive equality is str.lower() equality",
    "operands are fresh objects or trees previously removed from the container: a Tree that is a member of another live "
    "collection over a different namespace is never handed to an inserting operation (documented: the tree's namespace "
    "reference is re-set by the receiving list)",
    "when several existing members match a label the library may pick any of them (existential oracle)",
    "documented refusals are modelled: TypeError for a foreign taxon_namespace in TreeList.read / new_tree and in "
    "attached DataSet.new_tree_list / new_char_matrix, ValueError for attached DataSet.read(taxon_namespace=other), "
    "ValueError / KeyError of CharacterMatrix.new_sequence / item access, TaxonNamespaceIdentityError of the matrix merge "
    "methods and TreeArray.add_tree, TaxonNamespaceReconstructionError when two sequences of one matrix would land on "
    "one taxon; any refusal of a foreign-namespace TreeArray operand is accepted",
    "for TreeArray the 'members' are the stored split bitmasks: every set bit must belong to a member of the array's "
    "namespace and restore_tree(i) must carry the clades (as label sets) of the tree that was added",
]
MANIFEST = {
    "engine": "E2-HIST",
    "text": ("Explicit-state model checking on the implementation: every history of container operations up to the tier "
             "depth, from every start state, with every operand of a finite menu of foreign trees / lists / matrices / "
             "documents / namespaces, is executed on the real TreeList, DataSet, CharacterMatrix and TreeArray methods "
             "with visited-state hashing.  After every transition the closure invariant (member bound to the container's "
             "namespace object, every referenced taxon a member of it, by identity), the label/taxon correspondence of "
             "the import strategy used, conservation of namespace members, integrity of operands and of removed trees "
             "are checked against records taken before the call."),
    "note": ("trusted: the harness's builders (Node API, direct TaxonNamespace.add_taxon), identity scans of "
             "TaxonNamespace._taxa, Tree._seed_node/_child_nodes walks, str.lower; state merging key as stated in the "
             "assumptions; bounded depth and container size"),
    "technique": "explicit-state BFS over operation histories on the real code, relational pre/post oracle per transition",
}


def bounds(tier):
    if tier == "quick":
        return {"depth": {"TL": 3, "DS": 3, "CM": 3, "TA": 3, "TP": 3, "DP": 3, "MM": 3}, "max_trees": 3, "max_components": 3,
                "tree_specs": ["ab", "Ac", "cdz", "aA", "aa", "bce"], "chunk": 6}
    return {"depth": {"TL": 4, "DS": 4, "CM": 4, "TA": 4, "TP": 4, "DP": 4, "MM": 4}, "max_trees": 3, "max_components": 3,
            "tree_specs": ["ab", "Ac", "cdz", "aA", "aa", "bce"], "chunk": 6}


# ---------------------------------------------------------------------------
# menus of foreign operands

# name: (is_case_sensitive, namespace labels, leaf picks, root pick)
TREE_SPECS = {
    "ab": (False, ("a", "b"), (0, 1), None),          # overlaps the usual container labels
    "Ac": (False, ("A", "c"), (0, 1), None),          # case variant + new label
    "cdz": (False, ("c", "d", "z"), (0, 1), None),    # disjoint, with a member no node uses
    "aA": (True, ("a", "A"), (0, 1), None),           # both case variants as distinct taxa
    "aa": (False, ("a", "a"), (0, 1), None),          # one label on two distinct taxa
    "bce": (False, ("b", "c", "e"), (0, 1), 2),       # the root node carries a taxon too
    "e_b": (False, ("", "b"), (0, 1), None),          # a taxon labelled with the empty string (pool layers only)
}
# name: (is_case_sensitive, namespace labels, ((leaf picks, root pick), ...))
TL_SPECS = {
    "L_ab": (False, ("a", "b"), (((0, 1), None),)),
    "L_Ac_cd": (False, ("A", "c", "d"), (((0, 1), None), ((1, 2), None))),
    "L_aA": (True, ("a", "A"), (((0, 1), None),)),
    "L_empty": (False, ("q",), ()),
}
TL_SPECS_EMPTY_LABEL = {"L_e_a": (False, ("", "a"), (((0, 1), None),))}      # pool layers only
TL_SPECS_ALL = dict(TL_SPECS, **TL_SPECS_EMPTY_LABEL)
# name: (is_case_sensitive, namespace labels, picks that carry a sequence)
M_SPECS = {
    "M_ab": (False, ("a", "b"), (0, 1)),
    "M_aA": (True, ("a", "A"), (0, 1)),
    "M_Bcy": (False, ("B", "c", "y"), (0, 1)),
}
# target namespaces of migrations: name -> (is_case_sensitive, labels)
NS_TARGETS = {"ci": (False, ()), "cs": (True, ()), "pre": (False, ("A", "b")), "pre_e": (False, ("", "B")), "pre_e_cs": (True, ("", "B"))}

NEWICK_DOCS = {
    "nw_ab": ("newick", "(a,b);", [["a", "b"]]),
    "nw_Ac_cd": ("newick", "(A,c);(c,d);", [["A", "c"], ["c", "d"]]),
    "nx_ab": ("nexus", "#NEXUS\nBEGIN TAXA;\n DIMENSIONS NTAX=3;\n TAXLABELS a B e;\nEND;\nBEGIN TREES;\n TREE t1 = (a,B);\nEND;\n",
              [["a", "B"]]),
    "nw_e": ("newick", "('',b);", [["", "b"]]),
    "nx_e_taxa": ("nexus", "#NEXUS\nBEGIN TAXA;\n DIMENSIONS NTAX=2;\n TAXLABELS '' b;\nEND;\nBEGIN TREES;\n TREE t1 = ('',b);\nEND;\n", [["", "b"]]),
    "nx_notaxa": ("nexus", "#NEXUS\nBEGIN TREES;\n TREE t1 = (a,B);\n TREE t2 = (B,e);\nEND;\n", [["a", "B"], ["B", "e"]]),
}
# DataSet documents: name -> (schema, text, [tree leaf label lists], [matrix row label lists])
DS_DOCS = {
    "d_trees_ab": ("nexus", "#NEXUS\nBEGIN TAXA;\n DIMENSIONS NTAX=2;\n TAXLABELS a b;\nEND;\nBEGIN TREES;\n TREE t1 = (a,b);\nEND;\n",
                   [[["a", "b"]]], []),
    "d_chars_Ac": ("nexus", "#NEXUS\nBEGIN TAXA;\n DIMENSIONS NTAX=2;\n TAXLABELS A c;\nEND;\nBEGIN CHARACTERS;\n DIMENSIONS NCHAR=2;\n"
                   " FORMAT DATATYPE=DNA;\n MATRIX\n A AC\n c GT\n ;\nEND;\nBEGIN TREES;\n TREE t1 = (A,c);\nEND;\n",
                   [[["A", "c"]]], [["A", "c"]]),
    "d_newick_cd": ("newick", "(c,d);", [[["c", "d"]]], []),
}


def tup(x):
    if isinstance(x, (list, tuple)):
        return tuple(tup(y) for y in x)
    return x


# ---------------------------------------------------------------------------
# builders (Node API / add_taxon only)

def build_ns(cs, labels):
    ns = TaxonNamespace(is_case_sensitive=bool(cs))
    for l in labels:
        ns.add_taxon(Taxon(label=l))
    return ns


def build_tree(ns, picks, root=None):
    t = Tree(taxon_namespace=ns)
    if root is not None:
        t.seed_node.taxon = ns._taxa[root]
    for p in picks:
        t.seed_node.add_child(Node(taxon=ns._taxa[p]))
    return t


def tree_from_spec(name):
    cs, labels, picks, root = TREE_SPECS[name]
    return build_tree(build_ns(cs, labels), picks, root)


POOL_NS = (False, ("a", "b", "c", ""))
# all over ONE shared foreign namespace S; P3 / P4 share the Taxon('') object
POOL_TREES = {"P0": ((0, 1), None), "P1": ((0, 2), None), "P2": ((1, 2), None), "P3": ((3, 0), None), "P4": ((3, 1), None)}
POOL_MATRICES = {"Q0": (0, 1), "Q1": (0, 2), "Q2": (3, 1)}                          # over the same S


def get_tree(w, spec):
    """a fresh tree of the menu, or a tree of the world's persistent pool over the shared foreign namespace S"""
    pool = getattr(w, "pool", None)
    if pool is not None and spec in pool:
        return pool.pop(spec)
    return tree_from_spec(spec)


def make_pool(w, matrices=False):
    w.S = build_ns(*POOL_NS)
    w.pool = dict((name, build_tree(w.S, picks, root)) for name, (picks, root) in POOL_TREES.items())
    w.mpool = {}
    if matrices:
        for i, (name, picks) in enumerate(sorted(POOL_MATRICES.items())):
            m = DnaCharacterMatrix(taxon_namespace=w.S)
            for j, pk in enumerate(picks):
                m._taxon_sequence_map[w.S._taxa[pk]] = m.character_sequence_type(["TA", "TC", "TG", "TT", "GA", "GC"][2 * i + j])
            w.mpool[name] = m


def pool_key(w, cns):
    cidx = {id(x): i for i, x in enumerate(cns._taxa)} if cns is not None else {}
    S = w.S
    sidx = {id(x): i for i, x in enumerate(S._taxa)}
    return (tuple(x._label for x in S._taxa), S is cns,
            tuple((name, _tsig(t, cns, cidx)) for name, t in sorted(w.pool.items())),
            tuple((name, m._taxon_namespace is S, tuple(sidx.get(id(tx), ("x", tx._label)) for tx in m._taxon_sequence_map))
                  for name, m in sorted(w.mpool.items())))


def treelist_from_spec(name):
    cs, labels, trees = TL_SPECS_ALL[name]
    ns = build_ns(cs, labels)
    tl = TreeList(taxon_namespace=ns)
    for picks, root in trees:
        tl._trees.append(build_tree(ns, picks, root))
    return tl


def matrix_from_spec(name, ns=None):
    cs, labels, picks = M_SPECS[name]
    if ns is None:
        ns = build_ns(cs, labels)
    m = DnaCharacterMatrix(taxon_namespace=ns)
    for p in picks:
        m._taxon_sequence_map[ns._taxa[p]] = m.character_sequence_type("AC")
    return m


def target_ns(name):
    cs, labels = NS_TARGETS[name]
    return build_ns(cs, labels)


# ---------------------------------------------------------------------------
# observation through primitive fields

def nodes_of(tree):
    out = []
    stack = [tree._seed_node]
    seen = set()
    while stack:
        nd = stack.pop()
        if nd is None or id(nd) in seen:
            continue
        seen.add(id(nd))
        out.append(nd)
        stack.extend(reversed(nd._child_nodes))
    return out


def taxa_of(tree):
    """taxon (or None) of every node in pre-order"""
    return [nd.taxon for nd in nodes_of(tree)]


def rec_of(taxa):
    """pre-call record: [(object, label)] (None kept)"""
    return [None if t is None else (t, t._label) for t in taxa]


def members(ns):
    return [(t, t._label) for t in ns._taxa]


def leq(a, b, cs):
    if cs:
        return a == b
    return str(a).lower() == str(b).lower()


def is_member(ns, taxon):
    for x in ns._taxa:
        if x is taxon:
            return True
    return False


class Rec(object):
    """collects the problems of one transition"""

    def __init__(self):
        self.items = []      # (signature, message, fatal)

    def add(self, sig, msg, fatal=True):
        self.items.append((sig, msg, fatal))

    @property
    def fatal(self):
        return any(f for _s, _m, f in self.items)


def closure_tree(tree, ns, site, what, R):
    """tree bound to ns (identity) and every node taxon a member of ns (identity)"""
    ok = True
    if tree._taxon_namespace is not ns:
        R.add("%s|%s-bound-to-other-namespace" % (site, what),
              "a %s refers to a TaxonNamespace object other than its container's (labels %s vs container %s)" % (
                  what, [t._label for t in tree._taxon_namespace._taxa] if tree._taxon_namespace is not None else None,
                  [t._label for t in ns._taxa]))
        ok = False
    for tx in taxa_of(tree):
        if tx is not None and not is_member(ns, tx):
            R.add("%s|%s-taxon-not-in-namespace" % (site, what),
                  "a node of a %s refers to taxon %r which is not a member of the container's namespace %s" % (
                      what, tx._label, [t._label for t in ns._taxa]))
            ok = False
            break
    return ok


def closure_treelist(tl, site, R, what="member-tree"):
    ok = True
    for t in tl._trees:
        ok = closure_tree(t, tl._taxon_namespace, site, what, R) and ok
    return ok


def closure_matrix(m, site, R, what="matrix"):
    ns = m._taxon_namespace
    for tx in m._taxon_sequence_map:
        if not is_member(ns, tx):
            R.add("%s|%s-sequence-taxon-not-in-namespace" % (site, what),
                  "a sequence of a %s is keyed by taxon %r which is not a member of the matrix's namespace %s" % (
                      what, tx._label, [t._label for t in ns._taxa]))
            return False
    return True


def own_consistent(tree, site, R):
    """removed trees: the tree's own namespace contains all its taxa"""
    ns = tree._taxon_namespace
    if ns is None:
        R.add("%s|removed-tree-without-namespace" % site, "a removed tree has no namespace")
        return False
    for tx in taxa_of(tree):
        if tx is not None and not is_member(ns, tx):
            R.add("%s|removed-tree-inconsistent" % site,
                  "a tree that was removed from the collection refers to taxon %r which is not in its own namespace %s" % (
                      tx._label, [t._label for t in ns._taxa]))
            return False
    return True


def _ls(*labels):
    """signature suffix naming the special label class of the witness"""
    return "|label:empty-string" if any(l == "" for l in labels) else ""


def relate(pre, post, mode, cs, pre_member_ids, pre_member_labels, site, R):
    """pre: [(obj,label)|None] before the call; post: [Taxon|None] after it (aligned).
    mode: 'unify' | 'nounify' | 'same' (identity)"""
    if len(pre) != len(post) or any((a is None) != (b is None) for a, b in zip(pre, post)):
        R.add("%s|taxon-assignment-lost" % site, "nodes/sequences carrying a taxon before: %s, after: %s" % (
            [None if a is None else a[1] for a in pre], [None if b is None else b._label for b in post]))
        return
    pairs = [(a, b) for a, b in zip(pre, post) if a is not None]
    if mode == "same":
        for (ao, al), b in pairs:
            if b is not ao:
                R.add("%s|taxon-object-replaced" % site, "the taxon %r of an item that needed no mapping was replaced by another object (%r)" % (al, b._label))
                return
        return
    if mode == "unify":
        for (ao, al), b in pairs:
            if not leq(b._label, al, cs):
                R.add("%s|label-changed%s" % (site, _ls(al)), "item with label %r now refers to a taxon labelled %r" % (al, b._label))
                return
        for i in range(len(pairs)):
            for j in range(i + 1, len(pairs)):
                same = leq(pairs[i][0][1], pairs[j][0][1], cs)
                if same and pairs[i][1] is not pairs[j][1]:
                    R.add("%s|equal-labels-on-different-taxa%s" % (site, _ls(pairs[i][0][1])),
                          "items labelled %r and %r ended up on two different taxa of a namespace with is_case_sensitive=%s" % (
                              pairs[i][0][1], pairs[j][0][1], cs))
                    return
                if not same and pairs[i][1] is pairs[j][1]:
                    R.add("%s|different-labels-merged" % site,
                          "items labelled %r and %r ended up on one taxon (%r) of a namespace with is_case_sensitive=%s" % (
                              pairs[i][0][1], pairs[j][0][1], pairs[i][1]._label, cs))
                    return
        for (ao, al), b in pairs:
            if id(b) not in pre_member_ids and any(leq(al, l, cs) for l in pre_member_labels):
                R.add("%s|duplicate-taxon-created%s" % (site, _ls(al)),
                      "label %r matches an existing member of the namespace, yet the item was put on a newly created taxon" % (al,))
                return
        return
    # nounify
    for (ao, al), b in pairs:
        if b._label != al:
            R.add("%s|label-changed" % site, "item with label %r now refers to a taxon labelled %r" % (al, b._label))
            return
    for i in range(len(pairs)):
        for j in range(i + 1, len(pairs)):
            same = pairs[i][0][0] is pairs[j][0][0]
            if same and pairs[i][1] is not pairs[j][1]:
                R.add("%s|one-taxon-split" % site, "two items on one taxon (%r) ended up on two taxa" % (pairs[i][0][1],))
                return
            if not same and pairs[i][1] is pairs[j][1]:
                R.add("%s|distinct-taxa-merged" % site,
                      "two items on distinct taxa (%r, %r) ended up on one taxon although unify_taxa_by_label=False" % (
                          pairs[i][0][1], pairs[j][0][1]))
                return
    for (ao, al), b in pairs:
        if id(ao) in pre_member_ids:
            if b is not ao:
                R.add("%s|taxon-object-replaced" % site, "a taxon that already was a member (%r) was replaced" % (al,))
                return
        elif id(b) in pre_member_ids:
            R.add("%s|mapped-onto-existing-taxon" % site,
                  "unify_taxa_by_label=False, yet the item labelled %r was put on a taxon that already was a member" % (al,))
            return


def ns_conserved(ns, pre_members, allow_dup, site, R, source_labels=None):
    """no member dropped or listed twice; unless duplicates are documented for the operation, no
    new member repeats (under the namespace's rule) a label that was there or another new one"""
    cs = ns.is_case_sensitive
    cur = list(ns._taxa)
    ids = set(id(t) for t in cur)
    if len(ids) != len(cur):
        R.add("%s|namespace-member-listed-twice" % site, "members: %s" % ([t._label for t in cur],))
    for obj, label in pre_members:
        if id(obj) not in ids:
            R.add("%s|namespace-member-dropped" % site, "taxon %r was a member before the call and is not afterwards" % (label,))
            return
    if allow_dup:
        return
    pre_ids = set(id(o) for o, _l in pre_members)
    new = [t for t in cur if id(t) not in pre_ids]
    for i, t in enumerate(new):
        if any(leq(t._label, l, cs) for _o, l in pre_members) or any(leq(t._label, u._label, cs) for u in new[:i]):
            R.add("%s|duplicate-taxon-created%s" % (site, _ls(t._label)),
                  "new member %r repeats a label of the namespace (is_case_sensitive=%s): before %s, after %s" % (
                      t._label, cs, [l for _o, l in pre_members], [x._label for x in cur]))
            return


# ---------------------------------------------------------------------------
# running a library call

_BUDGET = [None]


class Hang(Exception):
    pass


def call(fn):
    """returns the exception raised by fn() or None; under _BUDGET a hang raises Hang"""
    if _BUDGET[0] is not None:
        st, v, _n = budgeted(fn, _BUDGET[0])
        if st == "hang":
            raise Hang(v)
        return v if st == "exc" else None
    try:
        fn()
    except Exception as e:
        return e
    return None


def unexpected(site, exc, R, expected=()):
    """report exc unless it is an instance of the documented refusal classes"""
    if exc is None:
        if expected:
            R.add("%s|missing-refusal" % site, "the documented refusal (%s) was not raised" % "/".join(c.__name__ for c in expected), fatal=False)
        return False
    if expected and isinstance(exc, expected):
        return False
    R.add("%s|exception:%s" % (site, type(exc).__name__), "raised %s: %s" % (type(exc).__name__, str(exc)[:160]))
    return True


from dendropy.dataio.nexusreader import NexusReader
NEXUS_REFUSALS = (NexusReader.TooManyTaxaError,)

STRAT = {"m": ("migrate", {}, "unify"), "n": ("migrate,unify_taxa_by_label=False", {"unify_taxa_by_label": False}, "nounify"),
         "a": ("add", {"taxon_import_strategy": "add"}, "same")}


# ---------------------------------------------------------------------------
# layer TL: a TreeList and the trees removed from it

class TLWorld(object):
    layer = "TL"

    def __init__(self, start):
        _k, cs, n = start
        ns = build_ns(cs, ("a", "b") if n else ())
        self.tl = TreeList(taxon_namespace=ns)
        for _i in range(n):
            self.tl._trees.append(build_tree(ns, (0, 1)))
        self.removed = []

    def size(self):
        return len(self.tl._trees)


def tl_starts(b):
    return [("tl", 0, 0), ("tl", 1, 0), ("tl", 0, 1), ("tl", 1, 1)]


def _tsig(t, cns, cidx):
    tns = t._taxon_namespace
    if tns is cns:
        nsref = "C"
        own = cidx
    else:
        nsref = ("F", bool(tns.is_case_sensitive), tuple(x._label for x in tns._taxa))
        own = {id(x): i for i, x in enumerate(tns._taxa)}
    refs = []
    for tx in taxa_of(t):
        if tx is None:
            refs.append(None)
        elif id(tx) in own:
            refs.append(own[id(tx)])
        elif id(tx) in cidx:
            refs.append(("c", cidx[id(tx)]))
        else:
            refs.append(("x", tx._label))
    return (nsref, tuple(refs))


def tl_key(w):
    ns = w.tl._taxon_namespace
    cidx = {id(x): i for i, x in enumerate(ns._taxa)}
    return ("TL", bool(ns.is_case_sensitive), tuple(x._label for x in ns._taxa),
            tuple(_tsig(t, ns, cidx) for t in w.tl._trees), tuple(_tsig(t, ns, cidx) for t in w.removed))


def tl_enabled(w, b):
    n = w.size()
    cap = b["max_trees"]
    specs = b["tree_specs"]
    ops = []
    if n + 1 <= cap:
        for s in specs:
            for st in "mna":
                ops.append(("append", s, st))
                ops.append(("insert", s, st))
        for s in specs:
            ops.append(("extend", (s,)))
            ops.append(("iadd", (s,)))
            ops.append(("setslice", 0, 0, (s,)))
            ops.append(("add", (s,)))
    if n + 2 <= cap:
        ops.append(("extend", ("ab", "Ac")))
        ops.append(("iadd", ("aA", "Ac")))
        ops.append(("setslice", n, n, ("Ac", "aa")))
        ops.append(("add", ("Ac", "ab")))
    if n >= 1:
        for s in specs:
            ops.append(("setitem", 0, s))
            ops.append(("setslice", 0, 1, (s,)))
        if n >= 2:
            ops.append(("setitem", -1, "Ac"))
            ops.append(("setslice", 0, 2, ("aA",)))
    for ls, (_cs, _labels, trees) in sorted(TL_SPECS.items()):
        k = len(trees)
        if n + k <= cap:
            ops.append(("extend_tl", ls))
            ops.append(("iadd_tl", ls))
            ops.append(("setslice_tl", 0, 0, ls))
        if 2 * n + k <= cap + n and n + k <= cap:
            ops.append(("add_tl", ls))
        if n >= 1 and n - 1 + k <= cap:
            ops.append(("setslice_tl", 0, 1, ls))
    for d in sorted(NEWICK_DOCS):
        if d in ("nw_e", "nx_e_taxa"):
            continue                      # empty-string labels are explored in the pool layer TP
        if n + len(NEWICK_DOCS[d][2]) <= cap:
            ops.append(("read", d))
        if len(NEWICK_DOCS[d][2]) >= 2 and n + len(NEWICK_DOCS[d][2]) - 1 <= cap:
            ops.append(("read", d, 1))        # collection_offset=0, tree_offset=1: another accession path
    ops.append(("read_foreign_ns",))
    if n + 1 <= cap:
        ops.append(("new_tree",))
    ops.append(("new_tree_foreign_ns",))
    if n >= 1:
        ops.append(("pop", -1))
        ops.append(("remove", 0))
        ops.append(("del", 0))
        ops.append(("delslice", 0, 1))
        ops.append(("clear",))
        if n >= 2:
            ops.append(("pop", 0))
    if w.removed and n + 1 <= cap:
        for st in "mna":
            ops.append(("reappend", len(w.removed) - 1, st))
        if len(w.removed) >= 2:
            ops.append(("reappend", 0, "m"))
    for tgt in ("ci", "cs", "pre", "same", "share"):
        for u in (1, 0):
            ops.append(("migrate", tgt, u))
    for u in (1, 0):
        ops.append(("reconstruct", u))
    ops.append(("update",))
    for tgt in ("ci", "cs", "pre"):
        for u in (1, 0):
            ops.append(("assign_ns_reconstruct", tgt, u))
        ops.append(("assign_ns_update", tgt))
    if n >= 1:
        for lab in ("a", "A", "x"):
            ops.append(("taint_update", n - 1, lab))
            for u in (1, 0):
                ops.append(("taint_reconstruct", n - 1, lab, u))
        ops.append(("slice", 0, 2))
    for how in ("copy", "ci", "cs", "pre"):
        ops.append(("ctor", how))
    return ops


def tl_site(op):
    k = op[0]
    if k in ("append", "insert", "reappend"):
        return "TreeList.%s(%s)" % ("append" if k == "reappend" else k, STRAT[op[-1]][0])
    if k == "setitem":
        return "TreeList.__setitem__(index)"
    if k == "setslice":
        return "TreeList.__setitem__(slice,list)"
    if k == "setslice_tl":
        return "TreeList.__setitem__(slice,TreeList)"
    if k in ("extend", "iadd", "add"):
        return "TreeList.%s(list)" % {"extend": "extend", "iadd": "__iadd__", "add": "__add__"}[k]
    if k in ("extend_tl", "iadd_tl", "add_tl"):
        return "TreeList.%s(TreeList)" % {"extend_tl": "extend", "iadd_tl": "__iadd__", "add_tl": "__add__"}[k]
    if k == "read":
        return "TreeList.read(%s%s)" % (NEWICK_DOCS[op[1]][0], ",tree_offset" if len(op) > 2 else "")
    if k == "read_foreign_ns":
        return "TreeList.read(taxon_namespace=other)"
    if k == "new_tree":
        return "TreeList.new_tree"
    if k == "new_tree_foreign_ns":
        return "TreeList.new_tree(taxon_namespace=other)"
    if k in ("pop", "remove", "del", "delslice", "clear"):
        return "TreeList.%s" % {"pop": "pop", "remove": "remove", "del": "__delitem__", "delslice": "__delitem__(slice)", "clear": "clear"}[k]
    if k == "migrate":
        return "TreeList.migrate_taxon_namespace(unify_taxa_by_label=%s)" % bool(op[2])
    if k == "reconstruct":
        return "TreeList.reconstruct_taxon_namespace(unify_taxa_by_label=%s)" % bool(op[1])
    if k == "update":
        return "TreeList.update_taxon_namespace"
    if k == "assign_ns_reconstruct":
        return "TreeList.taxon_namespace=;reconstruct_taxon_namespace(unify_taxa_by_label=%s)" % bool(op[2])
    if k == "assign_ns_update":
        return "TreeList.taxon_namespace=;update_taxon_namespace"
    if k == "taint_update":
        return "node.taxon=new;TreeList.update_taxon_namespace"
    if k == "taint_reconstruct":
        return "node.taxon=new;TreeList.reconstruct_taxon_namespace(unify_taxa_by_label=%s)" % bool(op[3])
    if k == "slice":
        return "TreeList.__getitem__(slice)"
    if k == "ctor":
        return "TreeList(TreeList)" if op[1] == "copy" else "TreeList(TreeList,taxon_namespace=other)"
    if k == "ctor_list":
        return "TreeList(list,taxon_namespace=)"
    raise ValueError(op)


def _cat(recs):
    out = []
    for r in recs:
        out.extend(r)
    return out


def _removed_ok(w, site, R):
    for t in w.removed:
        own_consistent(t, site, R)
    del w.removed[:-2]


def _existing_unchanged(pre_old, site, R):
    for t, pre in pre_old:
        relate(pre, taxa_of(t), "same", True, (), (), site + "|existing-member", R)


def tl_apply(w, op, R):
    """apply op to the world; record problems in R"""
    op = tup(op)
    k = op[0]
    site = tl_site(op)
    tl = w.tl
    ns = tl._taxon_namespace
    pre_mem = members(ns)
    pre_ids = set(id(o) for o, _l in pre_mem)
    pre_labels = [l for _o, l in pre_mem]
    old = list(tl._trees)
    pre_old = [(t, rec_of(taxa_of(t))) for t in old]

    def after_insert(incoming, expect, modename, allow_dup, replaced=()):
        """incoming: [(tree, pre record, was already bound to ns)]"""
        if tl._taxon_namespace is not ns:
            R.add("%s|container-namespace-replaced" % site, "the list's namespace object changed")
            return
        if [id(t) for t in tl._trees] != [id(t) for t in expect]:
            R.add("%s|wrong-members" % site, "the list holds %d trees, expected %d (or other objects / order)" % (len(tl._trees), len(expect)))
            return
        closure_treelist(tl, site, R)
        mig_pre, mig_post = [], []
        for t, pre, was_in in incoming:
            if was_in:
                relate(pre, taxa_of(t), "same", True, (), (), site, R)
            else:
                mig_pre.extend(pre)
                mig_post.extend(taxa_of(t))
        relate(mig_pre, mig_post, modename, ns.is_case_sensitive, pre_ids, pre_labels, site, R)
        rep = set(id(t) for t in replaced)
        _existing_unchanged([(t, p) for t, p in pre_old if id(t) not in rep], site, R)
        ns_conserved(ns, pre_mem, allow_dup, site, R)
        w.removed.extend(replaced)
        _removed_ok(w, site, R)

    def after_clones(operand, pre_operand, clones, modename="unify"):
        if tl._taxon_namespace is not ns:
            R.add("%s|container-namespace-replaced" % site, "the list's namespace object changed")
            return
        if len(clones) != len(pre_operand):
            R.add("%s|wrong-members" % site, "%d trees arrived, the operand has %d" % (len(clones), len(pre_operand)))
            return
        closure_treelist(tl, site, R)
        relate(_cat(p for _t, p in pre_operand), _cat(taxa_of(c) for c in clones), modename, ns.is_case_sensitive,
               pre_ids, pre_labels, site, R)
        ns_conserved(ns, pre_mem, False, site, R)
        operand_intact(operand, pre_operand)

    def operand_intact(operand, pre_operand):
        if [id(t) for t in operand._trees] != [id(t) for t, _p in pre_operand]:
            R.add("%s|operand-changed" % site, "the operand list's membership changed")
            return
        R2 = Rec()
        closure_treelist(operand, site, R2)
        for t, p in pre_operand:
            relate(p, taxa_of(t), "same", True, (), (), site, R2)
        if R2.items:
            R.add("%s|operand-changed" % site, "the TreeList operand (documented to be copied) was modified: %s" % R2.items[0][1])

    if k in ("append", "insert", "reappend"):
        sname, kw, modename = STRAT[op[-1]]
        t = w.removed.pop(op[1]) if k == "reappend" else get_tree(w, op[1])
        inc = [(t, rec_of(taxa_of(t)), t._taxon_namespace is ns)]
        if k == "insert":
            exc = call(lambda: tl.insert(0, t, **kw))
            expect = [t] + old
        else:
            exc = call(lambda: tl.append(t, **kw))
            expect = old + [t]
        if unexpected(site, exc, R):
            return
        after_insert(inc, expect, modename, allow_dup=(modename != "unify"))
    elif k == "setitem":
        t = get_tree(w, op[2])
        inc = [(t, rec_of(taxa_of(t)), t._taxon_namespace is ns)]
        i = op[1]

        def f():
            tl[i] = t
        if unexpected(site, call(f), R):
            return
        expect = list(old)
        replaced = [expect[i]]
        expect[i] = t
        after_insert(inc, expect, "unify", False, replaced)
    elif k in ("setslice", "extend", "iadd", "add"):
        trees = [get_tree(w, s) for s in op[-1]]
        inc = [(t, rec_of(taxa_of(t)), t._taxon_namespace is ns) for t in trees]
        if k == "setslice":
            lo, hi = op[1], op[2]

            def f():
                tl[lo:hi] = list(trees)
            exc = call(f)
            expect = list(old)
            replaced = expect[lo:hi]
            expect[lo:hi] = trees
        elif k == "extend":
            exc = call(lambda: tl.extend(list(trees)))
            expect, replaced = old + trees, []
        elif k == "iadd":
            def f():
                x = tl
                x += list(trees)
                if x is not tl:
                    raise AssertionError("+= returned another object")
            exc = call(f)
            expect, replaced = old + trees, []
        else:
            res = []
            exc = call(lambda: res.append(tl + list(trees)))
            if unexpected(site, exc, R):
                return
            _tl_new_container(w, site, res[0], pre_old, ns, pre_mem, R, extra=trees, extra_inc=inc)
            return
        if unexpected(site, exc, R):
            return
        after_insert(inc, expect, "unify", False, replaced)
    elif k in ("extend_tl", "iadd_tl", "setslice_tl", "add_tl"):
        operand = treelist_from_spec(op[-1])
        pre_operand = [(t, rec_of(taxa_of(t))) for t in operand._trees]
        kk = len(pre_operand)
        if k == "extend_tl":
            exc = call(lambda: tl.extend(operand))
        elif k == "iadd_tl":
            def f():
                x = tl
                x += operand
            exc = call(f)
        elif k == "setslice_tl":
            lo, hi = op[1], op[2]

            def f():
                tl[lo:hi] = operand
            exc = call(f)
        else:
            res = []
            exc = call(lambda: res.append(tl + operand))
            if unexpected(site, exc, R):
                return
            _tl_new_container(w, site, res[0], pre_old, ns, pre_mem, R, operand=operand, pre_operand=pre_operand)
            if not R.fatal:
                operand_intact(operand, pre_operand)
            return
        if unexpected(site, exc, R):
            return
        if k == "setslice_tl":
            clones = tl._trees[lo:lo + kk]
            rest = tl._trees[:lo] + tl._trees[lo + kk:]
            replaced = old[lo:hi]
            keep = old[:lo] + old[hi:]
        else:
            clones = tl._trees[len(old):]
            rest = tl._trees[:len(old)]
            replaced, keep = [], old
        if [id(t) for t in rest] != [id(t) for t in keep]:
            R.add("%s|wrong-members" % site, "the trees that were in the list before are not all there / not in place")
            return
        after_clones(operand, pre_operand, clones)
        rep = set(id(t) for t in replaced)
        _existing_unchanged([(t, p) for t, p in pre_old if id(t) not in rep], site, R)
        w.removed.extend(replaced)
        _removed_ok(w, site, R)
    elif k == "ctor_list":
        # constructor as an import API: TreeList(iterable of trees, taxon_namespace=ns)
        t = get_tree(w, op[1])
        inc = [(t, rec_of(taxa_of(t)), t._taxon_namespace is ns)]
        res = []
        exc = call(lambda: res.append(TreeList(list(old) + [t], taxon_namespace=ns)))
        if unexpected(site, exc, R):
            return
        r = res[0]
        if r._taxon_namespace is not ns:
            R.add("%s|container-not-bound-to-target" % site, "the new list is not bound to the namespace object passed")
            return
        w.tl = tl = r
        after_insert(inc, old + [t], "unify", False)
    elif k == "read":
        schema, text, doc_trees = NEWICK_DOCS[op[1]]
        rkw = {"case_sensitive_taxon_labels": bool(ns.is_case_sensitive)}
        if len(op) > 2:
            rkw.update(collection_offset=0, tree_offset=op[2])
            doc_trees = doc_trees[op[2]:]
        exc = call(lambda: tl.read(data=text, schema=schema, **rkw))
        if unexpected(site, exc, R, NEXUS_REFUSALS if "TAXA" in text else ()):
            return
        if exc is not None:
            # documented reader refusal (TAXA block larger than NTAX allows in a populated namespace)
            R.items[:] = [it for it in R.items if "missing-refusal" not in it[0]]
            if [id(t) for t in tl._trees] != [id(t) for t in old]:
                R.add("%s|wrong-members" % site, "membership changed although the read was refused")
                return
            closure_treelist(tl, site, R)
            _existing_unchanged(pre_old, site, R)
            ns_conserved(ns, pre_mem, False, site, R)
            return
        R.items[:] = [it for it in R.items if "missing-refusal" not in it[0]]
        new = tl._trees[len(old):]
        if tl._taxon_namespace is not ns or [id(t) for t in tl._trees[:len(old)]] != [id(t) for t in old] or len(new) != len(doc_trees):
            R.add("%s|wrong-members" % site, "after reading %d trees the list has %d (had %d)" % (len(doc_trees), len(tl._trees), len(old)))
            return
        closure_treelist(tl, site, R)
        _read_labels(new, doc_trees, ns, site, R)
        _existing_unchanged(pre_old, site, R)
        ns_conserved(ns, pre_mem, False, site, R)
    elif k == "read_foreign_ns":
        exc = call(lambda: tl.read(data="(a,b);", schema="newick", taxon_namespace=TaxonNamespace()))
        unexpected(site, exc, R, (TypeError,))
        _tl_unchanged(w, old, pre_old, ns, pre_mem, site, R)
    elif k == "new_tree":
        res = []
        exc = call(lambda: res.append(tl.new_tree()))
        if unexpected(site, exc, R):
            return
        after_insert([], old + res, "same", False)
    elif k == "new_tree_foreign_ns":
        exc = call(lambda: tl.new_tree(taxon_namespace=TaxonNamespace()))
        unexpected(site, exc, R, (TypeError,))
        _tl_unchanged(w, old, pre_old, ns, pre_mem, site, R)
    elif k in ("pop", "remove", "del", "delslice", "clear"):
        if k == "pop":
            res = []
            exc = call(lambda: res.append(tl.pop(op[1])))
            gone = [old[op[1]]]
            if exc is None and res[0] is not gone[0]:
                R.add("%s|wrong-members" % site, "pop returned another tree")
        elif k == "remove":
            gone = [old[op[1]]]
            exc = call(lambda: tl.remove(gone[0]))
        elif k == "del":
            gone = [old[op[1]]]

            def f():
                del tl[op[1]]
            exc = call(f)
        elif k == "delslice":
            gone = old[op[1]:op[2]]

            def f():
                del tl[op[1]:op[2]]
            exc = call(f)
        else:
            gone = list(old)
            exc = call(lambda: tl.clear())
        if unexpected(site, exc, R):
            return
        gid = set(id(t) for t in gone)
        if [id(t) for t in tl._trees] != [id(t) for t in old if id(t) not in gid]:
            R.add("%s|wrong-members" % site, "membership after removal is not the old one minus the removed trees")
            return
        closure_treelist(tl, site, R)
        _existing_unchanged(pre_old, site, R)
        ns_conserved(ns, pre_mem, False, site, R)
        w.removed.extend(gone)
        _removed_ok(w, site, R)
    elif k in ("migrate", "reconstruct", "update", "assign_ns_reconstruct", "assign_ns_update", "taint_update", "taint_reconstruct"):
        if k.startswith("taint"):
            leaf = nodes_of(old[op[1]])[-1]
            leaf.taxon = Taxon(label=op[2])
            pre_old = [(t, rec_of(taxa_of(t))) for t in old]
        if k in ("migrate", "assign_ns_reconstruct", "assign_ns_update"):
            tgt = op[1]
            if tgt == "S":
                T = w.S
            elif tgt == "same":
                T = ns
            elif tgt == "share":
                T = TaxonNamespace(is_case_sensitive=ns.is_case_sensitive)
                for o, _l in pre_mem:
                    T.add_taxon(o)
            else:
                T = target_ns(tgt)
        else:
            T = ns
        t_mem = members(T)
        t_ids = set(id(o) for o, _l in t_mem)
        t_labels = [l for _o, l in t_mem]
        if k == "migrate":
            unify = bool(op[2])
            exc = call(lambda: tl.migrate_taxon_namespace(T, unify_taxa_by_label=unify))
        elif k == "reconstruct":
            unify = bool(op[1])
            exc = call(lambda: tl.reconstruct_taxon_namespace(unify_taxa_by_label=unify))
        elif k == "taint_reconstruct":
            unify = bool(op[3])
            exc = call(lambda: tl.reconstruct_taxon_namespace(unify_taxa_by_label=unify))
        elif k == "assign_ns_reconstruct":
            unify = bool(op[2])

            def f():
                tl.taxon_namespace = T
                tl.reconstruct_taxon_namespace(unify_taxa_by_label=unify)
            exc = call(f)
        elif k == "assign_ns_update":
            unify = None

            def f():
                tl.taxon_namespace = T
                tl.update_taxon_namespace()
            exc = call(f)
        else:
            unify = None
            exc = call(lambda: tl.update_taxon_namespace())
        if unexpected(site, exc, R):
            return
        if tl._taxon_namespace is not T:
            R.add("%s|container-not-bound-to-target" % site, "the list is not bound to the requested namespace object")
            return
        if [id(t) for t in tl._trees] != [id(t) for t in old]:
            R.add("%s|wrong-members" % site, "membership changed")
            return
        closure_treelist(tl, site, R)
        modename = "same" if unify is None else ("unify" if unify else "nounify")
        relate(_cat(p for _t, p in pre_old), _cat(taxa_of(t) for t in old), modename, T.is_case_sensitive, t_ids, t_labels, site, R)
        ns_conserved(T, t_mem, modename != "unify", site, R)
        if T is not ns:
            ns_conserved(ns, pre_mem, True, site + "|old-namespace", R)
        _removed_ok(w, site, R)
    elif k == "slice":
        res = []
        exc = call(lambda: res.append(tl[op[1]:op[2]]))
        if unexpected(site, exc, R):
            return
        r = res[0]
        if r._taxon_namespace is not ns or [id(t) for t in r._trees] != [id(t) for t in old[op[1]:op[2]]]:
            R.add("%s|wrong-result" % site, "the slice is not a list of the same trees over the same namespace")
        closure_treelist(r, site, R)
        _tl_unchanged(w, old, pre_old, ns, pre_mem, site, R)
    elif k == "ctor":
        res = []
        if op[1] == "copy":
            T = ns
            exc = call(lambda: res.append(TreeList(tl)))
        else:
            T = target_ns(op[1])
            exc = call(lambda: res.append(TreeList(tl, taxon_namespace=T)))
        t_mem = members(T)
        if unexpected(site, exc, R):
            return
        r = res[0]
        if r._taxon_namespace is not T:
            R.add("%s|container-not-bound-to-target" % site, "the new list is not bound to the requested namespace object")
            return
        if len(r._trees) != len(old) or any(a is b for a in r._trees for b in old):
            R.add("%s|wrong-members" % site, "the new list does not hold one clone per source tree")
            return
        closure_treelist(r, site, R)
        if T is ns:
            relate(_cat(p for _t, p in pre_old), _cat(taxa_of(t) for t in r._trees), "same", True, (), (), site, R)
        else:
            relate(_cat(p for _t, p in pre_old), _cat(taxa_of(t) for t in r._trees), "unify", T.is_case_sensitive,
                   set(id(o) for o, _l in t_mem), [l for _o, l in t_mem], site, R)
            ns_conserved(T, t_mem, False, site, R)
        _tl_unchanged(w, old, pre_old, ns, pre_mem, site + "|source", R)
        w.tl = r
    else:
        raise ValueError("unknown TL op %r" % (op,))


def _tl_unchanged(w, old, pre_old, ns, pre_mem, site, R):
    tl = w.tl
    if tl._taxon_namespace is not ns or [id(t) for t in tl._trees] != [id(t) for t in old]:
        R.add("%s|wrong-members" % site, "the list changed although the call does not modify it")
        return
    closure_treelist(tl, site, R)
    _existing_unchanged(pre_old, site, R)
    ns_conserved(ns, pre_mem, False, site, R)


def _tl_new_container(w, site, r, pre_old, ns, pre_mem, R, extra=(), extra_inc=(), operand=None, pre_operand=()):
    """result of tl + other: clones of the own trees, then the operand's trees"""
    tl = w.tl
    old = [t for t, _p in pre_old]
    n = len(old)
    pre_ids = set(id(o) for o, _l in pre_mem)
    pre_labels = [l for _o, l in pre_mem]
    if not isinstance(r, TreeList) or r is tl:
        R.add("%s|wrong-result" % site, "+ did not return a new TreeList")
        return
    if r._taxon_namespace is not ns:
        R.add("%s|container-not-bound-to-target" % site, "the sum is not bound to the left operand's namespace object")
        return
    k2 = len(extra) if operand is None else len(pre_operand)
    if len(r._trees) != n + k2 or any(a is b for a in r._trees[:n] for b in old):
        R.add("%s|wrong-members" % site, "the sum holds %d trees (expected %d clones of the own trees + %d)" % (len(r._trees), n, k2))
        return
    closure_treelist(r, site, R)
    relate(_cat(p for _t, p in pre_old), _cat(taxa_of(t) for t in r._trees[:n]), "same", True, (), (), site, R)
    tail = r._trees[n:]
    if operand is None:
        if [id(t) for t in tail] != [id(t) for t in extra]:
            R.add("%s|wrong-members" % site, "the trees of the list operand are not the tail of the sum")
            return
        relate(_cat(p for _t, p, _w in extra_inc), _cat(taxa_of(t) for t in tail), "unify", ns.is_case_sensitive, pre_ids, pre_labels, site, R)
    else:
        relate(_cat(p for _t, p in pre_operand), _cat(taxa_of(t) for t in tail), "unify", ns.is_case_sensitive, pre_ids, pre_labels, site, R)
    ns_conserved(ns, pre_mem, False, site, R)
    # the left operand itself
    if tl._taxon_namespace is not ns or [id(t) for t in tl._trees] != [id(t) for t in old]:
        R.add("%s|left-operand-changed" % site, "self changed")
        return
    R2 = Rec()
    closure_treelist(tl, site, R2)
    _existing_unchanged(pre_old, site, R2)
    if R2.items:
        R.add("%s|left-operand-changed" % site, R2.items[0][1])
    w.tl = r
    _removed_ok(w, site, R)


def _norm(l, cs):
    return l if cs else str(l).lower()


def _read_labels(new_trees, doc_trees, ns, site, R):
    """order-free: per tree the multiset of leaf label classes is the document's; over all new
    trees one taxon per label class and one class per taxon"""
    cs = ns.is_case_sensitive
    cls2id = {}
    id2cls = {}
    for t, want in zip(new_trees, doc_trees):
        got = [tx for tx in taxa_of(t) if tx is not None]
        if sorted(_norm(x._label, cs) for x in got) != sorted(_norm(l, cs) for l in want):
            R.add("%s|label-changed" % site, "a tree written with leaves %s was read with taxa %s" % (want, [x._label for x in got]))
            return
        for x in got:
            c = _norm(x._label, cs)
            if cls2id.setdefault(c, id(x)) != id(x):
                R.add("%s|equal-labels-on-different-taxa%s" % (site, _ls(x._label)), "label %r is on two taxa after reading" % (x._label,))
                return
            if id2cls.setdefault(id(x), c) != c:
                R.add("%s|different-labels-merged" % site, "two labels on one taxon after reading")
                return


# ---------------------------------------------------------------------------
# matrices: records keyed by sequence identity / content

SEQ_POOL = ["AC", "AG", "AT", "CA", "CG", "CT", "GA", "GC", "GT", "TA", "TC", "TG", "AA", "CC", "GG", "TT"]


def seq_content(seq):
    return tuple(str(v) for v in seq._character_values)


def mrec(m):
    """[(taxon object, label, id(sequence), content)] in map order"""
    return [(tx, tx._label, id(s), seq_content(s)) for tx, s in m._taxon_sequence_map.items()]


def malign(pre, m):
    """(pre records [(obj,label)], post taxa) aligned by sequence identity, else by unique content; None if impossible"""
    post = mrec(m)
    by_id = {r[2]: r[0] for r in post}
    contents = [r[3] for r in post]
    by_content = {r[3]: r[0] for r in post if contents.count(r[3]) == 1}
    pre_contents = [r[3] for r in pre]
    a, b = [], []
    for tx, label, sid, content in pre:
        if sid in by_id:
            a.append((tx, label))
            b.append(by_id[sid])
        elif content in by_content and pre_contents.count(content) == 1:
            a.append((tx, label))
            b.append(by_content[content])
        else:
            return None
    return a, b


# ---------------------------------------------------------------------------
# layer DS: a DataSet and its components

class DSWorld(object):
    layer = "DS"

    def __init__(self, start):
        _k, mode = start
        self.ds = DataSet()
        if mode == "attached_ci":
            self.ds.attach_taxon_namespace(TaxonNamespace())
        elif mode == "attached_cs":
            self.ds.attach_taxon_namespace(TaxonNamespace(is_case_sensitive=True))
        self.nseq = 0

    def comps(self):
        return list(self.ds.tree_lists), list(self.ds.char_matrices)

    def size(self):
        a, b = self.comps()
        return len(a) + len(b)

    def next_seq(self):
        s = SEQ_POOL[self.nseq % len(SEQ_POOL)]
        self.nseq += 1
        return s


def ds_starts(b):
    return [("ds", "detached"), ("ds", "attached_ci"), ("ds", "attached_cs")]


def ds_key(w):
    ds = w.ds
    tls, cms = w.comps()
    nss = []

    def idx(ns):
        for i, x in enumerate(nss):
            if x is ns:
                return i
        nss.append(ns)
        return len(nss) - 1
    listed = list(ds.taxon_namespaces)
    for ns in listed:
        idx(ns)
    att = None if ds.attached_taxon_namespace is None else idx(ds.attached_taxon_namespace)
    tl_part = []
    for tl in tls:
        ns = tl._taxon_namespace
        cidx = {id(x): i for i, x in enumerate(ns._taxa)}
        tl_part.append((idx(ns), tuple(_tsig(t, ns, cidx) for t in tl._trees)))
    cm_part = []
    for m in cms:
        ns = m._taxon_namespace
        cidx = {id(x): i for i, x in enumerate(ns._taxa)}
        cm_part.append((idx(ns), tuple(cidx.get(id(tx), ("x", tx._label)) for tx in m._taxon_sequence_map)))
    return ("DS", att, tuple((bool(ns.is_case_sensitive), tuple(x._label for x in ns._taxa)) for ns in nss),
            len(listed), tuple(tl_part), tuple(cm_part), w.nseq % len(SEQ_POOL))


def ds_enabled(w, b):
    ds = w.ds
    tls, cms = w.comps()
    n = len(tls) + len(cms)
    cap = b["max_components"]
    attached = ds.attached_taxon_namespace is not None
    ops = []
    for d in sorted(DS_DOCS):
        k = len(DS_DOCS[d][2]) + len(DS_DOCS[d][3])
        if n + k <= cap:
            ops.append(("read", d, None))
            ops.append(("read", d, "fresh"))
            if attached:
                ops.append(("read", d, "attached"))
        if d == "d_chars_Ac" and n + 1 <= cap:
            ops.append(("read", d, "exclude_trees"))
            ops.append(("read", d, "exclude_chars"))
    if n + 1 <= cap:
        for ls in ("L_ab", "L_Ac_cd", "L_aA"):
            ops.append(("add_tl", ls))
        for ms in sorted(M_SPECS):
            ops.append(("add_cm", ms))
        for v in ("empty", "trees", "ns_fresh", "clone"):
            ops.append(("new_tl", v))
        for v in ("empty", "dict", "str_dict", "ns_fresh"):
            ops.append(("new_cm", v))
    ops.append(("add_ns",))
    ops.append(("attach", "fresh_ci"))
    ops.append(("attach", "fresh_cs"))
    if len(ds.taxon_namespaces):
        ops.append(("attach", "first"))
        ops.append(("attach", "last"))
    if attached:
        ops.append(("detach",))
    for v in ("default", "given_cs", "given_ci_noattach", "first", "default_noattach", "case_insensitive"):
        if v == "first" and not len(ds.taxon_namespaces):
            continue
        ops.append(("unify", v))
    if tls:
        for s in ("Ac", "aA"):
            if len(tls[0]._trees) < b["max_trees"]:
                ops.append(("member_append", s))
    if cms:
        ops.append(("member_new_sequence", "c"))
        ops.append(("member_new_sequence", "A"))
    # a component changes its own namespace (the data set's registry is not told)
    if tls:
        ops.append(("member_migrate", "tl", "ci"))
        ops.append(("member_migrate", "tl", "pre"))
        ops.append(("member_assign_reconstruct", "tl", "ci"))
    if cms:
        ops.append(("member_migrate", "cm", "ci"))
        ops.append(("member_migrate", "cm", "pre"))
    return ops


def ds_site(op):
    k = op[0]
    if k == "read":
        if op[2] in ("exclude_trees", "exclude_chars"):
            return "DataSet.read(%s,%s=True)" % (DS_DOCS[op[1]][0], op[2])
        return "DataSet.read(%s%s)" % (DS_DOCS[op[1]][0], "" if op[2] is None else ",taxon_namespace=" + ("attached" if op[2] == "attached" else "other"))
    if k == "add_tl":
        return "DataSet.add(TreeList)"
    if k == "add_cm":
        return "DataSet.add(CharacterMatrix)"
    if k == "add_ns":
        return "DataSet.add(TaxonNamespace)"
    if k == "new_tl":
        return "DataSet.new_tree_list(%s)" % {"empty": "", "trees": "list", "ns_fresh": "taxon_namespace=other", "clone": "TreeList"}[op[1]]
    if k == "new_cm":
        return "DataSet.new_char_matrix(%s)" % {"empty": "", "dict": "class,dict", "str_dict": "str,dict", "ns_fresh": "taxon_namespace=other"}[op[1]]
    if k == "attach":
        return "DataSet.attach_taxon_namespace"
    if k == "detach":
        return "DataSet.detach_taxon_namespace"
    if k == "unify":
        return "DataSet.unify_taxon_namespaces"
    if k == "member_append":
        return "DataSet.tree_lists[0].append"
    if k == "member_new_sequence":
        return "DataSet.char_matrices[0].new_sequence"
    if k == "pool_import":
        api = op[2]
        if api.startswith(("append_", "insert_")):
            return "DataSet.tree_lists[0].%s(%s)" % (api[:-2], STRAT[api[-1]][0])
        return "DataSet.tree_lists[0].%s" % {"extend": "extend(list)", "iadd": "__iadd__(list)", "setitem": "__setitem__(index)"}[api]
    if k == "member_migrate":
        return "DataSet.%s[0].migrate_taxon_namespace" % ("tree_lists" if op[1] == "tl" else "char_matrices")
    if k == "member_assign_reconstruct":
        return "DataSet.tree_lists[0].taxon_namespace=;reconstruct_taxon_namespace"
    raise ValueError(op)


def _comp_closure(tls, cms, site, R):
    for tl in tls:
        closure_treelist(tl, site, R, "component-tree")
    for m in cms:
        closure_matrix(m, site, R, "component-matrix")


def _offenders(ds, tls, cms):
    a = ds.attached_taxon_namespace
    if a is None:
        return []
    return [c for c in tls + cms if c._taxon_namespace is not a]


def ds_apply(w, op, R):
    op = tup(op)
    k = op[0]
    site = ds_site(op)
    ds = w.ds
    tls0, cms0 = w.comps()
    pre_ids = set(id(c) for c in tls0 + cms0)
    pre_off = set(id(c) for c in _offenders(ds, tls0, cms0))
    att0 = ds.attached_taxon_namespace
    pre_trees = [(tl, [(t, rec_of(taxa_of(t))) for t in tl._trees]) for tl in tls0]
    pre_mats = [(m, mrec(m)) for m in cms0]
    pre_ns = [(ns, members(ns)) for ns in _all_ns(ds, tls0, cms0)]
    expected = ()
    check_old_unchanged = True
    if k == "read":
        schema, text, doc_tls, doc_cms = DS_DOCS[op[1]]
        kw = {}
        T = None
        if op[2] == "fresh":
            T = TaxonNamespace()
            kw["taxon_namespace"] = T
            if att0 is not None:
                expected = (ValueError,)
        elif op[2] == "attached":
            T = att0
            kw["taxon_namespace"] = att0
        elif att0 is not None:
            T = att0
        if op[2] in ("exclude_trees", "exclude_chars"):
            kw[op[2]] = True
            if op[2] == "exclude_trees":
                doc_tls = []
            else:
                doc_cms = []
        if T is not None and T.is_case_sensitive:
            kw["case_sensitive_taxon_labels"] = True
        exc = call(lambda: ds.read(data=text, schema=schema, **kw))
        if "TAXA" in text and T is not None:
            expected = expected + NEXUS_REFUSALS
        if unexpected(site, exc, R, expected):
            return
        R.items[:] = [it for it in R.items if "missing-refusal" not in it[0] or ValueError in expected]
        tls, cms = w.comps()
        if exc is None:
            new_tls = [c for c in tls if id(c) not in pre_ids]
            new_cms = [c for c in cms if id(c) not in pre_ids]
            if len(new_tls) != len(doc_tls) or len(new_cms) != len(doc_cms):
                R.add("%s|wrong-members" % site, "document with %d tree blocks and %d matrices produced %d tree lists and %d matrices" % (
                    len(doc_tls), len(doc_cms), len(new_tls), len(new_cms)))
                return
            for c in new_tls + new_cms:
                if T is not None and c._taxon_namespace is not T:
                    R.add("%s|new-component-in-other-namespace" % site,
                          "a component read with a prescribed namespace is bound to another namespace object")
            if not R.fatal:
                for tl, want in zip(new_tls, doc_tls):
                    if len(tl._trees) != len(want):
                        R.add("%s|wrong-members" % site, "tree block with %d trees read as %d" % (len(want), len(tl._trees)))
                    elif closure_treelist(tl, site, Rec()):
                        _read_labels(tl._trees, want, tl._taxon_namespace, site, R)
                for m, want in zip(new_cms, doc_cms):
                    cs = m._taxon_namespace.is_case_sensitive
                    if sorted(_norm(tx._label, cs) for tx in m._taxon_sequence_map) != sorted(_norm(l, cs) for l in want):
                        R.add("%s|label-changed" % site, "matrix rows %s read as %s" % (want, [tx._label for tx in m._taxon_sequence_map]))
    elif k in ("add_tl", "add_cm", "add_ns"):
        if k == "add_tl":
            obj = treelist_from_spec(op[1])
        elif k == "add_cm":
            obj = w.mpool.pop(op[1]) if op[1] in getattr(w, "mpool", {}) else matrix_from_spec(op[1])
        else:
            obj = TaxonNamespace()
        exc = call(lambda: ds.add(obj))
        if unexpected(site, exc, R):
            return
        tls, cms = w.comps()
        if k != "add_ns" and not any(c is obj for c in tls + cms):
            R.add("%s|wrong-members" % site, "the added object is not among the components")
    elif k in ("new_tl", "new_cm"):
        v = op[1]
        res = []
        if v == "ns_fresh":
            other = TaxonNamespace()
            if att0 is not None:
                expected = (TypeError,)
            if k == "new_tl":
                exc = call(lambda: res.append(ds.new_tree_list(taxon_namespace=other)))
            else:
                exc = call(lambda: res.append(ds.new_char_matrix("dna", taxon_namespace=other)))
        elif k == "new_tl":
            if v == "empty":
                exc = call(lambda: res.append(ds.new_tree_list()))
            elif v == "trees":
                trees = [tree_from_spec("ab"), tree_from_spec("Ac")]
                exc = call(lambda: res.append(ds.new_tree_list(trees)))
            else:
                operand = treelist_from_spec("L_Ac_cd")
                exc = call(lambda: res.append(ds.new_tree_list(operand)))
        else:
            if v == "empty":
                exc = call(lambda: res.append(ds.new_char_matrix("dna")))
            elif v == "dict":
                exc = call(lambda: res.append(ds.new_char_matrix(DnaCharacterMatrix, {"a": "AC", "B": "GT"})))
            else:
                exc = call(lambda: res.append(ds.new_char_matrix("dna", {"a": "AC", "B": "GT"})))
        if unexpected(site, exc, R, expected):
            return
        tls, cms = w.comps()
        if exc is None and not any(c is res[0] for c in tls + cms):
            R.add("%s|wrong-members" % site, "the new object is not among the components")
    elif k == "attach":
        if op[1] == "first":
            T = list(ds.taxon_namespaces)[0]
        elif op[1] == "last":
            T = list(ds.taxon_namespaces)[-1]
        else:
            T = TaxonNamespace(is_case_sensitive=(op[1] == "fresh_cs"))
        exc = call(lambda: ds.attach_taxon_namespace(T))
        if unexpected(site, exc, R):
            return
        if ds.attached_taxon_namespace is not T:
            R.add("%s|not-attached" % site, "attached_taxon_namespace is not the object passed")
        tls, cms = w.comps()
    elif k == "detach":
        exc = call(lambda: ds.detach_taxon_namespace())
        if unexpected(site, exc, R):
            return
        tls, cms = w.comps()
    elif k == "unify":
        check_old_unchanged = False
        v = op[1]
        kw = {}
        T = None
        if v == "given_cs":
            T = TaxonNamespace(is_case_sensitive=True)
            kw["taxon_namespace"] = T
        elif v == "given_ci_noattach":
            T = build_ns(False, ("A",))
            kw["taxon_namespace"] = T
            kw["attach_taxon_namespace"] = False
        elif v == "first":
            T = list(ds.taxon_namespaces)[0]
            kw["taxon_namespace"] = T
        elif v == "default_noattach":
            kw["attach_taxon_namespace"] = False
        elif v == "case_insensitive":
            kw["case_sensitive_label_mapping"] = False
        t_cs = T.is_case_sensitive if T is not None else False
        t_mem = members(T) if T is not None else []
        want_attach = kw.get("attach_taxon_namespace", True)
        # argument pattern + prior mode: a different way of leaving a component outside gets a different key
        pat = "DataSet.unify_taxon_namespaces(target=%s,attach=%s)|%s" % (
            "given" if T is not None else "None", want_attach, "was-attached" if att0 is not None else "was-detached")
        collide = False
        for m, recs in pre_mats:
            labs = [r[1] for r in recs]
            if any(leq(labs[i], labs[j], t_cs) for i in range(len(labs)) for j in range(i + 1, len(labs))):
                collide = True
        if collide:
            expected = (dperror.TaxonNamespaceReconstructionError,)
        exc = call(lambda: ds.unify_taxon_namespaces(**kw))
        if unexpected(site, exc, R, expected):
            return
        R.items[:] = [it for it in R.items if "missing-refusal" not in it[0]]
        tls, cms = w.comps()
        if exc is not None:
            # documented refusal: two sequences of one matrix on one label; the data set must still be closed
            R2 = Rec()
            _comp_closure(tls, cms, site, R2)
            if R2.items:
                R.add("%s|closure-broken-after-refusal" % site,
                      "TaxonNamespaceReconstructionError was raised half-way and left a component outside its namespace: %s" % R2.items[0][1])
            return
        if [id(c) for c in tls + cms] != [id(c) for c in tls0 + cms0]:
            R.add("%s|wrong-members" % site, "components changed")
            return
        if tls or cms:
            if T is None:
                T = (tls + cms)[0]._taxon_namespace
            if any(c._taxon_namespace is not T for c in tls + cms):
                R.add("%s|component-not-in-unified-namespace" % pat,
                      "after unification the components are not all bound to one namespace object%s: %s" % (
                          " (the one passed)" if "taxon_namespace" in kw else "",
                          [[x._label for x in c._taxon_namespace._taxa] for c in tls + cms]))
                return
            _comp_closure(tls, cms, site, R)
            if R.fatal:
                return
            a, b2 = [], []
            for tl, trs in pre_trees:
                for t, p in trs:
                    a.extend(p)
                    b2.extend(taxa_of(t))
            lost = False
            for m, recs in pre_mats:
                if len(m._taxon_sequence_map) != len(recs):
                    R.add("%s|sequence-silently-dropped" % site, "a matrix had %d sequences and has %d" % (len(recs), len(m._taxon_sequence_map)))
                    lost = True
                    continue
                al = malign(recs, m)
                if al is not None:
                    a.extend(al[0])
                    b2.extend(al[1])
            if not lost:
                n0 = len(R.items)
                relate(a, b2, "unify", T.is_case_sensitive, set(id(o) for o, _l in t_mem), [l for _o, l in t_mem], site, R)
                if len(R.items) == n0 and v in ("default", "default_noattach") and not T.is_case_sensitive:
                    # the library created the namespace itself; case_sensitive_label_mapping=True (the default) was requested
                    R3 = Rec()
                    relate(a, b2, "unify", True, (), (), site, R3)
                    if R3.items:
                        R.add("%s|case_sensitive_label_mapping-ignored" % site,
                              "case_sensitive_label_mapping=True (default) is ignored, labels that differ only in case were put on one taxon: %s" % R3.items[0][1],
                              fatal=False)
                ns_conserved(T, t_mem, False, site, R)
            att = ds.attached_taxon_namespace
            if att is not None and att is not T:
                # known on the unchanged library only for attach=False on a data set that was attached before
                R.add("%s|component-left-in-other-namespace" % pat,
                      "after unification the data set is attached to a namespace object (%s) other than the one all its components "
                      "were unified into (%s)" % ([x._label for x in att._taxa], [x._label for x in T._taxa]),
                      fatal=not (att0 is not None and not want_attach))
            elif want_attach and att is None:
                R.add("%s|not-attached" % pat, "attach_taxon_namespace=True but no namespace is attached after the call")
            if not any(x is T for x in ds.taxon_namespaces):
                w_count = getattr(w, "unlisted", 0)
                w.unlisted = w_count + 1
    elif k == "member_append":
        tl = tls0[0]
        t = tree_from_spec(op[1])
        pre = rec_of(taxa_of(t))
        ns = tl._taxon_namespace
        mem = members(ns)
        exc = call(lambda: tl.append(t))
        if unexpected(site, exc, R):
            return
        relate(pre, taxa_of(t), "unify", ns.is_case_sensitive, set(id(o) for o, _l in mem), [l for _o, l in mem], site, R)
        tls, cms = w.comps()
    elif k == "member_new_sequence":
        m = cms0[0]
        ns = m._taxon_namespace
        tx = None
        for x in ns._taxa:
            if leq(x._label, op[1], ns.is_case_sensitive):
                tx = x
                break
        if tx is None:
            tx = Taxon(label=op[1])
            ns.add_taxon(tx)
        if any(tx is y for y in m._taxon_sequence_map):
            expected = (ValueError,)
        content = w.next_seq()
        exc = call(lambda: m.new_sequence(tx, content))
        if unexpected(site, exc, R, expected):
            return
        tls, cms = w.comps()
        check_old_unchanged = False
    elif k == "pool_import":
        check_old_unchanged = False
        tl = tls0[0]
        t = w.pool.pop(op[1])
        api = op[2]
        ns = tl._taxon_namespace
        mem = members(ns)
        was_in = t._taxon_namespace is ns
        pre = rec_of(taxa_of(t))
        old = list(tl._trees)
        modename, kw2 = "unify", {}
        if api.startswith(("append_", "insert_")):
            _sn, kw2, modename = STRAT[api[-1]]
        if api.startswith("append_"):
            exc = call(lambda: tl.append(t, **kw2))
            expect = old + [t]
        elif api.startswith("insert_"):
            exc = call(lambda: tl.insert(0, t, **kw2))
            expect = [t] + old
        elif api == "extend":
            exc = call(lambda: tl.extend([t]))
            expect = old + [t]
        elif api == "iadd":
            def f():
                x = tl
                x += [t]
            exc = call(f)
            expect = old + [t]
        else:
            def f():
                tl[0] = t
            exc = call(f)
            expect = [t] + old[1:]
        if unexpected(site, exc, R):
            return
        if tl._taxon_namespace is not ns or [id(x) for x in tl._trees] != [id(x) for x in expect]:
            R.add("%s|wrong-members" % site, "the component list does not hold the expected trees / changed its namespace object")
            return
        relate(pre, taxa_of(t), "same" if was_in else modename, ns.is_case_sensitive, set(id(o) for o, _l in mem), [l for _o, l in mem], site, R)
        ns_conserved(ns, mem, modename != "unify", site, R)
        for tl2, trs in pre_trees:
            for t2, p in trs:
                if any(t2 is x for x in tl2._trees):
                    relate(p, taxa_of(t2), "same", True, (), (), site + "|existing-component", R)
        for m, recs2 in pre_mats:
            if [id(r[0]) for r in recs2] != [id(tx) for tx in m._taxon_sequence_map]:
                R.add("%s|existing-component|matrix-keys-changed" % site, "sequence keys of an untouched matrix changed")
    elif k in ("member_migrate", "member_assign_reconstruct"):
        check_old_unchanged = False
        c = tls0[0] if op[1] == "tl" else cms0[0]
        T = target_ns(op[2])
        t_mem = members(T)
        if op[1] == "tl":
            pre_c = _cat(p for _t, p in [x for x in pre_trees if x[0] is c][0][1])
        else:
            recs = [x for x in pre_mats if x[0] is c][0][1]
            if _collide(recs, T.is_case_sensitive):
                expected = (dperror.TaxonNamespaceReconstructionError,)
        if k == "member_migrate":
            exc = call(lambda: c.migrate_taxon_namespace(T))
        else:
            def f():
                c.taxon_namespace = T
                c.reconstruct_taxon_namespace()
            exc = call(f)
        root = site if op[1] == "tl" else "CharacterMatrix.reconstruct_taxon_namespace(unify_taxa_by_label=True)"
        if unexpected(root, exc, R, expected):
            return
        R.items[:] = [it for it in R.items if "missing-refusal" not in it[0]]
        if exc is not None:
            R2 = Rec()
            closure_matrix(c, site, R2)
            if R2.items:
                R.add("%s|closure-broken-after-refusal" % root,
                      "TaxonNamespaceReconstructionError was raised half-way and left the matrix outside its namespace: %s (entered through %s)" % (R2.items[0][1], site))
            return
        if c._taxon_namespace is not T:
            R.add("%s|container-not-bound-to-target" % site, "the component is not bound to the requested namespace object")
            return
        if op[1] == "tl":
            relate(pre_c, _cat(taxa_of(t) for t in c._trees), "unify", T.is_case_sensitive, set(id(o) for o, _l in t_mem), [l for _o, l in t_mem], site, R)
        else:
            al = malign(recs, c)
            if al is None or len(c._taxon_sequence_map) != len(recs):
                R.add("%s|sequence-silently-dropped" % site, "the matrix had %d sequences and has %d" % (len(recs), len(c._taxon_sequence_map)))
            else:
                relate(al[0], al[1], "unify", T.is_case_sensitive, set(id(o) for o, _l in t_mem), [l for _o, l in t_mem], site, R)
        ns_conserved(T, t_mem, False, site, R)
        # the other components are untouched
        for tl, trs in pre_trees:
            if tl is not c:
                for t, p in trs:
                    relate(p, taxa_of(t), "same", True, (), (), site + "|existing-component", R)
        for m, recs2 in pre_mats:
            if m is not c and [id(r[0]) for r in recs2] != [id(tx) for tx in m._taxon_sequence_map]:
                R.add("%s|existing-component|matrix-keys-changed" % site, "sequence keys of an untouched matrix changed")
    else:
        raise ValueError("unknown DS op %r" % (op,))
    # -- state-level checks ---------------------------------------------------
    tls, cms = w.comps()
    _comp_closure(tls, cms, site, R)
    if any(id(c) not in set(id(x) for x in tls + cms) for c in tls0 + cms0):
        R.add("%s|component-dropped" % site, "a component disappeared from the data set")
    osite = site
    if k == "attach":
        osite = "%s(%s)|%s" % (site, "registered" if op[1] in ("first", "last") else "new", "was-attached" if att0 is not None else "was-detached")
    for c in ([] if k in ("unify", "member_migrate", "member_assign_reconstruct", "pool_import") else _offenders(ds, tls, cms)):
        if id(c) in pre_off and ds.attached_taxon_namespace is att0:
            continue
        kind = "tree list" if isinstance(c, TreeList) else "character matrix"
        if id(c) in pre_ids:
            R.add("%s|existing-component-left-in-other-namespace" % (osite if k == "attach" else site + "|attached"),
                  "the data set is attached to a namespace, but a %s that was already a component stays bound to another namespace object" % kind,
                  fatal=False)
        else:
            R.add("%s|attached|new-component-in-other-namespace" % site,
                  "the data set has an attached namespace, but the %s that was just added/created/read is bound to another namespace object" % kind,
                  fatal=False)
    if check_old_unchanged:
        for tl, trs in pre_trees:
            if k == "member_append" and tl is tls0[0]:
                trs = trs[:]
            for t, p in trs:
                relate(p, taxa_of(t), "same", True, (), (), site + "|existing-component", R)
        for m, recs in pre_mats:
            if [id(r[0]) for r in recs] != [id(tx) for tx in m._taxon_sequence_map]:
                R.add("%s|existing-component|matrix-keys-changed" % site, "sequence keys of an untouched matrix changed")
        for ns, mem in pre_ns:
            ns_conserved(ns, mem, True, site + "|existing-namespace", R)


def _all_ns(ds, tls, cms):
    out = []
    for ns in list(ds.taxon_namespaces) + [c._taxon_namespace for c in tls + cms]:
        if ns is not None and not any(x is ns for x in out):
            out.append(ns)
    return out


# ---------------------------------------------------------------------------
# layer CM: a DnaCharacterMatrix

class CMWorld(object):
    layer = "CM"

    def __init__(self, start):
        _k, cs, labels, picks = start
        ns = build_ns(cs, labels)
        self.m = DnaCharacterMatrix(taxon_namespace=ns)
        self.nseq = 0
        self.S = build_ns(False, ("a", "b"))      # persistent foreign namespace: its Taxon objects are used as keys repeatedly
        for p in picks:
            self.m._taxon_sequence_map[ns._taxa[p]] = self.m.character_sequence_type(self.next_seq())

    def next_seq(self):
        s = SEQ_POOL[self.nseq % len(SEQ_POOL)]
        self.nseq += 1
        return s

    def size(self):
        return len(self.m._taxon_sequence_map)


def cm_starts(b):
    return [("cm", 0, (), ()), ("cm", 0, ("a", "b"), (0, 1)), ("cm", 1, ("a", "A"), (0, 1)), ("cm", 0, ("a", "b", "c"), (0,)),
            ("cm", 0, ("", "b"), (0, 1))]


def cm_key(w):
    m = w.m
    ns = m._taxon_namespace
    cidx = {id(x): i for i, x in enumerate(ns._taxa)}
    return ("CM", bool(ns.is_case_sensitive), tuple(x._label for x in ns._taxa),
            tuple(cidx.get(id(tx), ("x", tx._label)) for tx in m._taxon_sequence_map), w.nseq % len(SEQ_POOL),
            tuple(cidx.get(id(x), -1) for x in w.S._taxa))


def _free_member(m):
    for x in m._taxon_namespace._taxa:
        if not any(x is y for y in m._taxon_sequence_map):
            return x
    return None


MERGERS = ("add_sequences", "replace_sequences", "update_sequences", "extend_sequences", "extend_sequences+new", "extend_matrix")


def cm_enabled(w, b):
    m = w.m
    ns = m._taxon_namespace
    nmem = len(ns._taxa)
    nseq = len(m._taxon_sequence_map)
    free = _free_member(m)
    ops = []
    if free is not None:
        ops.append(("new_sequence", "free"))
        ops.append(("getitem", "label_free"))
        ops.append(("fill_taxa",))
    if nseq:
        ops.append(("new_sequence", "taken"))
    ops.append(("new_sequence", "foreign"))
    if nmem:
        ops.append(("setitem", "label_member"))
        ops.append(("setitem", "index0"))
        ops.append(("setitem", "taxon_member"))
    ops.append(("setitem", "label_missing"))
    ops.append(("setitem", "taxon_foreign"))
    ops.append(("getitem", "taxon_foreign"))
    if nmem < 6:
        for kind in ("label_new", "label_case", "label_case_cs", "taxon_foreign", "label_empty"):
            ops.append(("from_dict", kind))
        ops.append(("from_dict", "pool_taxon_0"))     # keyed by a Taxon object of the shared foreign namespace S
        ops.append(("from_dict", "pool_taxon_1"))
    for meth in MERGERS:
        ops.append(("other", meth, "same"))
        ops.append(("other", meth, "foreign"))
    for tgt in ("ci", "cs", "pre", "same", "share"):
        for u in (1, 0):
            ops.append(("migrate", tgt, u))
    ops.append(("migrate", "pre_e", 1))
    for u in (1, 0):
        ops.append(("reconstruct", u))
    ops.append(("update",))
    for tgt in ("ci", "cs", "pre"):
        for u in (1, 0):
            ops.append(("assign_ns_reconstruct", tgt, u))
        ops.append(("assign_ns_update", tgt))
    for tgt in ("same", "ci", "cs", "pre"):
        ops.append(("clone", tgt))
    ops.append(("export",))
    if nseq:
        for kind in ("remove_sequences", "keep_sequences", "delitem", "clear"):
            ops.append(("remove", kind))
    ops.append(("remove", "discard_foreign"))
    return ops


def cm_site(op):
    k = op[0]
    if k == "new_sequence":
        return "CharacterMatrix.new_sequence(%s)" % {"free": "member", "taken": "member-with-sequence", "foreign": "non-member"}[op[1]]
    if k == "setitem":
        return "CharacterMatrix.__setitem__(%s)" % op[1].replace("_", "-")
    if k == "getitem":
        return "CharacterMatrix.__getitem__(%s)" % op[1].replace("_", "-")
    if k == "from_dict":
        if op[1].startswith("pool_taxon_"):
            return "CharacterMatrix.from_dict(taxon-of-shared-foreign-namespace)"
        return "CharacterMatrix.from_dict(%s)" % op[1].replace("_", "-")
    if k == "other":
        return "CharacterMatrix.%s(%s)" % (op[1].replace("+new", "(is_add_new_sequences=True)"), "same-namespace" if op[2] == "same" else "other-namespace")
    if k == "fill_taxa":
        return "CharacterMatrix.fill_taxa"
    if k == "migrate":
        return "CharacterMatrix.migrate_taxon_namespace(unify_taxa_by_label=%s)" % bool(op[2])
    if k == "reconstruct":
        return "CharacterMatrix.reconstruct_taxon_namespace(unify_taxa_by_label=%s)" % bool(op[1])
    if k == "update":
        return "CharacterMatrix.update_taxon_namespace"
    if k == "assign_ns_reconstruct":
        return "CharacterMatrix.taxon_namespace=;reconstruct_taxon_namespace(unify_taxa_by_label=%s)" % bool(op[2])
    if k == "assign_ns_update":
        return "CharacterMatrix.taxon_namespace=;update_taxon_namespace"
    if k == "clone":
        return "CharacterMatrix(CharacterMatrix)" if op[1] == "same" else "CharacterMatrix(CharacterMatrix,taxon_namespace=other)"
    if k == "export":
        return "CharacterMatrix.export_character_indices"
    if k == "remove":
        return "CharacterMatrix.%s" % {"remove_sequences": "remove_sequences", "keep_sequences": "keep_sequences", "delitem": "__delitem__",
                                       "clear": "clear", "discard_foreign": "discard_sequences"}[op[1]]
    raise ValueError(op)


def _collide(recs, cs):
    labs = [r[1] for r in recs]
    return any(leq(labs[i], labs[j], cs) for i in range(len(labs)) for j in range(i + 1, len(labs)))


def cm_apply(w, op, R):
    op = tup(op)
    k = op[0]
    site = cm_site(op)
    m = w.m
    ns = m._taxon_namespace
    pre_mem = members(ns)
    pre = mrec(m)
    keys0 = [r[0] for r in pre]

    def plain_after(expect_keys, allow_dup=False):
        """closure, key set as expected (identity, any order), namespace conserved"""
        if m._taxon_namespace is not ns:
            R.add("%s|container-namespace-replaced" % site, "the matrix's namespace object changed")
            return
        closure_matrix(m, site, R)
        if sorted(id(x) for x in m._taxon_sequence_map) != sorted(id(x) for x in expect_keys):
            R.add("%s|wrong-sequence-keys" % site, "sequences are keyed by %s, expected %s" % (
                [x._label for x in m._taxon_sequence_map], [x._label for x in expect_keys]))
        ns_conserved(ns, pre_mem, allow_dup, site, R)

    if k == "new_sequence":
        if op[1] == "free":
            tx, expected = _free_member(m), ()
        elif op[1] == "taken":
            tx, expected = keys0[0], (ValueError,)
        else:
            tx, expected = Taxon(label="a"), (ValueError,)
        content = w.next_seq()
        exc = call(lambda: m.new_sequence(tx, content))
        if unexpected(site, exc, R, expected):
            return
        plain_after(keys0 + ([tx] if exc is None else []))
    elif k == "setitem":
        content = w.next_seq()
        expected = ()
        if op[1] == "label_member":
            key, tx = ns._taxa[0]._label, ns._taxa[0]
        elif op[1] == "index0":
            key, tx = 0, ns._taxa[0]
        elif op[1] == "taxon_member":
            key = tx = ns._taxa[-1]
        elif op[1] == "label_missing":
            key, tx, expected = "zz", None, (KeyError,)
        else:
            key, tx, expected = Taxon(label="a"), None, (ValueError,)

        def f():
            m[key] = content
        exc = call(f)
        if unexpected(site, exc, R, expected):
            return
        exp = list(keys0)
        if exc is None and tx is not None and not any(tx is x for x in exp):
            exp.append(tx)
        plain_after(exp)
    elif k == "getitem":
        if op[1] == "label_free":
            tx, expected = _free_member(m), ()
            key = tx._label
            # a label may be carried by an earlier member too: the lookup returns the first match
            first = None
            for x in ns._taxa:
                if leq(x._label, key, ns.is_case_sensitive):
                    first = x
                    break
            tx = first
        else:
            key, tx, expected = Taxon(label="a"), None, (ValueError,)
        exc = call(lambda: m[key])
        if unexpected(site, exc, R, expected):
            return
        exp = list(keys0)
        if exc is None and tx is not None and not any(tx is x for x in exp):
            exp.append(tx)
        plain_after(exp)
    elif k == "from_dict":
        content = w.next_seq()
        if op[1] == "label_new":
            d = {"d": content}
        elif op[1] == "label_case":
            d = {"A": content}
        elif op[1] == "label_case_cs":
            d = {"A": content}
        elif op[1] == "label_empty":
            d = {"": content}
        elif op[1].startswith("pool_taxon_"):
            d = {w.S._taxa[int(op[1][-1])]: content}
        else:
            d = {Taxon(label="a"): content}
        if op[1] == "label_case_cs":
            exc = call(lambda: DnaCharacterMatrix.from_dict(d, char_matrix=m, case_sensitive_taxon_labels=True))
        else:
            exc = call(lambda: DnaCharacterMatrix.from_dict(d, char_matrix=m))
        if unexpected(site, exc, R):
            return
        if m._taxon_namespace is not ns:
            R.add("%s|container-namespace-replaced" % site, "the matrix's namespace object changed")
            return
        closure_matrix(m, site, R)
        cur = list(m._taxon_sequence_map)
        if any(not any(x is y for y in cur) for x in keys0) or len(cur) > len(keys0) + 1:
            R.add("%s|wrong-sequence-keys" % site, "sequences are keyed by %s after adding one entry to %s" % (
                [x._label for x in cur], [x._label for x in keys0]))
        ns_conserved(ns, pre_mem, op[1] in ("taxon_foreign", "label_case_cs") or op[1].startswith("pool_taxon_"), site, R)
        if op[1].startswith("pool_taxon_") and not any(w.S._taxa[int(op[1][-1])] is x for x in cur):
            R.add("%s|wrong-sequence-keys" % site, "the Taxon object given as key does not key a sequence afterwards")
    elif k == "other":
        meth, okind = op[1], op[2]
        if okind == "same":
            other = DnaCharacterMatrix(taxon_namespace=ns)
            expected = ()
        else:
            other = DnaCharacterMatrix(taxon_namespace=build_ns(ns.is_case_sensitive, [l for _o, l in pre_mem] or ["a"]))
            expected = (dperror.TaxonNamespaceIdentityError,)
        for x in other._taxon_namespace._taxa:
            other._taxon_sequence_map[x] = other.character_sequence_type(w.next_seq())
        okeys = list(other._taxon_sequence_map)
        if meth == "extend_sequences+new":
            exc = call(lambda: m.extend_sequences(other, is_add_new_sequences=True))
        else:
            exc = call(lambda: getattr(m, meth)(other))
        if unexpected(site, exc, R, expected):
            return
        if exc is None and meth in ("add_sequences", "update_sequences", "extend_matrix", "extend_sequences+new"):
            exp = keys0 + [x for x in okeys if not any(x is y for y in keys0)]
        else:
            exp = keys0
        plain_after(exp)
        if other._taxon_namespace is not (ns if okind == "same" else other._taxon_namespace) or [id(x) for x in other._taxon_sequence_map] != [id(x) for x in okeys]:
            R.add("%s|operand-changed" % site, "the operand matrix was modified")
    elif k == "fill_taxa":
        exc = call(lambda: m.fill_taxa())
        if unexpected(site, exc, R):
            return
        plain_after(keys0 + [x for x in ns._taxa if not any(x is y for y in keys0)])
    elif k in ("migrate", "reconstruct", "update", "assign_ns_reconstruct", "assign_ns_update"):
        if k in ("migrate", "assign_ns_reconstruct", "assign_ns_update"):
            tgt = op[1]
            if tgt == "same":
                T = ns
            elif tgt == "share":
                T = TaxonNamespace(is_case_sensitive=ns.is_case_sensitive)
                for o, _l in pre_mem:
                    T.add_taxon(o)
            else:
                T = target_ns(tgt)
        else:
            T = ns
        t_mem = members(T)
        if k == "migrate":
            unify = bool(op[2])
            exc = call(lambda: m.migrate_taxon_namespace(T, unify_taxa_by_label=unify))
        elif k == "reconstruct":
            unify = bool(op[1])
            exc = call(lambda: m.reconstruct_taxon_namespace(unify_taxa_by_label=unify))
        elif k == "assign_ns_reconstruct":
            unify = bool(op[2])

            def f():
                m.taxon_namespace = T
                m.reconstruct_taxon_namespace(unify_taxa_by_label=unify)
            exc = call(f)
        elif k == "assign_ns_update":
            unify = None

            def f():
                m.taxon_namespace = T
                m.update_taxon_namespace()
            exc = call(f)
        else:
            unify = None
            exc = call(lambda: m.update_taxon_namespace())
        expected = (dperror.TaxonNamespaceReconstructionError,) if (unify and _collide(pre, T.is_case_sensitive)) else ()
        entry = site
        if unify:
            # migrate / namespace assignment only re-bind the matrix and delegate: one root call site
            site = "CharacterMatrix.reconstruct_taxon_namespace(unify_taxa_by_label=True)"
        if unexpected(site, exc, R, expected):
            if entry != site:
                R.items[-1] = (R.items[-1][0], R.items[-1][1] + " (entered through %s)" % entry, R.items[-1][2])
            return
        R.items[:] = [it for it in R.items if "missing-refusal" not in it[0]]
        if exc is not None:
            R2 = Rec()
            closure_matrix(m, site, R2)
            if R2.items:
                R.add("%s|closure-broken-after-refusal" % site,
                      "TaxonNamespaceReconstructionError was raised half-way and left the matrix outside its namespace: %s (entered through %s)" % (R2.items[0][1], entry))
            return
        site = entry
        if m._taxon_namespace is not T:
            R.add("%s|container-not-bound-to-target" % site, "the matrix is not bound to the requested namespace object")
            return
        closure_matrix(m, site, R)
        if len(m._taxon_sequence_map) != len(pre):
            R.add("%s|sequence-silently-dropped" % site, "the matrix had %d sequences and has %d" % (len(pre), len(m._taxon_sequence_map)))
            return
        al = malign(pre, m)
        if al is None:
            R.add("%s|sequences-replaced" % site, "the sequence objects are not the ones the matrix had")
            return
        modename = "same" if unify is None else ("unify" if unify else "nounify")
        relate(al[0], al[1], modename, T.is_case_sensitive, set(id(o) for o, _l in t_mem), [l for _o, l in t_mem], site, R)
        ns_conserved(T, t_mem, modename != "unify", site, R)
        if T is not ns:
            ns_conserved(ns, pre_mem, True, site + "|old-namespace", R)
    elif k in ("clone", "export"):
        res = []
        if k == "export":
            T = ns
            exc = call(lambda: res.append(m.export_character_indices([0])))
        elif op[1] == "same":
            T = ns
            exc = call(lambda: res.append(DnaCharacterMatrix(m)))
        else:
            T = target_ns(op[1])
            exc = call(lambda: res.append(DnaCharacterMatrix(m, taxon_namespace=T)))
        t_mem = members(T)
        collide = T is not ns and _collide(pre, T.is_case_sensitive)
        if exc is not None and collide:
            # any refusal of a clone that would put two sequences on one taxon is fine
            plain_after(keys0)
            return
        if unexpected(site, exc, R):
            return
        r = res[0]
        if r is m or r._taxon_namespace is not T:
            R.add("%s|container-not-bound-to-target" % site, "the new matrix is not bound to the requested namespace object")
            return
        closure_matrix(r, site, R)
        if len(r._taxon_sequence_map) != len(pre):
            R.add("%s|sequence-silently-dropped" % site,
                  "the source has %d sequences (labels %s), the copy in a namespace with is_case_sensitive=%s has %d (labels %s)" % (
                      len(pre), [x[1] for x in pre], T.is_case_sensitive, len(r._taxon_sequence_map), [x._label for x in r._taxon_sequence_map]))
        else:
            post = mrec(r)
            if k == "export":
                a, b2 = [(x[0], x[1]) for x in pre], [x[0] for x in post]
                if sorted(id(x) for x in b2) != sorted(id(x[0]) for x in a):
                    R.add("%s|taxon-object-replaced" % site, "the exported matrix is keyed by other taxa than the source")
            else:
                bc = {x[3]: x[0] for x in post}
                if len(bc) == len(post) and all(x[3] in bc for x in pre):
                    relate([(x[0], x[1]) for x in pre], [bc[x[3]] for x in pre], "same" if T is ns else "unify", T.is_case_sensitive,
                           set(id(o) for o, _l in t_mem), [l for _o, l in t_mem], site, R)
            ns_conserved(T, t_mem, False, site, R)
        # the source
        R2 = Rec()
        if m._taxon_namespace is not ns or [id(x) for x in m._taxon_sequence_map] != [id(x) for x in keys0]:
            R2.add("x", "keys or namespace of the source changed")
        closure_matrix(m, site, R2)
        ns_conserved(ns, pre_mem, T is ns and False, site, R2)
        if R2.items and T is not ns:
            R.add("%s|source-changed" % site, R2.items[0][1])
        if not R.fatal:
            w.m = r
    elif k == "remove":
        kind = op[1]
        if kind == "remove_sequences":
            gone = [keys0[0]]
            exc = call(lambda: m.remove_sequences([keys0[0]]))
        elif kind == "keep_sequences":
            gone = keys0[1:]
            exc = call(lambda: m.keep_sequences([keys0[0]]))
        elif kind == "delitem":
            gone = [keys0[-1]]

            def f():
                del m[keys0[-1]]
            exc = call(f)
        elif kind == "clear":
            gone = list(keys0)
            exc = call(lambda: m.clear())
        else:
            gone = []
            exc = call(lambda: m.discard_sequences([Taxon(label="a")]))
        if unexpected(site, exc, R):
            return
        plain_after([x for x in keys0 if not any(x is y for y in gone)])
    else:
        raise ValueError("unknown CM op %r" % (op,))


# ---------------------------------------------------------------------------
# layer TA: a TreeArray (members = stored split bitmasks)

TA_LABELS = ("a", "b", "c", "d")
# rooted shapes over label positions
TA_SHAPES = {
    "ab_cd": ((0, 1), (2, 3)),
    "ac": ((0, 2), 1, 3),
    "abc": (((0, 1), 2), 3),
}
TA_DOCS = {
    "nw_ab_cd": ("[&R] ((a,b),(c,d));", [("ab_cd", None)]),
    "nw_new_label": ("[&R] ((a,e),(b,c));", [(None, frozenset([frozenset("ae"), frozenset("bc"), frozenset("abce"), frozenset("a"), frozenset("e"), frozenset("b"), frozenset("c")]))]),
}


def _shape_tree(ns, shape, labels):
    t = Tree(taxon_namespace=ns)
    t.is_rooted = True
    by = {x._label: x for x in ns._taxa}

    def rec(parent, s):
        if isinstance(s, int):
            parent.add_child(Node(taxon=by[labels[s]]))
        else:
            nd = Node()
            parent.add_child(nd)
            for c in s:
                rec(nd, c)
    for c in shape:
        rec(t.seed_node, c)
    return t


def _shape_clades(shape, labels):
    out = set()

    def rec(s):
        if isinstance(s, int):
            cl = frozenset([labels[s]])
        else:
            cl = frozenset()
            for c in s:
                cl = cl | rec(c)
        out.add(cl)
        return cl
    out.add(frozenset().union(*[rec(c) for c in shape]))
    return frozenset(out)


def _tree_clades(tree):
    out = set()

    def rec(nd):
        if not nd._child_nodes:
            cl = frozenset([nd.taxon._label]) if nd.taxon is not None else frozenset()
        else:
            cl = frozenset()
            for c in nd._child_nodes:
                cl = cl | rec(c)
        out.add(cl)
        return cl
    rec(tree._seed_node)
    return frozenset(out)


class TAWorld(object):
    layer = "TA"

    def __init__(self, start):
        _k, preset = start
        self.ns = build_ns(False, TA_LABELS)
        self.ta = TreeArray(taxon_namespace=self.ns, is_rooted_trees=True if preset else None)
        self.want = []        # per stored tree: frozenset of clades (label sets)

    def size(self):
        return len(self.want)


def ta_starts(b):
    return [("ta", 0), ("ta", 1)]


def ta_key(w):
    ta = w.ta
    return ("TA", tuple(x._label for x in ta._taxon_namespace._taxa), ta._is_rooted_trees,
            tuple(tuple(sorted(s)) for s in ta._tree_split_bitmasks), tuple(ta._tree_leafset_bitmasks))


def ta_enabled(w, b):
    n = w.size()
    cap = b["max_trees"]
    ops = []
    if n + 1 <= cap:
        for sh in sorted(TA_SHAPES):
            for how in ("add_tree", "append", "insert0", "add_tree_updated"):
                ops.append(("add", sh, how))
        for d in sorted(TA_DOCS):
            ops.append(("read", d))
    for kind in ("reversed", "disjoint"):
        for how in ("add_tree", "append", "insert0"):
            ops.append(("add_foreign", kind, how))
    ops.append(("read_foreign_ns",))
    if n + 2 <= cap:
        ops.append(("add_trees", ("ab_cd", "abc")))
    for meth in ("extend", "iadd", "add", "update"):
        if n + 1 <= cap:
            ops.append(("combine", meth, "same"))
        for okind in ("reversed", "bigger"):
            ops.append(("combine", meth, okind))
    ops.append(("from_tree_list",))
    return ops


def ta_site(op):
    k = op[0]
    if k == "add":
        return "TreeArray.%s" % {"add_tree": "add_tree", "append": "append", "insert0": "insert", "add_tree_updated": "add_tree(is_bipartitions_updated=True)"}[op[2]]
    if k == "add_foreign":
        return "TreeArray.%s(tree of another namespace)" % {"add_tree": "add_tree", "append": "append", "insert0": "insert"}[op[2]]
    if k == "add_trees":
        return "TreeArray.add_trees"
    if k == "read":
        return "TreeArray.read"
    if k == "read_foreign_ns":
        return "TreeArray.read(taxon_namespace=other)"
    if k == "combine":
        return "TreeArray.%s(%s)" % ({"extend": "extend", "iadd": "__iadd__", "add": "__add__", "update": "update"}[op[1]],
                                      "same-namespace" if op[2] == "same" else "other-namespace")
    if k == "from_tree_list":
        return "TreeArray.from_tree_list"
    raise ValueError(op)


def _ta_state_ok(w, ta, want, site, R):
    ns = w.ns
    if ta._taxon_namespace is not ns:
        R.add("%s|container-namespace-replaced" % site, "the array is bound to another namespace object")
        return
    if ta._split_distribution._taxon_namespace is not ns:
        R.add("%s|split-distribution-bound-to-other-namespace" % site, "the array's split distribution refers to another namespace object")
    if len(ta._tree_split_bitmasks) != len(want):
        R.add("%s|wrong-members" % site, "the array stores %d trees, expected %d" % (len(ta._tree_split_bitmasks), len(want)))
        return
    allbits = 0
    for x in ns._taxa:
        allbits |= ns.taxon_bitmask(x)
    for i, splits in enumerate(ta._tree_split_bitmasks):
        for sb in splits:
            if sb & ~allbits:
                R.add("%s|split-bit-outside-namespace" % site,
                      "stored split %s of tree %d has a bit that belongs to no member of the array's namespace (member bits %s)" % (bin(sb), i, bin(allbits)))
                return
    for i, wc in enumerate(want):
        res = []
        exc = call(lambda: res.append(ta.restore_tree(i)))
        if exc is not None:
            R.add("%s|restore_tree-exception:%s" % (site, type(exc).__name__), "restore_tree(%d) raised %r" % (i, exc))
            return
        t = res[0]
        if not closure_tree(t, ns, site, "restored-tree", R):
            return
        got = _tree_clades(t)
        # restore_tree hangs every namespace member that the tree lacks on the root: compare without the
        # all-members clade and without singletons
        full = frozenset(x._label for x in ns._taxa)
        if set(c for c in got if len(c) > 1 and c != full) != set(c for c in wc if len(c) > 1 and c != full):
            R.add("%s|stored-tree-names-other-taxa" % site,
                  "tree %d was added with clades %s; restored from the array over namespace %s it has clades %s" % (
                      i, sorted(sorted(c) for c in wc if len(c) > 1), [x._label for x in ns._taxa], sorted(sorted(c) for c in got if len(c) > 1)))
            return


def ta_apply(w, op, R):
    op = tup(op)
    k = op[0]
    site = ta_site(op)
    ta = w.ta
    ns = w.ns
    pre_mem = members(ns)
    want0 = list(w.want)
    splits0 = [tuple(s) for s in ta._tree_split_bitmasks]

    def unchanged():
        if [tuple(s) for s in ta._tree_split_bitmasks] != splits0:
            R.add("%s|changed-although-refused" % site, "the call was refused with an exception but the stored trees changed")

    if k == "add":
        t = _shape_tree(ns, TA_SHAPES[op[1]], TA_LABELS)
        wc = _shape_clades(TA_SHAPES[op[1]], TA_LABELS)
        if op[2] == "add_tree":
            exc = call(lambda: ta.add_tree(t))
            w.want.append(wc)
        elif op[2] == "add_tree_updated":
            t.encode_bipartitions()
            exc = call(lambda: ta.add_tree(t, is_bipartitions_updated=True))
            w.want.append(wc)
        elif op[2] == "append":
            exc = call(lambda: ta.append(t))
            w.want.append(wc)
        else:
            exc = call(lambda: ta.insert(0, t))
            w.want.insert(0, wc)
        if unexpected(site, exc, R):
            w.want[:] = want0
            return
    elif k == "add_foreign":
        if op[1] == "reversed":
            fns = build_ns(False, TA_LABELS[::-1])
            t = _shape_tree(fns, TA_SHAPES["abc"], TA_LABELS)
            wc = _shape_clades(TA_SHAPES["abc"], TA_LABELS)
        else:
            labs = ("e", "f", "g", "h")
            fns = build_ns(False, labs)
            t = _shape_tree(fns, TA_SHAPES["abc"], labs)
            wc = _shape_clades(TA_SHAPES["abc"], labs)
        if op[2] == "add_tree":
            exc = call(lambda: ta.add_tree(t))
        elif op[2] == "append":
            exc = call(lambda: ta.append(t))
        else:
            exc = call(lambda: ta.insert(0, t))
        if exc is not None:
            unchanged()
        elif op[2] == "insert0":
            w.want.insert(0, wc)
        else:
            w.want.append(wc)
    elif k == "add_trees":
        trees = [_shape_tree(ns, TA_SHAPES[s], TA_LABELS) for s in op[1]]
        exc = call(lambda: ta.add_trees(trees))
        if unexpected(site, exc, R):
            return
        w.want.extend(_shape_clades(TA_SHAPES[s], TA_LABELS) for s in op[1])
    elif k == "read":
        text, items = TA_DOCS[op[1]]
        exc = call(lambda: ta.read(data=text, schema="newick"))
        if unexpected(site, exc, R):
            return
        for sh, cl in items:
            w.want.append(_shape_clades(TA_SHAPES[sh], TA_LABELS) if sh else cl)
        ns_conserved(ns, pre_mem, False, site, R)
    elif k == "read_foreign_ns":
        exc = call(lambda: ta.read(data="[&R] ((a,b),(c,d));", schema="newick", taxon_namespace=TaxonNamespace()))
        unexpected(site, exc, R, (ValueError,))
        unchanged()
    elif k == "combine":
        meth, okind = op[1], op[2]
        if okind == "same":
            ons, olabels, sh = ns, TA_LABELS, "ac"
        elif okind == "reversed":
            ons, olabels, sh = build_ns(False, TA_LABELS[::-1]), TA_LABELS, "abc"
        else:
            olabels = ("e", "f", "g", "a", "b", "c")
            ons, sh = build_ns(False, olabels), "abc"
        other = TreeArray(taxon_namespace=ons)
        other.add_tree(_shape_tree(ons, TA_SHAPES[sh], olabels))
        wc = _shape_clades(TA_SHAPES[sh], olabels)
        res = []
        if meth == "extend":
            exc = call(lambda: ta.extend(other))
        elif meth == "iadd":
            def f():
                x = ta
                x += other
            exc = call(f)
        elif meth == "update":
            exc = call(lambda: ta.update(other))
        else:
            exc = call(lambda: res.append(ta + other))
        if okind == "same":
            if unexpected(site, exc, R):
                return
        if exc is not None:
            unchanged()
        elif meth == "add":
            # the sum is checked, self must be unchanged, the sum becomes the container
            unchanged()
            w.ta = res[0]
            w.want.append(wc)
        else:
            w.want.append(wc)
        if exc is None and okind != "same":
            R2 = Rec()
            _ta_state_ok(w, w.ta, w.want, site, R2)
            if R2.items:
                R.add("%s|foreign-namespace-operand-accepted" % site,
                      "an array over another TaxonNamespace object was merged without complaint; afterwards: %s" % R2.items[0][1])
            else:
                R.add("%s|foreign-namespace-operand-accepted" % site,
                      "an array over another TaxonNamespace object was merged without complaint (no visible damage in this case)", fatal=False)
            return
    elif k == "from_tree_list":
        tl = TreeList(taxon_namespace=ns)
        for s in ("ab_cd", "ac"):
            tl._trees.append(_shape_tree(ns, TA_SHAPES[s], TA_LABELS))
        res = []
        exc = call(lambda: res.append(TreeArray.from_tree_list(tl)))
        if unexpected(site, exc, R):
            return
        w.ta = res[0]
        w.want[:] = [_shape_clades(TA_SHAPES[s], TA_LABELS) for s in ("ab_cd", "ac")]
    else:
        raise ValueError("unknown TA op %r" % (op,))
    _ta_state_ok(w, w.ta, w.want, site, R)


# ---------------------------------------------------------------------------
# layers TP / DP: containers facing a persistent pool of foreign material over ONE shared
# foreign namespace S (several trees / matrices that share S's Taxon objects), restricted
# alphabet: [import from S (every import API x strategy)] x [change of the container's own
# namespace (every API)] x [import of ANOTHER tree that still lives in S]

class TPWorld(TLWorld):
    layer = "TP"

    def __init__(self, start):
        TLWorld.__init__(self, start)
        make_pool(self)


def tp_starts(b):
    return [("tp", 0, 0), ("tp", 1, 0), ("tp", 0, 1)]


def tp_key(w):
    return ("TP",) + tl_key(w)[1:] + (pool_key(w, w.tl._taxon_namespace),)


def tp_enabled(w, b):
    n = w.size()
    cap = b["max_trees"]
    ops = []
    for name in sorted(w.pool):
        if name == "P2":
            continue
        if name in ("P3", "P4"):
            # the two trees that share S's Taxon(''): every strategy once, one representative per accession path
            if n + 1 <= cap:
                for st in "mna":
                    ops.append(("append", name, st))
                ops.append(("extend", (name,)))
                ops.append(("ctor_list", name))
            if n >= 1:
                ops.append(("setitem", 0, name))
            continue
        if n + 1 <= cap:
            for st in "mna":
                ops.append(("append", name, st))
                ops.append(("insert", name, st))
            ops.append(("extend", (name,)))
            ops.append(("iadd", (name,)))
            ops.append(("setslice", 0, 0, (name,)))
            ops.append(("add", (name,)))
            ops.append(("ctor_list", name))
        if n >= 1:
            ops.append(("setitem", 0, name))
            ops.append(("setslice", 0, 1, (name,)))
    # fresh foreign material whose taxon is labelled '' (a distinct Taxon('') in a distinct namespace every time)
    if n + 1 <= cap:
        for st in "mna":
            ops.append(("append", "e_b", st))
        ops.append(("insert", "e_b", "m"))
        ops.append(("iadd", ("e_b",)))
        ops.append(("setslice", 0, 0, ("e_b",)))
        ops.append(("add", ("e_b",)))
        ops.append(("extend_tl", "L_e_a"))
        ops.append(("setslice_tl", 0, 0, "L_e_a"))
        ops.append(("read", "nw_e"))
        ops.append(("read", "nx_e_taxa"))
    if n >= 1:
        ops.append(("setitem", 0, "e_b"))
    for tgt in ("ci", "cs", "pre", "S", "same", "share"):
        for u in (1, 0):
            ops.append(("migrate", tgt, u))
    ops.append(("migrate", "pre_e", 1))
    ops.append(("migrate", "pre_e_cs", 1))
    for u in (1, 0):
        ops.append(("reconstruct", u))
    ops.append(("update",))
    for tgt in ("ci", "S"):
        for u in (1, 0):
            ops.append(("assign_ns_reconstruct", tgt, u))
        ops.append(("assign_ns_update", tgt))
    for how in ("copy", "ci"):
        ops.append(("ctor", how))
    if n >= 1:
        ops.append(("pop", -1))
    if w.removed and n + 1 <= cap:
        ops.append(("reappend", len(w.removed) - 1, "m"))
    return ops


IMPORT_KINDS = ("append", "insert", "setitem", "setslice", "extend", "iadd", "add", "ctor_list", "reappend", "pool_import")


def op_family(op):
    """coarse family of an earlier operation, for the 'after:' part of pool-layer signatures"""
    k = op[0]
    if k in ("append", "insert", "reappend"):
        return "import(%s)" % STRAT[op[-1]][0]
    if k == "pool_import":
        return "import(%s)" % {"m": "migrate", "n": "migrate,unify_taxa_by_label=False", "a": "add"}.get(op[2][-1:], "migrate") \
            if op[2].startswith(("append_", "insert_")) else "import(migrate)"
    if k in IMPORT_KINDS:
        return "import(migrate)"
    if k == "migrate":
        return "migrate_taxon_namespace"
    if k == "reconstruct":
        return "reconstruct_taxon_namespace"
    if k in ("assign_ns_reconstruct", "assign_ns_update"):
        return "taxon_namespace="
    if k == "ctor":
        return "TreeList(TreeList)"
    if k == "unify":
        return "unify_taxon_namespaces"
    if k == "member_migrate":
        return "member.migrate_taxon_namespace"
    if k == "member_assign_reconstruct":
        return "member.taxon_namespace="
    if k == "attach":
        return "attach_taxon_namespace"
    return None


def after_tag(ops):
    """'import+<namespace changes>' of the earlier operations; empty unless the container's namespace was
    changed before (only then can the history matter for an import)"""
    fams = []
    imported = False
    for o in ops:
        f = op_family(o)
        if f is None or f == "attach_taxon_namespace":
            continue
        if f.startswith("import("):
            imported = True
        elif f not in fams:
            fams.append(f)
    if not fams:
        return ""
    return ("import+" if imported else "") + "+".join(fams)


class DPWorld(DSWorld):
    layer = "DP"

    def __init__(self, start):
        DSWorld.__init__(self, ("ds", start[1]))
        self.ds.new_tree_list()
        make_pool(self, matrices=True)


def dp_starts(b):
    return [("dp", "detached"), ("dp", "attached_ci")]


def dp_key(w):
    tls, _cms = w.comps()
    return ("DP",) + ds_key(w)[1:] + (pool_key(w, tls[0]._taxon_namespace if tls else None),)


POOL_IMPORT_APIS = ("append_m", "append_n", "append_a", "insert_m", "extend", "iadd", "setitem")


def dp_enabled(w, b):
    tls, cms = w.comps()
    ops = []
    if tls:
        n = len(tls[0]._trees)
        for name in sorted(w.pool):
            if name in ("P2", "P4"):
                continue                   # P0/P1 share 'a', P3 carries '': enough for this layer
            for api in POOL_IMPORT_APIS:
                if api == "setitem":
                    if n >= 1:
                        ops.append(("pool_import", name, api))
                elif n + 1 <= b["max_trees"]:
                    ops.append(("pool_import", name, api))
        ops.append(("member_migrate", "tl", "ci"))
        ops.append(("member_assign_reconstruct", "tl", "ci"))
    if len(tls) + len(cms) + 1 <= b["max_components"]:
        for name in sorted(w.mpool):
            ops.append(("add_cm", name))
    if cms:
        ops.append(("member_migrate", "cm", "ci"))
    for v in ("default", "given_cs", "given_ci_noattach", "default_noattach"):
        ops.append(("unify", v))
    if len(w.ds.taxon_namespaces):
        ops.append(("unify", "first"))
    ops.append(("attach", "fresh_ci"))
    if w.ds.attached_taxon_namespace is not None:
        ops.append(("detach",))
    return ops


# ---------------------------------------------------------------------------
# layer MM: several containers over ONE shared source namespace are migrated one after the other
# into one target namespace, with the taxon_mapping_memo argument in every mode.
#
# Documented meaning demanded (TaxonNamespaceAssociated.migrate_taxon_namespace): the memo "maps Taxon
# objects in the old namespace to corresponding Taxon objects in the new namespace", is "similar to
# memo of deepcopy" (i.e. entries made by one call are seen by the next call that gets the same dict),
# and "any mappings here take precedence over all other options ... regardless of, e.g. label values".

MM_SOURCES = {"s_ci": (False, ("a", "b", "c")), "s_cs": (True, ("a", "A", "b")), "s_e": (False, ("", "b", "c"))}
# name: (class, content)   trees = (leaf picks, root pick); matrix = picks carrying a sequence
MM_CONTAINERS = {
    "L1": ("TreeList", (((0, 1), None), ((0, 2), None))),
    "L2": ("TreeList", (((1, 2), 0),)),
    "M1": ("CharacterMatrix", (0, 2)),
    "T1": ("Tree", ((0, 2), 1)),
}
MM_MEMO_MODES = ("not-passed", "None", "shared-empty", "shared-preseeded")
MM_APIS = ("migrate", "assign_reconstruct", "append", "insert")     # the last two: target_list.append/insert(tree, **kwargs)
ORD = ("first", "second", "later", "later")


class MMWorld(object):
    layer = "MM"

    def __init__(self, start):
        _k, src, tgt, mode = start
        cs, labels = MM_SOURCES[src]
        self.S = build_ns(cs, labels)
        self.N = target_ns(tgt)
        self.mode = mode
        self.cont = {}
        for name, (cls, content) in MM_CONTAINERS.items():
            if cls == "TreeList":
                c = TreeList(taxon_namespace=self.S)
                for picks, root in content:
                    c._trees.append(build_tree(self.S, picks, root))
            elif cls == "Tree":
                c = build_tree(self.S, content[0], content[1])
            else:
                c = DnaCharacterMatrix(taxon_namespace=self.S)
                for i, pk in enumerate(content):
                    c._taxon_sequence_map[self.S._taxa[pk]] = c.character_sequence_type(SEQ_POOL[i])
            self.cont[name] = c
        self.done = []                 # names in the order they were migrated
        self.host = TreeList(taxon_namespace=self.N)     # receives Tree containers through append / insert
        self.memo = None
        self.seeded = {}               # id(old) -> seeded new taxon
        if mode in ("shared-empty", "shared-preseeded"):
            self.memo = {}
        if mode == "shared-preseeded":
            q = Taxon(label="q")       # a label unrelated to the old taxon's: the mapping must win regardless of labels
            self.memo[self.S._taxa[0]] = q
            self.seeded[id(self.S._taxa[0])] = q
        self.model = dict(self.seeded)  # harness's own old -> new map for the shared memo

    def size(self):
        return len(self.done)

    def kwargs(self, unify):
        kw = {}
        if not unify:
            kw["unify_taxa_by_label"] = False
        if self.mode == "None":
            kw["taxon_mapping_memo"] = None
        elif self.memo is not None:
            kw["taxon_mapping_memo"] = self.memo
        return kw


def mm_starts(b):
    return [("mm", s, t, m) for s in sorted(MM_SOURCES) for t in (("ci", "cs", "pre_e") if s == "s_e" else ("ci", "cs", "pre"))
            for m in MM_MEMO_MODES]


def _mm_items(c):
    """[(taxon, label, alignment key)] of a container"""
    if isinstance(c, TreeList):
        out = []
        for i, t in enumerate(c._trees):
            out.extend((tx, tx._label, ("n", i, j)) for j, tx in enumerate(taxa_of(t)) if tx is not None)
        return out
    if isinstance(c, Tree):
        return [(tx, tx._label, ("n", 0, j)) for j, tx in enumerate(taxa_of(c)) if tx is not None]
    return [(tx, tx._label, ("s", id(s))) for tx, s in c._taxon_sequence_map.items()]


def mm_key(w):
    nidx = {id(x): i for i, x in enumerate(w.N._taxa)}
    sidx = {id(x): i for i, x in enumerate(w.S._taxa)}

    def ref(tx):
        if id(tx) in nidx:
            return ("N", nidx[id(tx)])
        if id(tx) in sidx:
            return ("S", sidx[id(tx)])
        return ("x", tx._label)
    conts = []
    for name in sorted(w.cont):
        c = w.cont[name]
        bound = "N" if c._taxon_namespace is w.N else ("S" if c._taxon_namespace is w.S else "other")
        conts.append((name, bound, tuple(sorted(ref(tx) for tx, _l, _k in _mm_items(c))) if isinstance(c, DnaCharacterMatrix)
                      else tuple(ref(tx) for tx, _l, _k in _mm_items(c))))
    memo = None
    if w.memo is not None:
        memo = tuple(sorted((sidx.get(id(o), -1), ref(n)) for o, n in w.memo.items()))
    return ("MM", w.mode, bool(w.S.is_case_sensitive), bool(w.N.is_case_sensitive), tuple(x._label for x in w.N._taxa),
            tuple(conts), memo, tuple(w.done), tuple(id(t) is not None and nidx.get(id(tx), -1) for t in w.host._trees for tx in taxa_of(t) if tx is not None))


def mm_enabled(w, b):
    ops = []
    for name in sorted(w.cont):
        if name in w.done:
            continue
        cls = MM_CONTAINERS[name][0]
        for api in MM_APIS:
            if api in ("append", "insert") and cls != "Tree":
                continue
            for u in (1, 0):
                ops.append(("mm", name, api, u))
    return ops


def mm_site(op):
    _k, name, api, u = op
    cls = MM_CONTAINERS[name][0]
    if api == "migrate":
        return "%s.migrate_taxon_namespace" % cls
    if api == "assign_reconstruct":
        return "%s.taxon_namespace=;reconstruct_taxon_namespace" % cls
    return "TreeList.%s(tree,**migrate_kwargs)" % api


def mm_apply(w, op, R):
    op = tup(op)
    _k, name, api, u = op
    unify = bool(u)
    c = w.cont[name]
    N = w.N
    msite = "%s(memo=%s,unify=%s)|%s-container" % (mm_site(op), w.mode, unify, ORD[min(len(w.done), 3)])   # memo-related kinds
    site = "%s(unify_taxa_by_label=%s)" % (mm_site(op), unify)                                              # everything else
    kw = w.kwargs(unify)
    pre = _mm_items(c)
    n_mem = members(N)
    n_ids = set(id(o) for o, _l in n_mem)
    expected = ()
    if isinstance(c, DnaCharacterMatrix) and unify:
        # two sequences that would land on one taxon: documented refusal
        tgt_labels = []
        for tx, l, _key in pre:
            tgt_labels.append(w.model[id(tx)]._label if (w.memo is not None and id(tx) in w.model) else l)
        if any(leq(tgt_labels[i], tgt_labels[j], N.is_case_sensitive) for i in range(len(pre)) for j in range(i + 1, len(pre))):
            expected = (dperror.TaxonNamespaceReconstructionError,)
    if api == "migrate":
        exc = call(lambda: c.migrate_taxon_namespace(N, **kw))
    elif api == "assign_reconstruct":
        def f():
            c.taxon_namespace = N
            c.reconstruct_taxon_namespace(**kw)
        exc = call(f)
    elif api == "append":
        exc = call(lambda: w.host.append(c, **kw))
    else:
        exc = call(lambda: w.host.insert(0, c, **kw))
    root = "CharacterMatrix.reconstruct_taxon_namespace(unify_taxa_by_label=True)" if expected else site
    if unexpected(root, exc, R, expected):
        return
    R.items[:] = [it for it in R.items if "missing-refusal" not in it[0]]
    w.done.append(name)
    if exc is not None:
        R2 = Rec()
        closure_matrix(c, site, R2)
        if R2.items:
            R.add("%s|closure-broken-after-refusal" % root,
                  "TaxonNamespaceReconstructionError was raised half-way and left the matrix outside its namespace: %s (entered through %s)" % (R2.items[0][1], site))
        return
    # -- closure
    if c._taxon_namespace is not N:
        R.add("%s|container-not-bound-to-target" % site, "the container is not bound to the target namespace object")
        return
    if isinstance(c, TreeList):
        closure_treelist(c, site, R)
    elif isinstance(c, Tree):
        closure_tree(c, N, site, "tree", R)
    else:
        closure_matrix(c, site, R)
    if R.fatal:
        return
    post = dict((key, tx) for tx, _l, key in _mm_items(c))
    if len(post) != len(pre) or any(key not in post for _tx, _l, key in pre):
        R.add("%s|taxon-assignment-lost" % site, "the container had %d taxon references and has %d" % (len(pre), len(post)))
        return
    # -- the memo: entries take precedence; entries made by earlier calls are seen by this one
    rest_pre, rest_post = [], []
    shared = w.memo is not None
    for tx, l, key in pre:
        b = post[key]
        if shared and id(tx) in w.model:
            want = w.model[id(tx)]
            if b is not want:
                if id(tx) in w.seeded:
                    R.add("%s|memo-entry-ignored" % msite,
                          "taxon_mapping_memo maps the old taxon %r to a given taxon (%r), the item was put on another one (%r)" % (l, want._label, b._label))
                else:
                    R.add("%s|old-taxon-mapped-to-several-new-taxa%s" % (msite, _ls(l)),
                          "one taxon_mapping_memo dict was passed to every call, yet the old taxon %r, mapped to one new taxon by an "
                          "earlier call, was mapped to another new taxon now (target namespace: %s)" % (l, [x._label for x in N._taxa]))
                return
        else:
            rest_pre.append((tx, l))
            rest_post.append(b)
    relate(rest_pre, rest_post, "unify" if unify else "nounify", N.is_case_sensitive, n_ids, [l for _o, l in n_mem], site, R)
    if R.fatal:
        return
    ns_conserved(N, n_mem, (not unify) or bool(w.seeded), site, R)
    if shared:
        for (tx, l), b in zip(rest_pre, rest_post):
            w.model.setdefault(id(tx), b)
            got = w.memo.get(tx)
            if got is not b:
                R.add("%s|memo-not-filled" % msite,
                      "after the call the dict passed as taxon_mapping_memo %s for the old taxon %r that the call mapped to a new taxon" % (
                          "has no entry" if got is None else "has another entry", l), fatal=False)
                break
    # -- containers migrated earlier are untouched; every one still closed
    for other in w.done[:-1]:
        oc = w.cont[other]
        R2 = Rec()
        if isinstance(oc, TreeList):
            closure_treelist(oc, site, R2)
        elif isinstance(oc, Tree):
            closure_tree(oc, N, site, "tree", R2)
        else:
            closure_matrix(oc, site, R2)
        if R2.items:
            R.add("%s|earlier-container-broken" % site, R2.items[0][1])
    # -- one old taxon -> one new taxon across all containers when one memo was shared
    if shared:
        seen_map = {}
        for nm in w.done:
            pass
        # (the per-item comparison against the harness's model above decides; this is the summary check)
        for tx_id, new in w.model.items():
            seen_map.setdefault(tx_id, set()).add(id(new))
        if any(len(v) > 1 for v in seen_map.values()):
            R.add("%s|old-taxon-mapped-to-several-new-taxa" % msite, "model inconsistency")


# ===========================================================================
# LAYER-REGISTRY-BELOW (other layers are defined above this line)

LAYERS = {
    "TA": {"world": TAWorld, "starts": ta_starts, "enabled": ta_enabled, "apply": ta_apply, "key": ta_key, "site": ta_site},
    "TL": {"world": TLWorld, "starts": tl_starts, "enabled": tl_enabled, "apply": tl_apply, "key": tl_key, "site": tl_site},
    "CM": {"world": CMWorld, "starts": cm_starts, "enabled": cm_enabled, "apply": cm_apply, "key": cm_key, "site": cm_site},
    "DS": {"world": DSWorld, "starts": ds_starts, "enabled": ds_enabled, "apply": ds_apply, "key": ds_key, "site": ds_site},
    "TP": {"world": TPWorld, "starts": tp_starts, "enabled": tp_enabled, "apply": tl_apply, "key": tp_key, "site": tl_site},
    "MM": {"world": MMWorld, "starts": mm_starts, "enabled": mm_enabled, "apply": mm_apply, "key": mm_key, "site": mm_site},
    "DP": {"world": DPWorld, "starts": dp_starts, "enabled": dp_enabled, "apply": ds_apply, "key": dp_key, "site": ds_site},
}


def nontrivial_op(layer, op, world):
    """the operation involves a foreign namespace / a namespace change, or the container is not empty"""
    k = op[0]
    if world.size() > 0:
        return True
    if layer in ("TP", "DP"):
        return k in IMPORT_KINDS or k == "add_cm"
    if layer == "TL":
        return k not in ("new_tree", "new_tree_foreign_ns", "read_foreign_ns", "update", "slice", "reconstruct")
    if layer == "DS":
        return k in ("read", "add_tl", "add_cm", "new_tl", "new_cm")   # member_* operations need a component
    if layer == "CM":
        return k in ("from_dict", "other", "clone")
    return k not in ("read_foreign_ns",)


def digest(key):
    """visited-state hash: 128-bit digest of the canonical snapshot (keeps the visited set small)"""
    return hashlib.blake2b(repr(key).encode("utf-8"), digest_size=16).digest()


def rebuild(h):
    """h = (layer, start, ops): replay without reporting"""
    layer, start, ops = h
    L = LAYERS[layer]
    w = L["world"](start)
    dummy = Rec()
    for op in ops:
        L["apply"](w, op, dummy)
    return w


def step(h, op, ctx):
    """Rebuild the state of h, apply op, check.  Returns (key, new history) or None."""
    layer, start, ops = h
    L = LAYERS[layer]
    case = {"kind": "hist", "layer": layer, "start": start, "ops": list(ops) + [op], "site": L["site"](op)}

    def attempt():
        w = rebuild(h)
        R = Rec()
        L["apply"](w, op, R)
        return w, R
    st, val = run_limited(attempt, 20.0)
    if st == "exc":
        raise val
    if st == "timeout":
        _BUDGET[0] = 3000000
        try:
            try:
                w, R = attempt()
            except Hang as e:
                ctx.violation("%s|hang" % L["site"](op), "%r does not terminate (step budget exceeded at %s)" % (op, e), case)
                return None
        finally:
            _BUDGET[0] = None
    else:
        w, R = val
    seen = set()
    for sig, msg, _fatal in R.items:
        if sig in seen:
            continue
        seen.add(sig)
        if "|exception:" in sig:
            # The statement is about closure (which namespace members refer to), not about operations
            # never refusing: an exception alone is counted, never decides.  The state it leaves behind
            # is still checked for closure ("closure-broken-after-refusal").
            ctx.count("exception_not_deciding:" + sig)
            continue
        if layer in ("TP", "DP") and op[0] in IMPORT_KINDS and ops:
            # pool layers: an import that goes wrong only after earlier imports / namespace changes names them
            tag = after_tag(ops)
            if tag:
                head, _sep, rest = sig.partition("|")
                sig = "%s|after:%s|%s" % (head, tag, rest)
        ctx.violation(sig, "%s   [%s; history %s]" % (msg, describe(layer, start), " ; ".join(map(repr, list(ops) + [op]))), case)
    if R.fatal:
        return None
    return (digest(L["key"](w)), (layer, start, tuple(ops) + (op,)))


def describe(layer, start):
    if layer == "TL":
        return "TreeList over %s namespace %s" % ("case-sensitive" if start[1] else "case-insensitive",
                                                  "with one tree (a,b)" if start[2] else "(empty)")
    if layer == "TP":
        return "TreeList over %s namespace %s; pool: trees P0=(a,b) P1=(a,c) P2=(b,c) over ONE foreign namespace S=[a,b,c]" % (
            "case-sensitive" if start[1] else "case-insensitive", "with one tree (a,b)" if start[2] else "(empty)")
    if layer == "MM":
        return ("containers L1=TreeList[(a,b),(a,c)] L2=TreeList[(b,c) root a] M1=matrix(a,c) T1=Tree((a,c) root b) [picks into the source labels] "
                "over ONE source namespace %s %s, target namespace %r, taxon_mapping_memo %s" % (
                    MM_SOURCES[start[1]][1], "case-sensitive" if MM_SOURCES[start[1]][0] else "case-insensitive", start[2], start[3]))
    if layer == "DP":
        return "DataSet (%s) holding one empty TreeList; pool: trees P0=(a,b) P1=(a,c) P2=(b,c) and matrices Q0(a,b) Q1(a,c) over ONE foreign namespace S=[a,b,c]" % start[1]
    return "%s start %r" % (layer, start)


def expand(chunk, ctx):
    b = bounds(chunk["tier"])
    out = []
    local = set()
    for h in chunk["hists"]:
        h = tup(h)
        layer = h[0]
        L = LAYERS[layer]
        w = rebuild(h)
        full_key = L["key"](w)
        skey = digest(full_key)
        ops = L["enabled"](w, b)
        ctx.count("expanded_states")
        ctx.count("expanded_states:" + layer)
        ctx.maximum("ops_enabled_in_one_state:" + layer, len(ops))
        for op in ops:
            ctx.case((skey, op), nontrivial=nontrivial_op(layer, op, w))
            ctx.count("transitions")
            ctx.count("transitions:" + layer)
            ctx.count("site:" + L["site"](op))
            r = step(h, op, ctx)
            if r is None:
                ctx.count("transitions_without_successor")
                continue
            key, nh = r
            if key == skey:
                ctx.count("transitions_self_loop")
            if key not in local:
                local.add(key)
                out.append((key, None if chunk["last"] else nh))
        if len(h[2]) >= 1:
            ctx.sample({"layer": layer, "start": describe(layer, h[1]), "history": [list(o) for o in h[2]],
                        "state": repr(full_key)[:300], "enabled_operations": len(ops)}, 2)
    return out


def explore(tier, runner):
    b = bounds(tier)
    for layer in sorted(LAYERS):
        L = LAYERS[layer]
        st = []
        for s in L["starts"](b):
            w = L["world"](s)
            st.append((digest(L["key"](w)), (layer, s, ())))
        res = hist.bfs(runner, "expand", st, b["depth"][layer], chunk_size=b["chunk"], extra={"tier": tier})
        runner.ctx.count("states:" + layer, res["states"])
        runner.notes.append("layer %s: BFS completed to depth %d, new states per depth %s" % (layer, len(res["levels"]) - 1, res["levels"]))


def replay(case, ctx):
    ops = [tup(o) for o in case["ops"]]
    h = (case["layer"], tup(case["start"]), tuple(ops[:-1]))
    step(h, ops[-1], ctx)
