"""C09 - character matrices round-trip through NEXUS / PHYLIP / FASTA / NeXML (DESIGN 3/C09).

Engine E1: exhaustive enumeration of
  data type x matrix content x construction route x target format variant
plus data sets with 1-3 taxon namespaces (NEXUS / NeXML) and the taxon-label layer.

The reference model is plain Python: a matrix is (labels, rows) with rows lists of
one-character symbols (or '{..}' / '(..)' multistate tokens, or floats); the symbol
tables (IUPAC codes, synonyms) are written out below and never taken from dendropy;
source documents for the "parsed from <format>" routes are assembled by the harness
as text, never by a dendropy writer.
"""
import collections
import itertools
import traceback
import warnings

import dendropy

ID = "C09"
LEVEL = "exploration"
EXHAUSTIVE = True
RULE = ("a case = one (data type, labels, rows, namespace configuration, construction route, target format variant) "
        "round trip write -> read-as-same-type, or one data set (1-3 namespaces x content pattern x namespace-label "
        "pattern x add order x schema x suppress_block_titles) round trip, or one data set of every sequence of 2-3 blocks "
        "over {DNA with character subsets from new_character_subset / concatenate / a parsed SETS block, continuous with "
        "subsets, continuous with negative and exponent values, DNA with gaps, tree list with negative and exponent edge "
        "lengths} containing a subset carrier x 3 namespace assignments x {NEXUS titles None/False, NeXML} incl. "
        "matrix_offset reads, or one use history (first use of the source in {str, symbols_as_string, symbols_as_list, "
        "values, write to each format} x derivation {none, export indices/subset, concatenate, copy-construct, deepcopy, "
        "scoped copy, del cell, del slice} x sequence mutator {append, extend, __setitem__, insert, __delitem__, del slice, "
        "set_at} x target format, judged against the same steps on fresh objects), or one concatenation (concatenate / "
        "concatenate_from_streams / _from_paths) of 2-3 sources one of which has every row-length pattern over {0,1,2,3} "
        "for 2-3 taxa at every source position (a refusal is not a verdict; a returned matrix must hold the sources column "
        "for column under its recorded subsets and round-trip), or one taxon label in a 2-row matrix; "
        "matrices: every symbol of the type's symbol set at 1x1, all ordered tuples at 1x2, 2x1, 2x2-diagonal and (per tier) "
        "1x3, 3x1, 1x4, cyclic fills of every r x c up to the tier bound at every alphabet offset, ragged rows (FASTA/NeXML), "
        "wrap-boundary lengths, multistate tokens, namespaces with an unsequenced member; non-trivial = "
        "every case (a non-empty matrix is written and re-read); distinct = distinct descriptor tuples")
ASSUMPTIONS = [
    "symbol tables (IUPAC nucleotide / amino-acid ambiguity codes, X as synonym of N, case-insensitivity) are the harness's own",
    "a state is observed through the primitive fields StateIdentity._symbol / _member_states / _state_denomination, a row through CharacterDataSequence._character_values, row order through iteration of the matrix",
    "format support table: dna/rna/protein/standard -> all four formats; nucleotide -> NEXUS, PHYLIP, FASTA (NeXML has no such type); restriction and infinite sites -> all four (docs/schemas/*.rst list <Type>CharacterMatrix.get for them); continuous -> NEXUS, PHYLIP, NeXML (FASTA has no value separator; probed once and only counted)",
    "multistate tokens are only sent to formats able to express them (NEXUS, NeXML); an anonymous multistate is compared as (kind, set of fundamental symbols)",
    "a namespace member without a sequence is not a row: it may or may not come back, an empty row with its label is tolerated",
    "PHYLIP strict labels are at most 10 characters; relaxed labels contain no blank unless the reader is given multispace_delimiter=True; FASTA/PHYLIP labels are taken verbatim (no quoting exists)",
    "data sets: the statement demands attachment and content, not the namespace's own title, so namespace / block labels are not compared",
    "character subsets (labels + index sets) and tree edge lengths count as data-set content ('converting a data set never changes its content'); <Type>CharacterMatrix.get(matrix_offset=j) is compared with the j-th matrix only for sources with one TAXA block (the call reads everything into one namespace; several-namespace sources are counted as observations)",
    "label layer = the C02 admissibility rule (non-empty, no leading/trailing whitespace, distinct up to case) in NEXUS and NeXML only",
]
MANIFEST = {
    "engine": "E1-ENUM",
    "technique": "bounded-exhaustive enumeration of matrices x construction routes x format variants against a plain-Python matrix model",
    "text": ("For every supported data type, every symbol of its alphabet at every cell of 1x1, every ordered pair at 1x2 and "
             "2x1, cyclic fills of all r x c matrices up to the bound at every alphabet offset, wrap-boundary sequence "
             "lengths and NEXUS multistate tokens - built by from_dict, by parsing harness-written NEXUS / PHYLIP (strict, "
             "relaxed, sequential, interleaved, wrapped) / FASTA / NeXML documents, by concatenate, export_character_indices "
             "and the copy constructor - written to every format variant the type supports and read back as the same type "
             "gives the same taxa in the same order with the same states; data sets with 1-3 overlapping namespaces come "
             "back from NEXUS and NeXML with every tree list and matrix on a namespace with exactly its own labels; every "
             "admissible single-character and two-special-character taxon label survives in NEXUS and NeXML."),
    "note": ("Trusted: the harness's symbol tables and document templates, Python's float repr round trip, "
             "the library's own XML parser for NeXML well-formedness.  Bounded: every-offset cyclic fills up to 3x3 (quick) / "
             "5x5 (thorough), all symbol tuples up to 1x3 / 1x4, rows of up to 141 / 211 cells, labels with at most two "
             "(thorough: three) special characters, three namespaces.  Layers that vary one thing against a baseline case "
             "(unsequenced namespace member, parse history, label) report only what the baseline case does not show."),
}

# ---------------------------------------------------------------------------
# reference symbol tables (harness-owned)

_DNA_AMB = collections.OrderedDict([
    ("N", "ACGT"), ("R", "AG"), ("Y", "CT"), ("M", "AC"), ("W", "AT"), ("S", "CG"), ("K", "GT"),
    ("V", "ACG"), ("H", "ACT"), ("D", "AGT"), ("B", "CGT")])
_RNA_AMB = collections.OrderedDict((k, v.replace("T", "U")) for k, v in _DNA_AMB.items())
_NUC_AMB = collections.OrderedDict([
    ("N", "ACGTU"), ("R", "AG"), ("Y", "CTU"), ("M", "AC"), ("W", "ATU"), ("S", "CG"), ("K", "GTU"),
    ("V", "ACG"), ("H", "ACTU"), ("D", "AGTU"), ("B", "CGTU")])
_PROT_FUND = "ACDEFGHIKLMNPQRSTVWY*"
_PROT_AMB = collections.OrderedDict([("B", "DN"), ("Z", "EQ"), ("X", _PROT_FUND)])

TYPES = collections.OrderedDict([
    ("dna", {"cls": "DnaCharacterMatrix", "fund": "ACGT", "amb": _DNA_AMB, "gap": "-", "missing": "?",
             "syn": {"X": "N"}, "nexus": "DNA", "nexml": "Dna", "targets": ("nexus", "phylip", "fasta", "nexml")}),
    ("rna", {"cls": "RnaCharacterMatrix", "fund": "ACGU", "amb": _RNA_AMB, "gap": "-", "missing": "?",
             "syn": {"X": "N"}, "nexus": "RNA", "nexml": "Rna", "targets": ("nexus", "phylip", "fasta", "nexml")}),
    ("nucleotide", {"cls": "NucleotideCharacterMatrix", "fund": "ACGTU", "amb": _NUC_AMB, "gap": "-", "missing": "?",
                    "syn": {"X": "N"}, "nexus": "NUCLEOTIDE", "nexml": None, "targets": ("nexus", "phylip", "fasta")}),
    ("protein", {"cls": "ProteinCharacterMatrix", "fund": _PROT_FUND, "amb": _PROT_AMB, "gap": "-", "missing": "?",
                 "syn": {}, "nexus": "PROTEIN", "nexml": "Protein", "targets": ("nexus", "phylip", "fasta", "nexml")}),
    ("standard", {"cls": "StandardCharacterMatrix", "fund": "0123456789", "amb": {}, "gap": "-", "missing": "?",
                  "syn": {}, "nexus": "STANDARD", "nexml": "Standard", "targets": ("nexus", "phylip", "fasta", "nexml")}),
    ("restriction", {"cls": "RestrictionSitesCharacterMatrix", "fund": "01", "amb": {}, "gap": None, "missing": None,
                     "syn": {}, "nexus": None, "nexml": "Restriction", "targets": ("nexus", "phylip", "fasta", "nexml")}),
    ("infinite", {"cls": "InfiniteSitesCharacterMatrix", "fund": "01", "amb": {}, "gap": None, "missing": None,
                  "syn": {}, "nexus": None, "nexml": None, "targets": ("nexus", "phylip", "fasta", "nexml")}),
    ("continuous", {"cls": "ContinuousCharacterMatrix", "fund": None, "targets": ("nexus", "phylip", "nexml"),
                    "nexus": "CONTINUOUS", "nexml": "Continuous"}),
])
CONT_VALUES = [0.0, -1.25, 1e10, 2e-5, 3.0, 1.0 / 3]     # DESIGN values plus one non-terminating fraction (exposes rounding)


def alphabet(dtype):
    """The type's full symbol set, simplest first."""
    t = TYPES[dtype]
    if dtype == "continuous":
        return list(CONT_VALUES)
    out = list(t["fund"])
    if t["gap"]:
        out.append(t["gap"])
    if t["missing"]:
        out.append(t["missing"])
    out.extend(t["amb"].keys())
    return out


def input_synonyms(dtype):
    """Extra admissible input spellings: lower case and declared synonyms -> canonical."""
    t = TYPES[dtype]
    if dtype == "continuous":
        return {}
    out = {}
    for s in list(t["fund"]) + list(t["amb"].keys()):
        if s.lower() != s:
            out[s.lower()] = s
    for k, v in t["syn"].items():
        out[k] = v          # (the lower-case spelling of a synonym is not accepted by the library: not an input)
    return out


def sym_class(dtype, cell):
    if isinstance(cell, float):
        return "continuous-value"
    t = TYPES[dtype]
    if len(cell) > 1:
        return "multistate-token"
    if cell == t["gap"]:
        return "gap"
    if cell == t["missing"]:
        return "missing"
    if cell in t["amb"]:
        return "ambiguity-code"
    return "fundamental"


def canonical(dtype, cell):
    """What a cell given as input text must come back as."""
    if dtype == "continuous":
        return float(cell)
    t = TYPES[dtype]
    if len(cell) == 1:
        if cell in t["fund"] or cell == t["gap"] or cell == t["missing"] or cell in t["amb"]:
            return cell
        u = cell.upper()
        u = t["syn"].get(u, u)
        assert u in t["fund"] or u in t["amb"], (dtype, cell)
        return u
    kind, members = cell[0], frozenset(cell[1:-1])
    if kind == "{":
        for k, v in t["amb"].items():
            if frozenset(v) == members:
                return k
        return "{" + "".join(sorted(members)) + "}"
    return "(" + "".join(sorted(members)) + ")"


def observe_cell(v):
    if v is None:
        return "<None>"
    if isinstance(v, (int, float)) and not isinstance(v, bool):
        return float(v)
    d = getattr(v, "__dict__", {})
    if "_symbol" not in d:
        return "<%s %r>" % (type(v).__name__, v)
    if d["_symbol"]:
        return d["_symbol"]
    ms = d.get("_member_states")
    if ms is None:
        return "<state without symbol>"
    fund = set()
    stack = list(ms)
    while stack:
        s = stack.pop()
        if s._member_states is None:
            fund.add(s._symbol)
        else:
            stack.extend(s._member_states)
    body = "".join(sorted(str(x) for x in fund))
    return ("{%s}" if d.get("_state_denomination") == 1 else "(%s)") % body


def observe_matrix(m):
    labels, rows = [], []
    for taxon in m:
        labels.append(taxon._label)
        seq = m._taxon_sequence_map[taxon]
        rows.append([observe_cell(v) for v in seq._character_values])
    return labels, rows


# ---------------------------------------------------------------------------
# target format variants: name -> (schema, writer kwargs, reader kwargs)

VARIANTS = collections.OrderedDict([
    ("nexus", ("nexus", {}, {})),
    ("nexus-simple", ("nexus", {"simple": True}, {})),
    ("phylip-relaxed", ("phylip", {"strict": False}, {"strict": False, "interleaved": False})),
    ("phylip-relaxed-il", ("phylip", {"strict": False}, {"strict": False, "interleaved": True})),
    ("phylip-relaxed-ms", ("phylip", {"strict": False}, {"strict": False, "multispace_delimiter": True})),
    ("phylip-strict", ("phylip", {"strict": True}, {"strict": True, "interleaved": False})),
    ("phylip-strict-il", ("phylip", {"strict": True}, {"strict": True, "interleaved": True})),
    ("phylip-relaxed-nomissing", ("phylip", {"strict": False, "suppress_missing_taxa": True}, {"strict": False})),
    ("fasta", ("fasta", {}, {})),
    ("fasta-nowrap", ("fasta", {"wrap": False}, {})),
    ("nexml", ("nexml", {}, {})),
    ("nexml-seqs", ("nexml", {"markup_as_sequences": True}, {})),
])
MAIN_VARIANTS = ["nexus", "nexus-simple", "phylip-relaxed", "phylip-relaxed-il", "phylip-strict", "phylip-strict-il",
                 "fasta", "fasta-nowrap", "nexml", "nexml-seqs"]


def variants_for(dtype, names=None):
    out = []
    for v in (names or MAIN_VARIANTS):
        if VARIANTS[v][0] in TYPES[dtype]["targets"]:
            out.append(v)
    return out


# ---------------------------------------------------------------------------
# harness-written source documents ("parsed from <format>" routes)

def _join(dtype, cells):
    if dtype == "continuous":
        return " ".join(repr(float(x)) for x in cells)
    return "".join(cells)


def _pages(row, width):
    return [row[i:i + width] for i in range(0, len(row), width)]


def doc_nexus(dtype, labels, rows, style):
    t = TYPES[dtype]
    r, c = len(rows), len(rows[0])
    fmt = "DATATYPE=%s" % t["nexus"]
    if dtype == "continuous":
        fmt += " ITEMS=(STATES)"
    else:
        fmt += " MISSING=? GAP=-"
    if dtype == "standard":
        fmt += ' SYMBOLS="0123456789"'
    out = ["#NEXUS", ""]
    if style != "data":
        out += ["BEGIN TAXA;", "  DIMENSIONS NTAX=%d;" % r, "  TAXLABELS %s;" % " ".join(labels), "END;", "",
                "BEGIN CHARACTERS;", "  DIMENSIONS NCHAR=%d;" % c]
    else:
        out += ["BEGIN DATA;", "  DIMENSIONS NTAX=%d NCHAR=%d;" % (r, c)]
    if style == "interleaved":
        fmt += " INTERLEAVE"
    out += ["  FORMAT %s;" % fmt, "  MATRIX"]
    if style == "interleaved":
        npages = (c + 1) // 2
        for p in range(npages):
            for l, row in zip(labels, rows):
                out.append("    %s   %s" % (l, _join(dtype, _pages(row, 2)[p])))
            out.append("")
    else:
        for l, row in zip(labels, rows):
            out.append("    %s   %s" % (l, _join(dtype, row)))
    out += ["  ;", "END;", ""]
    return "\n".join(out)


def doc_phylip(dtype, labels, rows, strict, style):
    r, c = len(rows), len(rows[0])

    def lab(l):
        return l.ljust(10) if strict else l + "  "
    out = ["%d %d" % (r, c)]
    if style == "sequential":
        for l, row in zip(labels, rows):
            out.append(lab(l) + _join(dtype, row))
    elif style == "wrapped":          # sequential, every sequence broken over lines of 2 cells
        for l, row in zip(labels, rows):
            pg = _pages(row, 2)
            out.append(lab(l) + _join(dtype, pg[0]))
            for p in pg[1:]:
                out.append(_join(dtype, p))
    else:                             # interleaved pages of 2 cells, labels on the first page only
        npages = (c + 1) // 2
        for p in range(npages):
            for l, row in zip(labels, rows):
                chunk = _join(dtype, _pages(row, 2)[p])
                out.append((lab(l) + chunk) if p == 0 else chunk)
            out.append("")
    return "\n".join(out) + "\n"


def doc_fasta(dtype, labels, rows, width):
    out = []
    for l, row in zip(labels, rows):
        out.append(">" + l)
        for p in _pages(row, width):
            out.append(_join(dtype, p))
        out.append("")
    return "\n".join(out) + "\n"


def doc_nexml(dtype, labels, rows, seqs):
    """NeXML with an explicit <char> per column (the shape of the library's fixtures)."""
    t = TYPES[dtype]
    c = len(rows[0])
    out = ['<?xml version="1.0" encoding="ISO-8859-1"?>',
           '<nex:nexml version="0.9" xmlns:nex="http://www.nexml.org/2009" xmlns="http://www.nexml.org/2009" '
           'xmlns:xsi="http://www.w3.org/2001/XMLSchema-instance">',
           ' <otus id="tax">']
    for i, l in enumerate(labels):
        out.append('  <otu id="t%d" label="%s"/>' % (i, l))
    out.append(' </otus>')
    out.append(' <characters id="cm" otus="tax" xsi:type="nex:%s%s">' % (t["nexml"], "Seqs" if seqs else "Cells"))
    out.append('  <format>')
    sid = {}
    if dtype != "continuous":
        out.append('   <states id="sa">')
        fund = list(t["fund"]) + ([t["gap"]] if t["gap"] else [])
        for s in fund:
            sid[s] = "s%d" % len(sid)
            out.append('    <state id="%s" symbol="%s"/>' % (sid[s], s))
        amb = list(t["amb"].items())
        if t["missing"]:
            amb = [(t["missing"], "".join(fund))] + amb
        for s, members in amb:
            sid[s] = "s%d" % len(sid)
            out.append('    <uncertain_state_set id="%s" symbol="%s">' % (sid[s], s))
            for mm in members:
                out.append('     <member state="%s"/>' % sid[mm])
            out.append('    </uncertain_state_set>')
        out.append('   </states>')
    for j in range(c):
        out.append('   <char id="c%d"%s/>' % (j, ' states="sa"' if dtype != "continuous" else ""))
    out.append('  </format>')
    out.append('  <matrix>')
    for i, row in enumerate(rows):
        out.append('   <row id="r%d" otu="t%d">' % (i, i))
        if seqs:
            sep = " " if dtype in ("standard", "continuous") else ""
            out.append('    <seq>%s</seq>' % sep.join(repr(float(x)) if dtype == "continuous" else x for x in row))
        else:
            for j, x in enumerate(row):
                st = repr(float(x)) if dtype == "continuous" else sid[x]
                out.append('    <cell char="c%d" state="%s"/>' % (j, st))
        out.append('   </row>')
    out += ['  </matrix>', ' </characters>', '</nex:nexml>', '']
    return "\n".join(out)


PARSE_ROUTES = collections.OrderedDict([
    # name -> (schema, reader kwargs, document builder, minimum columns, formats' base name)
    ("parse:nexus", ("nexus", {}, lambda d, l, r: doc_nexus(d, l, r, "sequential"), 1)),
    ("parse:nexus-interleaved", ("nexus", {}, lambda d, l, r: doc_nexus(d, l, r, "interleaved"), 2)),
    ("parse:nexus-data", ("nexus", {}, lambda d, l, r: doc_nexus(d, l, r, "data"), 1)),
    ("parse:phylip-relaxed", ("phylip", {"strict": False}, lambda d, l, r: doc_phylip(d, l, r, False, "sequential"), 1)),
    ("parse:phylip-relaxed-wrapped", ("phylip", {"strict": False}, lambda d, l, r: doc_phylip(d, l, r, False, "wrapped"), 3)),
    ("parse:phylip-relaxed-interleaved", ("phylip", {"strict": False, "interleaved": True},
                                          lambda d, l, r: doc_phylip(d, l, r, False, "interleaved"), 2)),
    ("parse:phylip-strict", ("phylip", {"strict": True}, lambda d, l, r: doc_phylip(d, l, r, True, "sequential"), 1)),
    ("parse:phylip-strict-interleaved", ("phylip", {"strict": True, "interleaved": True},
                                         lambda d, l, r: doc_phylip(d, l, r, True, "interleaved"), 2)),
    ("parse:fasta", ("fasta", {}, lambda d, l, r: doc_fasta(d, l, r, 2), 1)),
    ("parse:nexml-cells", ("nexml", {}, lambda d, l, r: doc_nexml(d, l, r, False), 1)),
    ("parse:nexml-seqs", ("nexml", {}, lambda d, l, r: doc_nexml(d, l, r, True), 1)),
])
API_ROUTES = ["dict", "dict-permuted", "concat", "export", "copy", "copy-new-namespace"]


def route_available(route, dtype, ncols, nsconf):
    if route in PARSE_ROUTES:
        schema, _, _, minc = PARSE_ROUTES[route]
        if schema not in TYPES[dtype]["targets"]:
            return False
        if schema == "nexus" and TYPES[dtype]["nexus"] is None:
            return False      # no DATATYPE keyword exists for it; the NEXUS target case already shows this
        if schema == "nexml" and TYPES[dtype]["nexml"] is None:
            return False
        return ncols >= minc and nsconf == "exact"
    if route == "concat":
        return ncols >= 2 and nsconf == "exact"
    return True


def route_source_format(route):
    return PARSE_ROUTES[route][0] if route in PARSE_ROUTES else "api"


# ---------------------------------------------------------------------------
# building the matrix under test

EXTRA = "unused"


def _cls(dtype):
    return getattr(dendropy, TYPES[dtype]["cls"])


def _value(dtype, row):
    if dtype == "continuous":
        return [float(x) for x in row]
    return "".join(row)


def build_matrix(case):
    """Returns the dendropy matrix for the case descriptor."""
    if case["route"] == "history":
        return build_with_history(case)
    dtype, labels, rows = case["dtype"], case["labels"], case["rows"]
    route, nsconf = case["route"], case.get("nsconf", "exact")
    cls = _cls(dtype)
    if route in PARSE_ROUTES:
        schema, rkw, builder, _ = PARSE_ROUTES[route]
        return cls.get(data=builder(dtype, labels, rows), schema=schema, **rkw)
    ns = dendropy.TaxonNamespace()
    if nsconf == "extra-first":
        ns.add_taxon(dendropy.Taxon(label=EXTRA))
    for l in labels:
        ns.add_taxon(dendropy.Taxon(label=l))
    if nsconf == "extra-last":
        ns.add_taxon(dendropy.Taxon(label=EXTRA))

    def from_rows(rws, order=None):
        idx = list(range(len(labels))) if order is None else order
        d = collections.OrderedDict((labels[i], _value(dtype, rws[i])) for i in idx)
        return cls.from_dict(d, taxon_namespace=ns, case_sensitive_taxon_labels=True)
    if route == "dict":
        return from_rows(rows)
    if route == "dict-permuted":
        n = len(labels)
        return from_rows(rows, list(reversed(range(n))))
    if route == "copy":
        return cls(from_rows(rows))
    if route == "copy-new-namespace":
        return cls(from_rows(rows), taxon_namespace=dendropy.TaxonNamespace())
    if route == "concat":
        k = len(rows[0]) // 2
        m1 = from_rows([r[:k] for r in rows])
        m2 = from_rows([r[k:] for r in rows])
        return cls.concatenate([m1, m2])
    if route == "export":
        junk = alphabet(dtype)[0]
        wide = []
        for r in rows:
            w = [junk]
            for x in r:
                w.extend([x, junk])
            wide.append(w)
        m = from_rows(wide)
        return m.export_character_indices([2 * j + 1 for j in range(len(rows[0]))])
    raise ValueError("unknown route %r" % route)


def expected_of(case):
    dtype = case["dtype"]
    rows = [list(r) for r in case["rows"]]
    if case.get("edit", "none") != "none":
        v, w = edit_values(dtype)
        for r in rows:
            model_edit(case["edit"], r, v, w)
    return list(case["labels"]), [[canonical(dtype, x) for x in row] for row in rows]


# -- use history: a matrix (or its source) is rendered / written first, then derived, then edited ---------------

USES = ["none", "str", "symbols_as_string", "symbols_as_list", "values", "write:nexus", "write:phylip", "write:fasta",
        "write:nexml"]
DERIVATIONS = ["none", "export", "export-subset", "concat", "copy", "deepcopy", "scoped-copy", "del", "del-slice"]
EDITS = ["none", "append", "extend", "setitem", "insert", "delitem", "del-slice", "set_at"]
HISTORY_TARGETS = ["nexus", "phylip-relaxed", "phylip-strict", "fasta", "nexml", "nexml-seqs"]


def edit_values(dtype):
    a = alphabet(dtype)
    return a[-1], a[1 % len(a)]


def model_edit(edit, row, v, w):
    """The reference semantics of the list-like mutators, on a plain list."""
    if edit == "append":
        row.append(v)
    elif edit == "extend":
        row.extend([v, w])
    elif edit == "setitem":
        row[0] = v
    elif edit == "insert":
        row.insert(1, v)
    elif edit == "delitem":
        del row[0]
    elif edit == "del-slice":
        del row[0:2]
    elif edit == "set_at":
        row[len(row) - 1] = w
    else:
        raise ValueError(edit)


def _apply_use(m, use):
    if use == "none":
        return
    if use.startswith("write:"):
        try:
            m.as_string(schema=use.split(":")[1])
        except Exception:
            pass                      # the type may not be writable in that format: then it simply was not used
        return
    for taxon in m:
        seq = m[taxon]
        if use == "str":
            str(seq)
        elif use == "symbols_as_string":
            seq.symbols_as_string()
            seq.symbols_as_string(sep=" ")
        elif use == "symbols_as_list":
            seq.symbols_as_list()
        elif use == "values":
            list(seq.values())
            list(iter(seq))


def build_with_history(case):
    """use the source -> derive -> edit the derived matrix's sequences; returns the derived matrix."""
    dtype, labels, rows = case["dtype"], case["labels"], case["rows"]
    use, derive, edit = case["use"], case["derive"], case.get("edit", "none")
    cls = _cls(dtype)
    junk = alphabet(dtype)[0]
    ns = dendropy.TaxonNamespace()
    for l in labels:
        ns.add_taxon(dendropy.Taxon(label=l))

    def from_rows(rws):
        d = collections.OrderedDict((l, _value(dtype, r)) for l, r in zip(labels, rws))
        return cls.from_dict(d, taxon_namespace=ns, case_sensitive_taxon_labels=True)
    ncols = len(rows[0])
    if derive in ("export", "export-subset"):
        src = from_rows([[junk] + [y for x in r for y in (x, junk)] for r in rows])
        _apply_use(src, use)
        idx = [2 * j + 1 for j in range(ncols)]
        if derive == "export":
            m = src.export_character_indices(idx)
        else:
            src.new_character_subset(label="part", character_indices=idx)
            m = src.export_character_subset("part")
    elif derive == "concat":
        k = ncols // 2
        m1, m2 = from_rows([r[:k] for r in rows]), from_rows([r[k:] for r in rows])
        _apply_use(m1, use)
        _apply_use(m2, use)
        m = cls.concatenate([m1, m2])
    elif derive in ("del", "del-slice"):
        n = 1 if derive == "del" else 2
        m = from_rows([[junk] * n + list(r) for r in rows])
        _apply_use(m, use)
        for taxon in m:
            if derive == "del":
                del m[taxon][0]
            else:
                del m[taxon][0:2]
    else:
        src = from_rows(rows)
        _apply_use(src, use)
        if derive == "none":
            m = src
        elif derive == "copy":
            m = cls(src)
        elif derive == "deepcopy":
            import copy
            m = copy.deepcopy(src)
        elif derive == "scoped-copy":
            m = src.clone(1)
        else:
            raise ValueError(derive)
    if derive != "none":
        _apply_use(m, use if edit != "none" else "none")     # the derived matrix is used too before it is edited
    if edit != "none":
        v, w = edit_values(dtype)
        if dtype != "continuous":
            sa = m.default_state_alphabet
            if edit in ("append", "extend", "setitem", "insert", "set_at"):
                # take the state objects from a cell of the matrix's own alphabet family
                v, w = sa[v], sa[w]
        for taxon in m:
            seq = m[taxon]
            if edit == "append":
                seq.append(v)
            elif edit == "extend":
                seq.extend([v, w])
            elif edit == "setitem":
                seq[0] = v
            elif edit == "insert":
                seq.insert(1, v)
            elif edit == "delitem":
                del seq[0]
            elif edit == "del-slice":
                del seq[0:2]
            elif edit == "set_at":
                seq.set_at(len(seq) - 1, w)
    return m


# ---------------------------------------------------------------------------
# oracle

def where(exc):
    """innermost dendropy function an exception came from (call-site level, no line numbers)"""
    name = "?"
    for fs in traceback.extract_tb(exc.__traceback__):
        if "dendropy" in fs.filename and "/verif/" not in fs.filename:
            name = fs.name
    return "%s@%s" % (type(exc).__name__, name)


def diff_rows(dtype, exp, obs, tolerate_label=None):
    """None when equal, else (kind, message)."""
    el, er = exp
    ol, orows = list(obs[0]), list(obs[1])
    if tolerate_label is not None:
        keep = [i for i in range(len(ol)) if not (ol[i] == tolerate_label and len(orows[i]) == 0)]
        ol, orows = [ol[i] for i in keep], [orows[i] for i in keep]
    if any(c == "<None>" for r in orows for c in r):
        return "rows-padded-with-None", "rows come back padded with None: %s (expected %s)" % (_show(ol, orows), _show(el, er))
    if ol != el:
        if sorted(ol) == sorted(el):
            kind = "taxon-order"
        elif set(ol) < set(el):
            kind = "taxa-lost"
        elif set(ol) > set(el):
            kind = "taxa-added"
        else:
            kind = "taxon-labels-changed"
        return kind, "taxa read back %r, written %r" % (ol, el)
    for l, a, b in zip(el, er, orows):
        if len(a) != len(b):
            return "sequence-length", "taxon %r: %d states written, %d read back (%s vs %s)" % (l, len(a), len(b), _cells(a), _cells(b))
        for j, (x, y) in enumerate(zip(a, b)):
            if x != y or type(x) is not type(y):
                return ("state-changed|%s" % sym_class(dtype, x),
                        "taxon %r position %d: wrote %r, read back %r (row %s -> %s)" % (l, j, x, y, _cells(a), _cells(b)))
    return None


def _cells(r):
    return " ".join(str(x) for x in r)


def _show(labels, rows):
    return "; ".join("%s: %s" % (l, _cells(r)) for l, r in zip(labels, rows))


def _global_alphabets():
    from dendropy.datamodel import charstatemodel as csm
    return [getattr(csm, n) for n in ("DNA_STATE_ALPHABET", "RNA_STATE_ALPHABET", "NUCLEOTIDE_STATE_ALPHABET",
                                      "PROTEIN_STATE_ALPHABET", "BINARY_STATE_ALPHABET",
                                      "RESTRICTION_SITES_STATE_ALPHABET", "INFINITE_SITES_STATE_ALPHABET")]


def _alphabet_state():
    return [(list(a._fundamental_states), list(a._ambiguous_states), list(a._polymorphic_states))
            for a in _global_alphabets()]


def _alphabet_restore(saved):
    """The fixed alphabets are process-wide singletons; a case must not leak into the next one
    (the enumeration has to be independent of the order in which cases are run)."""
    changed = False
    for a, (f, am, po) in zip(_global_alphabets(), saved):
        if (len(a._fundamental_states), len(a._ambiguous_states), len(a._polymorphic_states)) != (len(f), len(am), len(po)):
            a._fundamental_states[:] = f
            a._ambiguous_states[:] = am
            a._polymorphic_states[:] = po
            a.compile_lookup_mappings()
            changed = True
    return changed


def run_isolated(case):
    """All findings [(signature core, message)] of one round trip; the process-wide alphabets are
    put back afterwards so that cases cannot influence each other."""
    saved = _alphabet_state()
    try:
        with warnings.catch_warnings():
            warnings.simplefilter("ignore")
            if case.get("after") is not None:
                # history case: first build the `after` matrix (a parse), then do the round trip in the same process state
                try:
                    build_matrix(case["after"])
                except Exception:
                    pass
            return _round_trip(case)
    finally:
        _alphabet_restore(saved)


def _round_trip(case):
    dtype, variant = case["dtype"], case["target"]
    schema, wkw, rkw = VARIANTS[variant]
    exp = expected_of(case)
    saved = _alphabet_state()
    try:
        m = build_matrix(case)
    except Exception as e:
        return [("route|%s|raises|%s" % (case["route"], where(e)), "building the matrix by %s raised %r" % (case["route"], e))]
    out = []
    if _alphabet_state() != saved:
        out.append(("route|parse-%s|global-state-alphabet-modified" % route_source_format(case["route"]),
                    "building a %s matrix by %s added states to the process-wide %s alphabet" % (dtype, case["route"], dtype)))
    d = diff_rows(dtype, exp, observe_matrix(m))
    if d is not None:
        return out + [("route|%s|%s" % (case["route"], d[0]),
                       "matrix built by %s differs from its specification: %s" % (case["route"], d[1]))]
    try:
        text = m.as_string(schema=schema, **wkw)
    except Exception as e:
        return out + [("%s|write-raises|%s" % (schema, where(e)), "writing %s as %s raised %r" % (dtype, variant, e))]
    try:
        m2 = _cls(dtype).get(data=text, schema=schema, **rkw)
    except Exception as e:
        return out + [("%s|read-raises|%s" % (schema, where(e)),
                       "reading back the %s %s text raised %r; text:\n%s" % (dtype, variant, e, text[:1500]))]
    if m2.data_type != dtype:
        return out + [("%s|data-type-changed" % schema, "read back as %r, written %r" % (m2.data_type, dtype))]
    tol = EXTRA if case.get("nsconf", "exact") != "exact" else None
    d = diff_rows(dtype, exp, observe_matrix(m2), tol)
    if d is not None:
        out.append(("%s|%s" % (schema, d[0]), "%s via %s -> %s: %s" % (dtype, case["route"], variant, d[1])))
    return out


# layers whose subject is a *difference* to a baseline case enumerated elsewhere: only what the
# baseline does not already show is reported (so one defect keeps one signature)
def baseline_of(case):
    layer = case.get("layer")
    if layer == "after-multistate-parse":
        c = dict(case)
        c.pop("after")
        c.pop("layer")
        return c
    if layer == "unsequenced-taxon":
        c = dict(case, nsconf="exact")
        c.pop("layer")
        return c
    if layer == "after-use":
        # drop one factor at a time; every level is itself enumerated and judged against the next one
        if case["use"] != "none":
            return dict(case, use="none")
        if case.get("edit", "none") != "none":
            return dict(case, edit="none")
        plain = {"export": "export", "export-subset": "export", "copy": "copy", "concat": "concat"}.get(case["derive"], "dict")
        return {"kind": "rt", "dtype": case["dtype"], "labels": case["labels"], "rows": case["rows"], "route": plain,
                "target": case["target"]}
    if layer == "label":
        labs = list(case["labels"])
        labs[case.get("label_pos", 0)] = "xy"
        c = dict(case, labels=labs)
        c.pop("layer")
        return c
    return None


def check_rt(case, ctx):
    """One round trip; records violations; returns 'ok' or the first finding's kind."""
    found = run_isolated(case)
    layer = case.get("layer")
    base = baseline_of(case)
    if base is not None and found:
        known = set(sig for sig, _ in run_isolated(base))
        found = [(sig, msg) for sig, msg in found if sig not in known]
    for sig, msg in found:
        if layer == "after-use":
            step = case["edit"] if case.get("edit", "none") != "none" else case["derive"]
            ctx.violation("after-use|%s|%s|%s" % (case["use"], step, sig), msg, case)
        elif sig.startswith("route|"):
            ctx.violation(sig, msg, case)
        elif layer == "label":
            ctx.violation("label|%s|%s" % (sig, _culprit(case, sig)), msg, case)
        elif layer == "unsequenced-taxon":
            # one writer decision shows up at many reader call sites: keep the class, drop the site
            parts = sig.split("|")
            ctx.violation("unsequenced-taxon|%s" % "|".join(parts[:2]), msg, case)
        elif layer:
            ctx.violation("%s|%s" % (layer, sig), msg, case)
        else:
            ctx.violation(sig, msg, case)
    return found[0][0] if found else "ok"


# -- label layer: attribute a failure to the smallest culprit ----------------

def char_class(c):
    if c.isalnum() and ord(c) < 128:
        return "alnum"
    if ord(c) > 127:
        return "non-ascii"
    return {"'": "single-quote", '"': "xml-markup-character", ";": "semicolon", "&": "xml-markup-character",
            "<": "xml-markup-character", "\\": "backslash", "\t": "tab", " ": "space", "_": "underscore",
            "[": "bracket", "]": "bracket", "(": "parenthesis", ")": "parenthesis", "{": "brace", "}": "brace",
            ",": "comma", ":": "colon", "=": "equals"}.get(c, "other-punctuation")


def _culprit(case, sig):
    pos = case.get("label_pos", 0)
    label = case["labels"][pos]
    specials = [c for c in label if char_class(c) != "alnum"]
    classes = []
    for c in specials:
        k = char_class(c)
        if k not in classes:
            classes.append(k)
    if len(classes) <= 1:
        return classes[0] if classes else "alnum"
    # does one of the special characters alone (as x<c>y) fail the same way?
    for c in specials:
        labs = list(case["labels"])
        labs[pos] = "x%sy" % c
        if any(s == sig for s, _ in run_isolated(dict(case, labels=labs))):
            return char_class(c)
    return "+".join(sorted(classes))


# ---------------------------------------------------------------------------
# enumeration of matrix contents

SIMPLE_LABELS = ["a", "b", "c", "d", "e"]


def cyclic(dtype, r, c, offset, alpha=None):
    a = alpha or alphabet(dtype)
    return [[a[(offset + i * c + j) % len(a)] for j in range(c)] for i in range(r)]


LABEL_SETS = collections.OrderedDict([
    # name -> (labels, variants allowed or None = all)
    ("numeric-reversed", (["2", "1", "3"], None)),
    ("underscore-case", (["A_b", "a_c", "x_Y"], None)),
    ("ten-chars", (["abcdefghi1", "abcdefghi2", "Abcdefghi3"], None)),
    ("long", (["a_rather_long_label_1", "a_rather_long_label_2", "z"],
              ["nexus", "nexus-simple", "phylip-relaxed", "phylip-relaxed-il", "fasta", "fasta-nowrap", "nexml", "nexml-seqs"])),
    ("inner-space", (["t 1", "t 2", "u  v"],
                     ["nexus", "nexus-simple", "phylip-strict", "phylip-strict-il", "fasta", "fasta-nowrap", "nexml", "nexml-seqs"])),
    ("inner-space-multispace-reader", (["t 1", "t 2", "uv"], ["phylip-relaxed-ms"])),
    ("symbol-like", (["ACGT", "N", "01"], None)),
    # interior non-blank whitespace is not a delimiter of relaxed PHYLIP (only blank and TAB are)
    ("unicode-space", (["a\u00a0b", "a\u2009b", "a\u3000b"], ["phylip-relaxed", "phylip-relaxed-il", "phylip-relaxed-nomissing"])),
    ("unicode-control", (["\u00e9", "a\u001fb", "z"], ["phylip-relaxed", "phylip-relaxed-il", "phylip-relaxed-nomissing"])),
])

MULTISTATE_ROWS = {
    "dna": [["A", "{AC}", "(AC)"], ["{ACGT}", "{CT}", "(ACGT)"], ["{A-}", "(CG)", "T"]],
    "protein": [["A", "{DN}", "(AC)"], ["{EQ}", "{AC}", "*"], ["(DE)", "K", "{KR}"]],
    "standard": [["0", "{01}", "(01)"], ["(012)", "{12}", "2"], ["{0-}", "9", "(89)"]],
}


def bounds(tier):
    every = list(TYPES)
    if tier == "quick":
        return {"max_rows": 3, "max_cols": 3, "fill_offsets": "every alphabet offset, every route",
                "all_tuples": {"1x2": every, "2x1": every, "2x2-diagonal": every,
                               "1x3": ["dna", "standard", "restriction", "infinite", "continuous"],
                               "3x1": ["restriction", "infinite", "continuous"]},
                "long_lengths": [69, 70, 71, 141], "dataset_namespaces": [1, 2, 3],
                "label_forms": ["c", "xc", "cx", "xcy", "cc", "xccy", "x c1 c2 y for all ordered pairs of special characters"],
                "format_variants": list(VARIANTS), "routes": API_ROUTES + list(PARSE_ROUTES)}
    return {"max_rows": 5, "max_cols": 5, "fill_offsets": "every alphabet offset, every route",
            "all_tuples": {"1x2": every, "2x1": every, "2x2-diagonal": every, "1x3": every, "3x1": every,
                           "1x4": ["dna", "standard", "restriction", "infinite", "continuous"]},
            "long_lengths": [57, 58, 59, 69, 70, 71, 116, 117, 139, 140, 141, 211], "dataset_namespaces": [1, 2, 3],
            "label_forms": ["c", "xc", "cx", "xcy", "cc", "xccy", "x c1 c2 y for all ordered pairs of special characters",
                            "x c1 c2 c3 y for all ordered triples of " + repr("".join(TRIPLE_CHARS))],
            "format_variants": list(VARIANTS), "routes": API_ROUTES + list(PARSE_ROUTES)}


TRIPLE_CHARS = ["'", '"', "_", " ", "[", "]", ";", ",", ":", "=", "\\", "(", "-"]


def chunks(tier):
    b = bounds(tier)
    out = []
    for dtype in TYPES:
        n = len(alphabet(dtype))
        out.append({"kind": "cells", "dtype": dtype, "shape": "1x1", "lo": 0, "hi": n, "tier": tier})
        for shape, types in b["all_tuples"].items():
            if dtype not in types:
                continue
            arity = 2 if shape == "2x2-diagonal" else max(int(z) for z in shape.split("x"))
            step = max(1, 150 // (n ** (arity - 1)))
            for lo in range(0, n, step):
                ch = {"kind": "cells", "dtype": dtype, "shape": shape, "lo": lo, "hi": min(n, lo + step), "tier": tier}
                if n ** (arity - 1) > 1000:       # keep work units small: also fix the second symbol
                    out.extend(dict(ch, second=j) for j in range(n))
                else:
                    out.append(ch)
        for r in range(1, b["max_rows"] + 1):
            for c in range(1, b["max_cols"] + 1):
                out.append({"kind": "fills", "dtype": dtype, "r": r, "c": c, "routes": "api", "tier": tier})
                out.append({"kind": "fills", "dtype": dtype, "r": r, "c": c, "routes": "parse", "tier": tier})
        out.append({"kind": "long", "dtype": dtype, "tier": tier})
        out.append({"kind": "labelsets", "dtype": dtype, "tier": tier})
        out.append({"kind": "ragged", "dtype": dtype, "tier": tier})
        out.append({"kind": "nsconf", "dtype": dtype, "tier": tier})
        for use in USES:
            out.append({"kind": "history", "dtype": dtype, "use": use, "tier": tier})
        if dtype in MULTISTATE_ROWS:
            out.append({"kind": "multistate", "dtype": dtype, "tier": tier})
    for dtype in CR_DTYPES:
        out.append({"kind": "concat-ragged", "dtype": dtype, "tier": tier})
    out.append({"kind": "fasta-continuous-probe", "tier": tier})
    chars = label_chars()
    for lo in range(0, len(chars), 10):
        out.append({"kind": "labels1", "lo": lo, "hi": min(len(chars), lo + 10), "tier": tier})
    sp = special_chars()
    for i in range(len(sp)):
        out.append({"kind": "labels2", "i": i, "tier": tier})
    if tier != "quick":
        for i in range(len(TRIPLE_CHARS)):
            for j in range(len(TRIPLE_CHARS)):
                out.append({"kind": "labels3", "i": i, "j": j, "tier": tier})
    nseq = len(dsx_sequences())
    for lo in range(0, nseq, 12):
        out.append({"kind": "datasets-subsets", "lo": lo, "hi": min(nseq, lo + 12), "tier": tier})
    for k in b["dataset_namespaces"]:
        pats = list(itertools.product(range(len(DS_PATTERNS)), repeat=k))
        step = 5
        for lo in range(0, len(pats), step):
            out.append({"kind": "datasets", "k": k, "lo": lo, "hi": min(len(pats), lo + step), "tier": tier})
    return out


def _rt(case, ctx):
    key = (case["dtype"], case["route"], case["target"], case.get("nsconf", "exact"), case.get("layer", "matrix"),
           tuple(case["labels"]), tuple(tuple(r) for r in case["rows"]),
           case.get("use"), case.get("derive"), case.get("edit"))
    ctx.case(key)
    out = check_rt(case, ctx)
    ctx.count("round_trips")
    ctx.count("target|" + case["target"])
    ctx.count("pair|%s->%s" % (route_source_format(case["route"]), VARIANTS[case["target"]][0]))
    ctx.count("type|" + case["dtype"])
    if out != "ok":
        ctx.count("round_trips_failed")
    return out


def gen_cells(chunk):
    dtype, shape = chunk["dtype"], chunk["shape"]
    a = alphabet(dtype)
    vs = variants_for(dtype)
    if shape == "1x1":
        items = [[[x]] for x in a]
        if dtype != "continuous":
            items += [[[x]] for x in sorted(input_synonyms(dtype))]
        else:
            items += [[[x]] for x in (0, 3, -7)]     # integers given where floats are expected
        labels = SIMPLE_LABELS[:1]
        for rows in items:
            for v in vs:
                yield {"kind": "rt", "dtype": dtype, "labels": labels, "rows": rows, "route": "dict", "target": v}
        return
    for x in a[chunk["lo"]:chunk["hi"]]:
        if shape == "2x2-diagonal":      # x, y on the diagonal, the first symbol elsewhere
            combos = [[[x, a[0]], [a[0], y]] for y in a]
        else:
            r, c = (int(z) for z in shape.split("x"))
            k = max(r, c)
            assert min(r, c) == 1
            combos = []
            pools = [a] * (k - 1)
            if "second" in chunk:
                pools[0] = [a[chunk["second"]]]
            for rest in itertools.product(*pools):
                cells = [x] + list(rest)
                combos.append([cells] if r == 1 else [[z] for z in cells])
        for rows in combos:
            for v in vs:
                yield {"kind": "rt", "dtype": dtype, "labels": SIMPLE_LABELS[:len(rows)], "rows": rows, "route": "dict",
                       "target": v}


def gen_fills(chunk):
    dtype, r, c = chunk["dtype"], chunk["r"], chunk["c"]
    n = len(alphabet(dtype))
    labels = SIMPLE_LABELS[:r]
    vs = variants_for(dtype)
    if chunk["routes"] == "api":
        routes = API_ROUTES
    else:
        routes = list(PARSE_ROUTES)
    for route in routes:
        if not route_available(route, dtype, c, "exact"):
            continue
        for off in range(n):
            rows = cyclic(dtype, r, c, off)
            for v in vs:
                yield {"kind": "rt", "dtype": dtype, "labels": labels, "rows": rows, "route": route, "target": v}


def gen_long(chunk):
    dtype = chunk["dtype"]
    b = bounds(chunk["tier"])
    for L in b["long_lengths"]:
        rows = cyclic(dtype, 2, L, 1)
        for route in ("dict", "concat"):
            for v in variants_for(dtype):
                yield {"kind": "rt", "dtype": dtype, "labels": SIMPLE_LABELS[:2], "rows": rows, "route": route, "target": v}


def gen_history(chunk):
    dtype, use = chunk["dtype"], chunk["use"]
    rows = cyclic(dtype, 2, 4, 1)
    for derive in DERIVATIONS:
        for edit in EDITS:
            if use == "none" and edit == "none" and derive in ("none", "export", "concat", "copy"):
                continue              # these are the plain routes of the fills layer
            for v in variants_for(dtype, HISTORY_TARGETS):
                yield {"kind": "rt", "layer": "after-use", "dtype": dtype, "labels": SIMPLE_LABELS[:2], "rows": rows,
                       "route": "history", "use": use, "derive": derive, "edit": edit, "target": v}


RAGGED = [(1, 2), (2, 1), (3, 1, 2), (1, 3, 3)]


def gen_ragged(chunk):
    """Rows of unequal length: only for the formats that can express them (FASTA, NeXML)."""
    dtype = chunk["dtype"]
    a = alphabet(dtype)
    for lens in RAGGED:
        for off in (0, len(a) // 2):
            rows, k = [], off
            for L in lens:
                rows.append([a[(k + j) % len(a)] for j in range(L)])
                k += L
            for route in ("dict", "copy", "parse:fasta"):
                if route == "parse:fasta" and "fasta" not in TYPES[dtype]["targets"]:
                    continue
                for v in variants_for(dtype, ["fasta", "fasta-nowrap", "nexml", "nexml-seqs"]):
                    yield {"kind": "rt", "dtype": dtype, "labels": SIMPLE_LABELS[:len(lens)], "rows": rows,
                           "route": route, "target": v}


def gen_labelsets(chunk):
    dtype = chunk["dtype"]
    rows = cyclic(dtype, 3, 2, 0)
    for name, (labels, allowed) in LABEL_SETS.items():
        names = allowed if allowed is not None else MAIN_VARIANTS
        for v in variants_for(dtype, names):
            for route in ("dict", "copy"):
                yield {"kind": "rt", "dtype": dtype, "labels": labels, "rows": rows, "route": route, "target": v,
                       "labelset": name}


def gen_nsconf(chunk):
    dtype = chunk["dtype"]
    for r, c in ((1, 2), (2, 2), (3, 1)):
        rows = cyclic(dtype, r, c, 0)
        for nsconf in ("extra-first", "extra-last"):
            for route in ("dict", "dict-permuted", "copy", "export"):
                for v in variants_for(dtype, MAIN_VARIANTS + ["phylip-relaxed-nomissing"]):
                    yield {"kind": "rt", "layer": "unsequenced-taxon", "dtype": dtype, "labels": SIMPLE_LABELS[:r],
                           "rows": rows, "route": route, "target": v, "nsconf": nsconf}


def gen_multistate(chunk):
    dtype = chunk["dtype"]
    full = MULTISTATE_ROWS[dtype]
    mats = [full, full[:1], full[1:], [[row[1]] for row in full], [[row[2]] for row in full], [[full[0][1]]], [[full[0][2]]]]
    for rows in mats:
        for route in ("parse:nexus", "parse:nexus-interleaved", "parse:nexus-data"):
            if not route_available(route, dtype, len(rows[0]), "exact"):
                continue
            for v in ("nexus", "nexus-simple", "nexml", "nexml-seqs"):
                yield {"kind": "rt", "dtype": dtype, "labels": SIMPLE_LABELS[:len(rows)], "rows": rows, "route": route,
                       "target": v}
    # history: an ordinary matrix written after a document with multistate tokens was parsed in the same process
    pre = {"dtype": dtype, "labels": SIMPLE_LABELS[:3], "rows": full, "route": "parse:nexus"}
    for r, c in ((1, 1), (2, 2)):
        for v in variants_for(dtype):
            yield {"kind": "rt", "layer": "after-multistate-parse", "dtype": dtype, "labels": SIMPLE_LABELS[:r],
                   "rows": cyclic(dtype, r, c, 0), "route": "dict", "target": v, "after": pre}


# -- labels ------------------------------------------------------------------

def label_chars():
    return [chr(i) for i in range(32, 127)] + ["\t", "é", "ß", "日"]


def special_chars():
    return [c for c in label_chars() if char_class(c) not in ("alnum", "non-ascii") and c != "\t"] + ["\t"]


def admissible(label, others):
    if not label or label != label.strip():
        return False
    return all(label.lower() != o.lower() for o in others)


LABEL_TARGETS = [("dna", "nexus"), ("dna", "nexus-simple"), ("dna", "nexml-seqs"), ("continuous", "nexml")]


def label_cases(label):
    other = "zz"
    if not admissible(label, [other]):
        return
    for dtype, v in LABEL_TARGETS:
        rows = cyclic(dtype, 2, 2, 0)
        yield {"kind": "rt", "layer": "label", "dtype": dtype, "labels": [label, other], "rows": rows, "route": "dict",
               "target": v}
        yield {"kind": "rt", "layer": "label", "dtype": dtype, "labels": [other, label], "rows": rows, "route": "dict",
               "target": v, "label_pos": 1}


def gen_labels1(chunk):
    for c in label_chars()[chunk["lo"]:chunk["hi"]]:
        for form in ("%s", "x%s", "%sx", "x%sy", "%s%s", "x%s%sy"):
            label = form % ((c,) * form.count("%s"))
            for case in label_cases(label):
                yield case


def gen_labels2(chunk):
    sp = special_chars()
    c1 = sp[chunk["i"]]
    for c2 in sp:
        if c2 == c1:
            continue
        for case in label_cases("x%s%sy" % (c1, c2)):
            yield case


def gen_labels3(chunk):
    c1, c2 = TRIPLE_CHARS[chunk["i"]], TRIPLE_CHARS[chunk["j"]]
    for c3 in TRIPLE_CHARS:
        for case in label_cases("x%s%s%sy" % (c1, c2, c3)):
            yield case


# ---------------------------------------------------------------------------
# data sets

DS_PATTERNS = [[], ["T"], ["D"], ["T", "D"], ["D", "C"], ["T", "S", "C", "T"]]
DS_LABELS = [["a", "b", "c"], ["b", "c", "d"], ["c", "a"]]
DS_NSLABELS = {"none": [None, None, None], "distinct": ["first", "second", "third"], "same": ["taxa", "taxa", "taxa"],
               "special": ["my taxa", "it's", "a_b"]}
DS_MODES = [("nexus", None), ("nexus", False), ("nexml", "n/a"), ("nexus>nexml", None), ("nexml>nexus", None)]
DS_TYPE = {"D": "dna", "S": "standard", "C": "continuous"}


def ds_spec(pats, nslabels, order):
    """Plain-Python description of the data set: namespaces and items in the order they are added."""
    nss = [{"label": DS_NSLABELS[nslabels][i], "taxa": DS_LABELS[i]} for i in range(len(pats))]
    items = []
    idx = list(range(len(pats)))
    if order == "reversed":
        idx.reverse()
    for i in idx:
        labels = DS_LABELS[i]
        for n, code in enumerate(DS_PATTERNS[pats[i]]):
            if code == "T":
                if len(labels) == 3:
                    trees = ["((%s,%s),%s);" % (labels[n % 3], labels[(n + 1) % 3], labels[(n + 2) % 3]),
                             "(%s,%s,%s);" % tuple(labels)][:1 + (n > 0)]
                else:
                    trees = ["(%s,%s);" % tuple(labels)]
                items.append({"what": "trees", "ns": i, "newick": trees,
                              "leafsets": [sorted(labels) for _ in trees]})
            else:
                dtype = DS_TYPE[code]
                rows = cyclic(dtype, len(labels), 2, i + n)
                items.append({"what": "matrix", "ns": i, "dtype": dtype, "labels": labels, "rows": rows})
    return nss, items


def build_dataset(nss, items):
    ds = dendropy.DataSet()
    lib_ns = []
    for n in nss:
        tns = ds.new_taxon_namespace(label=n["label"])
        for l in n["taxa"]:
            tns.add_taxon(dendropy.Taxon(label=l))
        lib_ns.append(tns)
    for it in items:
        tns = lib_ns[it["ns"]]
        if it["what"] == "trees":
            tl = ds.new_tree_list(taxon_namespace=tns)
            for k, nw in enumerate(it["newick"]):
                tree = _tree_from_newick(nw, tns)
                if it.get("lengths"):
                    _set_lengths(tree, it["lengths"][k])
                tl.append(tree)
        else:
            ds.add_char_matrix(_build_ds_matrix(it, tns))
    return ds


def _build_ds_matrix(it, tns):
    cls = _cls(it["dtype"])

    def from_cols(lo, hi):
        d = collections.OrderedDict((l, _value(it["dtype"], r[lo:hi])) for l, r in zip(it["labels"], it["rows"]))
        return cls.from_dict(d, taxon_namespace=tns, case_sensitive_taxon_labels=True)
    origin = it.get("origin", "plain")
    ncols = len(it["rows"][0])
    if origin == "plain":
        return from_cols(0, ncols)
    if origin == "new":
        m = from_cols(0, ncols)
        for label, idx in it["subsets"]:
            m.new_character_subset(label=label, character_indices=list(idx))
        return m
    if origin == "concat":          # the subsets are the (contiguous) parts, named locus000, locus001, ...
        return cls.concatenate([from_cols(idx[0], idx[-1] + 1) for _, idx in it["subsets"]])
    if origin == "parsed":          # harness-written NEXUS with a SETS block, read into the data set's namespace
        return cls.get(data=doc_nexus_sets(it["dtype"], it["labels"], it["rows"], it["subsets"]), schema="nexus",
                       taxon_namespace=tns)
    raise ValueError(origin)


def _ranges(idx):
    """1-based NEXUS position list of a sorted 0-based index list."""
    out, i = [], 0
    while i < len(idx):
        j = i
        while j + 1 < len(idx) and idx[j + 1] == idx[j] + 1:
            j += 1
        out.append("%d" % (idx[i] + 1) if i == j else "%d-%d" % (idx[i] + 1, idx[j] + 1))
        i = j + 1
    return " ".join(out)


def doc_nexus_sets(dtype, labels, rows, subsets):
    doc = doc_nexus(dtype, labels, rows, "sequential")
    lines = ["BEGIN SETS;"]
    for label, idx in subsets:
        lines.append("  CHARSET %s = %s;" % (("'%s'" % label) if "_" in label else label, _ranges(idx)))
    lines += ["END;", ""]
    return doc + "\n".join(lines)


def _set_lengths(tree, spec):
    """spec = {"leaf": {label: length}, "internal": [lengths of non-root internal edges in preorder]}"""
    internal = list(spec["internal"])
    stack = [tree._seed_node]
    while stack:
        nd = stack.pop()
        stack.extend(reversed(nd._child_nodes))
        if nd is tree._seed_node:
            continue
        if nd._child_nodes:
            nd.edge.length = internal.pop(0)
        else:
            nd.edge.length = spec["leaf"][nd.taxon._label]


def _observe_lengths(tree):
    leaf, internal = {}, []
    stack = [tree._seed_node]
    while stack:
        nd = stack.pop()
        stack.extend(reversed(nd._child_nodes))
        if nd is tree._seed_node:
            continue
        if nd._child_nodes:
            internal.append(nd.edge.length)
        else:
            leaf[nd.taxon._label if nd.taxon is not None else None] = nd.edge.length
    return {"leaf": leaf, "internal": sorted(internal, key=repr)}


def observe_subsets(m):
    out = []
    for key in m.character_subsets:
        cs = m.character_subsets[key]
        out.append([cs.label, sorted(cs.character_indices)])
    return sorted(out)


def _tree_from_newick(nw, tns):
    """Tiny builder through the node API (the Newick parser is not under test here)."""
    tree = dendropy.Tree(taxon_namespace=tns)
    stack = [tree.seed_node]
    cur = None
    token = ""

    def flush():
        if token:
            for t in tns._taxa:
                if t._label == token:
                    cur_node = stack[-1].new_child()
                    cur_node.taxon = t
                    return
            raise ValueError(token)
    depth = 0
    for ch in nw:
        if ch == "(":
            if depth > 0:
                stack.append(stack[-1].new_child())
            depth += 1
        elif ch in ",);":
            flush()
            token = ""
            if ch == ")":
                depth -= 1
                if depth > 0:
                    stack.pop()
        else:
            token += ch
    tree.is_rooted = True
    return tree


def check_dataset(case, ctx):
    """case["schema"] is one schema or a chain "nexus>nexml": the data set is converted step by step and
    compared with its specification after every step; the first failing step is reported."""
    if case["kind"] == "dsx":
        nss, items = dsx_spec(case["items"], case["nsassign"])
    else:
        nss, items = ds_spec(case["patterns"], case["nslabels"], case["order"])
    with warnings.catch_warnings():
        warnings.simplefilter("ignore")
        try:
            ds = build_dataset(nss, items)
        except Exception as e:
            ctx.violation("dataset|build-raises|%s" % where(e), "building the data set raised %r" % (e,), case)
            return "build-raises"
        built = _compare_dataset(ds, nss, items, "api", "dataset|as-built", case, ctx)
        if built != "ok":
            return built
        prev = None
        for schema in case["schema"].split(">"):
            kw = {}
            tag = "dataset|%s" % schema
            if schema == "nexus":
                kw["suppress_block_titles"] = case["suppress_block_titles"]
                tag += "|suppress_block_titles=%s" % case["suppress_block_titles"]
            if prev:
                tag += "|read-from-%s" % prev
            try:
                text = ds.as_string(schema=schema, **kw)
            except Exception as e:
                ctx.violation("%s|write-raises|%s" % (tag, where(e)), "writing the data set raised %r" % (e,), case)
                return "write-raises"
            try:
                ds = dendropy.DataSet.get(data=text, schema=schema)
            except Exception as e:
                many = "several-namespaces" if len(nss) > 1 else "one-namespace"
                if where(e).endswith("@_get_char_matrix"):
                    # a SETS block that cannot be tied to its matrix: independent of titles and namespaces
                    ctx.violation("dataset|%s|sets-block|read-raises|%s" % (schema, where(e)),
                                  "reading the data set back raised %r; text:\n%s" % (e, text[:2500]), case)
                    return "read-raises"
                ctx.violation("%s|read-raises|%s|%s" % (tag, where(e), many),
                              "reading the data set back raised %r; text:\n%s" % (e, text[:2500]), case)
                return "read-raises"
            out = _compare_dataset(ds, nss, items, schema, tag, case, ctx)
            if out != "ok":
                return out
            if case["kind"] == "dsx":
                out = _check_matrix_offsets(text, schema, nss, items, tag, case, ctx)
                if out != "ok":
                    return out
            prev = schema
    return "ok"


def _check_matrix_offsets(text, schema, nss, items, tag, case, ctx):
    """<Type>CharacterMatrix.get(matrix_offset=j) on the same text = the j-th matrix of the data set."""
    bad = 0
    for j, it in enumerate(x for x in items if x["what"] == "matrix"):
        try:
            m = _cls(it["dtype"]).get(data=text, schema=schema, matrix_offset=j)
        except Exception as e:
            if len(nss) > 1:
                # <Type>CharacterMatrix.get reads the whole source into ONE namespace; a source with several
                # TAXA blocks is outside that call's domain (observed and counted, not judged)
                ctx.count("observed|matrix.get-on-source-with-several-namespaces-raises")
                continue
            ctx.violation("%s|matrix_offset|read-raises|%s" % (tag, where(e)),
                          "%s.get(matrix_offset=%d) raised %r; text:\n%s" % (TYPES[it["dtype"]]["cls"], j, e, text[:2500]), case)
            bad += 1
            continue
        exp = (list(it["labels"]), [[canonical(it["dtype"], x) for x in r] for r in it["rows"]])
        d = diff_rows(it["dtype"], exp, observe_matrix(m))
        if d is not None:
            ctx.violation("%s|matrix_offset|%s" % (tag, d[0]), "matrix_offset=%d (%s): %s" % (j, it["dtype"], d[1]), case)
            bad += 1
        want = sorted([l, sorted(i)] for l, i in it.get("subsets", []))
        if observe_subsets(m) != want:
            if want and not observe_subsets(m):
                ctx.count("observed|character-subsets-not-carried-by-format")   # see _compare_dataset
            else:
                ctx.violation("%s|matrix_offset|character-subsets" % tag, "matrix_offset=%d: character subsets %r, written %r" % (
                    j, observe_subsets(m), want), case)
                bad += 1
    return "ok" if not bad else "differs"


def _compare_dataset(ds2, nss, items, schema, tag, case, ctx):
    bad = 0
    # namespaces: same number, same labels in the same order
    got_ns = [[t._label for t in tns._taxa] for tns in ds2.taxon_namespaces]
    want_ns = [n["taxa"] for n in nss]
    if got_ns != want_ns:
        ctx.violation("%s|namespaces-differ" % tag, "namespaces read back %r, written %r" % (got_ns, want_ns), case)
        return "namespaces-differ"
    want_trees = [it for it in items if it["what"] == "trees"]
    want_mats = [it for it in items if it["what"] == "matrix"]
    if len(ds2.tree_lists) != len(want_trees) or len(ds2.char_matrices) != len(want_mats):
        ctx.violation("%s|block-count" % tag, "%d tree lists and %d matrices read back, %d and %d written" % (
            len(ds2.tree_lists), len(ds2.char_matrices), len(want_trees), len(want_mats)), case)
        return "block-count"
    for j, (it, tl) in enumerate(zip(want_trees, ds2.tree_lists)):
        k = _ns_index(ds2, tl.taxon_namespace)
        if k != it["ns"]:
            ctx.violation("%s|tree-list-on-wrong-namespace" % tag, "tree list %d written on namespace %d is attached to %r" % (j, it["ns"], k), case)
            bad += 1
            continue
        if len(tl._trees) != len(it["newick"]):
            ctx.violation("%s|tree-count" % tag, "tree list %d: %d trees, written %d" % (j, len(tl._trees), len(it["newick"])), case)
            bad += 1
            continue
        for tree, leaves in zip(tl._trees, it["leafsets"]):
            got, foreign = [], False
            stack = [tree._seed_node]
            while stack:
                nd = stack.pop()
                stack.extend(nd._child_nodes)
                if not nd._child_nodes:
                    got.append(nd.taxon._label if nd.taxon is not None else None)
                    if nd.taxon is not None and not any(nd.taxon is t for t in tl.taxon_namespace._taxa):
                        foreign = True
            if sorted(got, key=str) != leaves or foreign or tree.taxon_namespace is not tl.taxon_namespace:
                ctx.violation("%s|tree-taxa" % tag, "tree list %d: leaves %r (foreign taxon: %s), written %r" % (j, got, foreign, leaves), case)
                bad += 1
        if it.get("lengths"):
            for tree, spec in zip(tl._trees, it["lengths"]):
                want_l = {"leaf": dict(spec["leaf"]), "internal": sorted(spec["internal"], key=repr)}
                got_l = _observe_lengths(tree)
                if got_l != want_l:
                    ctx.violation("%s|tree-edge-lengths" % tag, "tree list %d: edge lengths %r, written %r" % (j, got_l, want_l), case)
                    bad += 1
    for j, (it, m) in enumerate(zip(want_mats, ds2.char_matrices)):
        if m.data_type != it["dtype"]:
            ctx.violation("%s|matrix-order-or-type" % tag, "matrix %d is %r, written %r" % (j, m.data_type, it["dtype"]), case)
            bad += 1
            continue
        k = _ns_index(ds2, m.taxon_namespace)
        if k != it["ns"]:
            ctx.violation("%s|matrix-on-wrong-namespace" % tag, "matrix %d written on namespace %d is attached to %r" % (j, it["ns"], k), case)
            bad += 1
            continue
        if any(not any(t is u for u in m.taxon_namespace._taxa) for t in m._taxon_sequence_map):
            ctx.violation("%s|matrix-foreign-taxon" % tag, "matrix %d has a row whose taxon is not a member of its namespace" % j, case)
            bad += 1
        exp = (list(it["labels"]), [[canonical(it["dtype"], x) for x in r] for r in it["rows"]])
        d = diff_rows(it["dtype"], exp, observe_matrix(m))
        if d is not None:
            # same defect classes as the single-matrix layer: same signatures
            ctx.violation("%s|%s" % (schema, d[0]), "data set matrix %d (%s): %s" % (j, it["dtype"], d[1]), case)
            bad += 1
        want = sorted([l, sorted(i)] for l, i in it.get("subsets", []))
        if observe_subsets(m) != want:
            lost = "lost" if want and not observe_subsets(m) else "differ"
            if lost == "lost":
                # The statement lists taxa, order and states; a target format that does not carry
                # character subsets at all (the NeXML writer) is a feature gap, not a changed cell:
                # counted, not deciding.  Subsets that come back DIFFERENT are deciding.
                ctx.count("observed|%s|character-subsets-not-carried-by-format" % schema)
            else:
                ctx.violation("%s|character-subsets-%s" % (tag, lost), "matrix %d (%s): character subsets %r, written %r" % (
                    j, it["dtype"], observe_subsets(m), want), case)
                bad += 1
    return "ok" if not bad else "differs"


def _ns_index(ds, tns):
    for i, t in enumerate(ds.taxon_namespaces):
        if t is tns:
            return i
    return None


# -- data sets whose matrices carry character subsets, next to blocks full of '-' and exponents -------------

DSX_KINDS = ["Dsub-new", "Dsub-concat", "Dsub-parsed", "Csub-new", "C", "G", "T"]
DSX_SUB = set(k for k in DSX_KINDS if "sub" in k)
DSX_VALUES = [-1.25, 2e-5, 1e10, -3.0]
DSX_NSASSIGN = ["one", "alternate", "last-other"]
DSX_MODES = [("nexus", None), ("nexus", False), ("nexml", "n/a")]


def dsx_spec(kinds, nsassign):
    k = len(kinds)
    if nsassign == "one":
        assign = [0] * k
    elif nsassign == "alternate":
        assign = [i % 2 for i in range(k)]
    else:
        assign = [0] * (k - 1) + [1]
    nss = [{"label": None, "taxa": DS_LABELS[i]} for i in range(max(assign) + 1)]
    items = []
    for n, (kind, i) in enumerate(zip(kinds, assign)):
        labels = DS_LABELS[i]
        if kind == "T":
            x, y, z = labels[n % 3], labels[(n + 1) % 3], labels[(n + 2) % 3]
            items.append({"what": "trees", "ns": i, "newick": ["((%s,%s),%s);" % (x, y, z)], "leafsets": [sorted(labels)],
                          "lengths": [{"leaf": {x: -1.25, y: 2e-5, z: 3.5}, "internal": [1e22]}]})
        elif kind == "C":
            items.append({"what": "matrix", "ns": i, "dtype": "continuous", "labels": labels,
                          "rows": cyclic("continuous", 3, 2, n, DSX_VALUES)})
        elif kind == "G":
            items.append({"what": "matrix", "ns": i, "dtype": "dna", "labels": labels,
                          "rows": cyclic("dna", 3, 3, n, ["A", "-", "C", "-", "G", "T", "-"])})
        elif kind == "Csub-new":
            items.append({"what": "matrix", "ns": i, "dtype": "continuous", "labels": labels, "origin": "new",
                          "rows": cyclic("continuous", 3, 3, n, DSX_VALUES), "subsets": [["first", [0, 1]], ["last_one", [2]]]})
        else:
            origin = kind.split("-")[1]
            if origin == "concat":
                subsets = [["locus000", [0, 1]], ["locus001", [2, 3]]]
            else:
                subsets = [["first", [0, 1]], ["odd_ones", [0, 2, 3]], ["one", [1]]]
            items.append({"what": "matrix", "ns": i, "dtype": "dna", "labels": labels, "origin": origin,
                          "rows": cyclic("dna", 3, 4, n, ["A", "C", "G", "T", "N"]), "subsets": subsets})
    return nss, items


def dsx_sequences():
    out = []
    for k in (2, 3):
        for seq in itertools.product(DSX_KINDS, repeat=k):
            if any(x in DSX_SUB for x in seq):
                out.append(list(seq))
    return out


def gen_dsx(chunk):
    for seq in dsx_sequences()[chunk["lo"]:chunk["hi"]]:
        for nsassign in DSX_NSASSIGN:
            if nsassign == "last-other" and len(seq) == 2:
                continue          # same as "alternate"
            for schema, sbt in DSX_MODES:
                yield {"kind": "dsx", "items": seq, "nsassign": nsassign, "schema": schema, "suppress_block_titles": sbt}


def gen_datasets(chunk):
    k = chunk["k"]
    pats = list(itertools.product(range(len(DS_PATTERNS)), repeat=k))[chunk["lo"]:chunk["hi"]]
    for p in pats:
        for nslabels in DS_NSLABELS:
            for order in ("by-namespace", "reversed"):
                if order == "reversed" and k == 1:
                    continue
                for schema, sbt in DS_MODES:
                    yield {"kind": "ds", "patterns": list(p), "nslabels": nslabels, "order": order, "schema": schema,
                           "suppress_block_titles": sbt}


# ---------------------------------------------------------------------------
# concatenation of ragged sources

CR_DTYPES = ["dna", "standard", "continuous"]
CR_ROUTES = ["concatenate", "concatenate_from_streams", "concatenate_from_paths"]


def cr_patterns():
    out = []
    for r in (2, 3):
        for lens in itertools.product(range(4), repeat=r):
            if max(lens) > 0:
                out.append(list(lens))
    return out


def cr_class(lens):
    if len(set(lens)) == 1:
        return "aligned"
    if lens[0] == max(lens):
        return "first-row-longest"
    return "other-ragged"


def cr_sources(case):
    """[(rows per taxon)] for every source: the ragged one at case['position'], aligned ones (width 2) elsewhere."""
    dtype, lens = case["dtype"], case["lens"]
    a = alphabet(dtype)
    srcs, k = [], 0
    for i in range(case["nsources"]):
        rows = []
        for t in range(len(lens)):
            n = lens[t] if i == case["position"] else 2
            rows.append([a[(k + j) % len(a)] for j in range(n)])
            k += max(n, 1)
        srcs.append(rows)
    return srcs


def check_concat_ragged(case, ctx):
    """The library may refuse (ValueError: not a verdict).  A matrix it does return must (1) hold, per taxon, the
    source rows one after the other, (2) record every source as a character subset whose columns ARE that source
    ('Component parts will be recorded as character subsets'), (3) survive every format able to hold its shape."""
    dtype, lens, route = case["dtype"], case["lens"], case["route"]
    labels = SIMPLE_LABELS[:len(lens)]
    cls = _cls(dtype)
    srcs = cr_sources(case)
    tag = "route|%s-ragged:%s" % (route if route != "concatenate" else "concatenate", cr_class(lens))
    tmpdir = None
    saved = _alphabet_state()
    try:
        with warnings.catch_warnings():
            warnings.simplefilter("ignore")
            try:
                if route == "concatenate":
                    ns = dendropy.TaxonNamespace()
                    for l in labels:
                        ns.add_taxon(dendropy.Taxon(label=l))
                    mats = []
                    for rows in srcs:
                        d = collections.OrderedDict((l, _value(dtype, r)) for l, r in zip(labels, rows))
                        mats.append(cls.from_dict(d, taxon_namespace=ns, case_sensitive_taxon_labels=True))
                    m = cls.concatenate(mats)
                else:
                    docs = [doc_fasta(dtype, labels, rows, 70) for rows in srcs]
                    if route == "concatenate_from_streams":
                        import io
                        m = cls.concatenate_from_streams([io.StringIO(d) for d in docs], schema="fasta")
                    else:
                        import os
                        import tempfile
                        tmpdir = tempfile.mkdtemp(prefix="verif-c09-")
                        paths = []
                        for i, d in enumerate(docs):
                            paths.append(os.path.join(tmpdir, "s%d.fasta" % i))
                            with open(paths[-1], "w") as f:
                                f.write(d)
                        m = cls.concatenate_from_paths(paths, schema="fasta")
            except ValueError:
                ctx.count("concat_ragged|refused|" + cr_class(lens))
                return "refused"
            except Exception as e:
                ctx.violation("%s|raises|%s" % (tag, where(e)), "%s of %r-length rows raised %r" % (route, lens, e), case)
                return "raises"
            ctx.count("concat_ragged|returned|" + cr_class(lens))
            bad = 0
            ol, orows = observe_matrix(m)
            # (1) per taxon: the source rows one after the other
            want = [[canonical(dtype, x) for rows in srcs for x in rows[t]] for t in range(len(lens))]
            d = diff_rows(dtype, (labels, want), (ol, orows))
            if d is not None:
                ctx.violation("%s|%s" % (tag, d[0]), "%s: %s" % (route, d[1]), case)
                return d[0]
            # (2) every recorded part is that part
            subsets = [[cs.label, sorted(cs.character_indices)] for cs in (m.character_subsets[k] for k in m.character_subsets)]
            if len(subsets) != len(srcs):
                ctx.violation("%s|locus-subsets-missing" % tag, "%d sources, subsets %r" % (len(srcs), subsets), case)
                bad += 1
            else:
                for i, ((label, idx), rows) in enumerate(zip(subsets, srcs)):
                    got = [[r[j] for j in idx if j < len(r)] for r in orows]
                    exp = [[canonical(dtype, x) for x in r] for r in rows]
                    if got != exp:
                        ctx.violation("%s|locus-subset-differs-from-source" % tag,
                                      "%s: the columns recorded as %r %r hold %s, the source was %s (matrix: %s)" % (
                                          route, label, idx, _show(labels, got), _show(labels, exp), _show(ol, orows)), case)
                        bad += 1
                        break
            # (3) round trip through every format able to hold the shape
            rl = [len(r) for r in orows]
            if min(rl) == 0:
                names = ["nexml", "nexml-seqs"]
            elif len(set(rl)) > 1:
                names = ["fasta", "fasta-nowrap", "nexml", "nexml-seqs"]      # same rule as ragged from_dict matrices
            else:
                names = MAIN_VARIANTS
            aligned = cr_class(lens) == "aligned"
            for v in variants_for(dtype, names):
                ctx.count("concat_ragged|round_trips")
                found = write_read(m, dtype, (ol, orows), v)
                if found and not aligned and not case.get("_baseline"):
                    # what an aligned concatenation of the same type shows as well is not about raggedness
                    base = dict(case, lens=[2] * len(lens), _baseline=True)
                    known = set(sig for sig, _ in _cr_baseline(base, v))
                    found = [(sig, msg) for sig, msg in found if sig not in known]
                for sig, msg in found:
                    # an aligned concatenation is the ordinary route: ordinary signature
                    ctx.violation(sig if aligned else "%s|%s" % (tag, sig), "%s -> %s" % (route, msg), case)
                    bad += 1
            return "ok" if not bad else "differs"
    finally:
        _alphabet_restore(saved)
        if tmpdir is not None:
            import shutil
            shutil.rmtree(tmpdir, ignore_errors=True)


def _cr_baseline(base, variant):
    class _Collect(object):
        def __init__(self):
            self.found = []

        def violation(self, sig, msg, case):
            self.found.append((sig, msg))

        def count(self, *a):
            pass
    c = _Collect()
    check_concat_ragged(base, c)
    schema = VARIANTS[variant][0]
    return [(sig, msg) for sig, msg in c.found if sig.startswith(schema + "|")]


def write_read(m, dtype, exp, variant):
    schema, wkw, rkw = VARIANTS[variant]
    try:
        text = m.as_string(schema=schema, **wkw)
    except Exception as e:
        return [("%s|write-raises|%s" % (schema, where(e)), "writing %s as %s raised %r" % (dtype, variant, e))]
    try:
        m2 = _cls(dtype).get(data=text, schema=schema, **rkw)
    except Exception as e:
        return [("%s|read-raises|%s" % (schema, where(e)),
                 "reading back the %s %s text raised %r; text:\n%s" % (dtype, variant, e, text[:1500]))]
    d = diff_rows(dtype, exp, observe_matrix(m2))
    if d is not None:
        return [("%s|%s" % (schema, d[0]), "%s -> %s: %s" % (dtype, variant, d[1]))]
    return []


def gen_concat_ragged(chunk):
    dtype = chunk["dtype"]
    for lens in cr_patterns():
        for route in CR_ROUTES:
            if route != "concatenate" and (min(lens) == 0 or "fasta" not in TYPES[dtype]["targets"]):
                continue          # FASTA cannot hold an empty sequence / continuous values
            shapes = [(2, 0), (2, 1)]
            if len(lens) == 2:
                shapes += [(3, 0), (3, 1), (3, 2)]
            for nsources, position in shapes:
                yield {"kind": "cr", "dtype": dtype, "lens": lens, "route": route, "nsources": nsources,
                       "position": position}


# ---------------------------------------------------------------------------

GENERATORS = {"cells": gen_cells, "fills": gen_fills, "long": gen_long, "labelsets": gen_labelsets, "ragged": gen_ragged,
              "nsconf": gen_nsconf, "multistate": gen_multistate, "history": gen_history, "labels1": gen_labels1, "labels2": gen_labels2,
              "labels3": gen_labels3}


def run_chunk(chunk, ctx):
    kind = chunk["kind"]
    if kind == "datasets":
        for case in gen_datasets(chunk):
            ctx.case(("ds", tuple(case["patterns"]), case["nslabels"], case["order"], case["schema"], str(case["suppress_block_titles"])))
            out = check_dataset(case, ctx)
            ctx.count("datasets")
            ctx.count("datasets|%d-namespaces" % len(case["patterns"]))
            if out != "ok":
                ctx.count("datasets_failed")
            if case["patterns"] == [5, 3, 4][:len(case["patterns"])] and case["nslabels"] == "same":
                ctx.sample({"dataset": case}, 2)
        return None
    if kind == "concat-ragged":
        for case in gen_concat_ragged(chunk):
            ctx.case(("cr", case["dtype"], tuple(case["lens"]), case["route"], case["nsources"], case["position"]))
            check_concat_ragged(case, ctx)
            ctx.count("layer|concat-ragged")
            if case["lens"] == [3, 1] and case["position"] == 0 and case["nsources"] == 2:
                ctx.sample({"concat_ragged": case}, 1)
        return None
    if kind == "datasets-subsets":
        for case in gen_dsx(chunk):
            ctx.case(("dsx", tuple(case["items"]), case["nsassign"], case["schema"], str(case["suppress_block_titles"])))
            out = check_dataset(case, ctx)
            ctx.count("datasets_with_subsets")
            if out != "ok":
                ctx.count("datasets_with_subsets_failed")
            if case["items"] == ["Dsub-new", "C", "T"] and case["nsassign"] == "one":
                ctx.sample({"dataset_with_subsets": case}, 1)
        return None
    if kind == "fasta-continuous-probe":
        # FASTA has no value separator: counted as an observation, never a verdict (see ASSUMPTIONS)
        try:
            m = dendropy.ContinuousCharacterMatrix.from_dict({"a": [0.5, 1.5]})
            dendropy.ContinuousCharacterMatrix.get(data=m.as_string(schema="fasta"), schema="fasta")
            ctx.count("observed|fasta-continuous-readable")
        except Exception:
            ctx.count("observed|fasta-continuous-not-readable")
        return None
    n = 0
    for case in GENERATORS[kind](chunk):
        _rt(case, ctx)
        ctx.count("layer|" + kind)
        n += 1
        if n == 3:
            ctx.sample({"layer": kind, "case": case}, 1)
    return None


def replay(case, ctx):
    if case.get("kind") == "cr":
        check_concat_ragged(case, ctx)
    elif case.get("kind") in ("ds", "dsx"):
        check_dataset(case, ctx)
    else:
        check_rt(case, ctx)
