"""C03 - trees stay well-formed arborescences under every history of mutating
operations (DESIGN 3/C03).  Engine E2: explicit-state BFS over operation histories on
the real Tree/Node/Edge methods; state key = (rooting, ordered snapshot with lengths,
encoding status)."""
import itertools
import random

import dendropy
from dendropy.datamodel.treemodel import Node
from dendropy.utility import error as dperror

from mc import ref, build, hist, bipcheck
from mc import universe as U
from mc.budget import run_limited, budgeted

BIGLABELS = ["a", "b", "c", "d", "e", "f", "g", "h", "i", "j"]

ID = "C03"
LEVEL = "model_checking"
EXHAUSTIVE = True
RULE = ("explicit-state BFS: start states = every tree of U(n<=4) x rooting x length pattern x encoding "
        "{absent,current}; transitions = every public structure-changing Tree/Node/Edge method with every "
        "admissible target (node/edge/taxon subset/predicate) and every flag combination; all histories up to "
        "the tier depth with visited-state hashing on (rooting, ordered snapshot incl. lengths and labels, "
        "encoding status); a case = one transition; non-trivial = the source state has >= 3 leaves")
ASSUMPTIONS = [
    "states are merged on (is_rooted, ordered snapshot with taxa/labels/lengths, encoding status absent|current|stale); "
    "two live trees with the same key can differ only in *which* stale bipartitions they still carry",
    "arguments stay inside documented domains: internal nodes for reseed_at/reroot_at_node, internal non-seed "
    "edges for reroot_at_edge/Edge.collapse, non-seed nodes for to_outgroup_position/prune_subtree, taxon "
    "subsets that leave at least one leaf, midpoint rooting only on trees whose edges all carry lengths, "
    "add_child only with new or detached nodes",
    "documented refusals: SeedNodeDeletionException from filter_leaf_nodes when every leaf is rejected",
    "rng-taking operations are driven by random.Random(k) for every k in {0,1,2}",
]
MANIFEST = {
    "engine": "E2-HIST",
    "text": "Explicit-state model checking on the implementation: every operation history up to the tier depth from "
            "every small start tree is executed on the real methods; after every transition the arborescence "
            "invariant (from primitive parent/child/edge fields), traversal coverage, the leaf-taxon multiset rule "
            "and the update_bipartitions contract are checked; undocumented exceptions are violations.",
    "note": "state merging key as stated in assumptions; bounded depth; mc/ref.wellformed and mc/bipcheck are the oracles",
    "technique": "explicit-state BFS over operation histories on the real code, visited-state hashing, invariant checked in every state",
}

NEW_LABELS = ["x", "y", "z"]


BIG_STARTS = [
    (((((((0, 1), 2), 3), 4), 5), 6), 7),                 # ladder, 8 leaves
    (((0, 1), (2, 3)), ((4, 5), (6, 7))),                 # balanced, 8 leaves
    (0, 1, 2, 3, 4, 5, 6, 7),                             # star, 8 leaves
    ((0, 1, 2), ((3, 4), (5, (6, 7))), 8),                # mixed polytomies, 9 leaves
]


def bounds(tier):
    if tier == "quick":
        return {"max_start_leaves": 4, "depth": 2, "length_patterns": ["none", "unit"], "rng_seeds": [0, 1, 2], "max_leaves": 5,
                "large_starts_depth_1": [ref.to_newick(ref.mk(x, labels=BIGLABELS), False) for x in BIG_STARTS]}
    return {"max_start_leaves": 4, "depth": 2, "length_patterns": ["none", "unit", "mixed"], "rng_seeds": [0, 1, 2], "max_leaves": 5,
            "depth_3_from_starts_with_leaves_up_to": 3,
            "extra_starts": "binary U(5) + star, depth 2",
            "note": "depth 3 from all n<=4 starts (~45M transitions) did not finish in 96 min on the shared box; it is run from n<=3 starts"}


# ---------------------------------------------------------------------------
# live state

class Live(object):
    def __init__(self, start):
        n, si, rooted, lens, enc = start
        shape = _tup(si) if isinstance(si, (tuple, list)) else U.shapes(n)[si]
        if lens == "none":
            sn = ref.mk(shape, lens=None, labels=BIGLABELS)
        elif lens == "unit":
            sn = ref.mk(shape, lens=lambda i, leaf, depth: None if depth == 0 else 1.0, labels=BIGLABELS)
        else:
            sn = ref.mk(shape, lens=lambda i, leaf, depth: None if depth == 0 else [1.0, 2.0, 0.0, 0.5][i % 4], labels=BIGLABELS)
        labels = (U.LABELS[:n] if n <= len(U.LABELS) else BIGLABELS[:n])
        self.ns, self.bit = build.make_namespace(labels, "exact")
        self.tree = build.build_tree((rooted, sn), self.ns)
        self.enc = "absent"
        self.nextbit = n
        if enc:
            self.tree.encode_bipartitions(suppress_unifurcations=False, collapse_unrooted_basal_bifurcation=False)
            self.enc = "current"

    def nodes(self):
        out = []

        def rec(nd):
            out.append(nd)
            for c in nd._child_nodes:
                rec(c)
        rec(self.tree._seed_node)
        return out

    def key(self):
        return (self.tree._is_rooted, ref.snap_node(self.tree._seed_node), self.enc)

    def leaf_taxa(self):
        return sorted(l for l in ref.leaves(ref.snap_node(self.tree._seed_node)) if l is not None)


def rebuild(h):
    """h = (start, (op, op, ...)); replays the history without checking."""
    live = Live(h[0])
    for op in h[1]:
        advance(live, op)
    return live


def advance(live, op):
    """Apply op and maintain the harness-side encoding status.  Returns
    (exception|None, removed, added, encoding status before, encoding problems|None)."""
    before_enc = live.enc
    name = op[0]
    removed, added, exc, ep = [], [], None, None
    try:
        removed, added = apply_op(live, op)
    except Exception as e:
        exc = e
    if exc is not None:
        live.enc = "stale" if before_enc != "absent" else "absent"
        return exc, removed, added, before_enc, None
    ub = name in UB_INDEX and op[UB_INDEX[name]]
    if name in ENCODERS or ub:
        if ref.wellformed(live.tree):
            live.enc = "stale"
        else:
            ep = bipcheck.encoding_problems(live.tree, live.bit)
            live.enc = "stale" if ep else "current"
    elif name in NEUTRAL:
        pass
    elif before_enc != "absent":
        live.enc = "stale"
    return exc, removed, added, before_enc, ep


# ---------------------------------------------------------------------------
# operations

FLAGS2 = list(itertools.product((False, True), repeat=2))
FLAGS3 = list(itertools.product((False, True), repeat=3))


def enabled_ops(live, b):
    t = live.tree
    nodes = live.nodes()
    idx = {id(nd): i for i, nd in enumerate(nodes)}
    internal = [i for i, nd in enumerate(nodes) if nd._child_nodes]
    nonseed = [i for i, nd in enumerate(nodes) if nd._parent_node is not None]
    leaves = [i for i, nd in enumerate(nodes) if not nd._child_nodes]
    leaf_labels = sorted(set(nd.taxon._label for nd in nodes if not nd._child_nodes and nd.taxon is not None))
    ops = []
    for i in internal:
        for ub, cb, su in FLAGS3:
            ops.append(("reseed_at", i, ub, cb, su))
            ops.append(("reroot_at_node", i, ub, su, cb))
    # leaves as targets: the docstrings speak of an internal node, but the code has a branch for
    # leaves and "all choices of target node" quantifies over them too
    for i in leaves:
        if nodes[i]._parent_node is None:
            continue
        for ub, cb, su in FLAGS3:
            # the leaf becomes the seed: its taxon is then on an internal node by design, so the
            # leaf-taxon multiset is not judged for these targets; everything else is
            ops.append(("reseed_at", i, ub, cb, su, "leaf-target"))
            ops.append(("reroot_at_node", i, ub, su, cb, "leaf-target"))
    for i in internal:
        nd = nodes[i]
        if nd._parent_node is None:
            continue
        L = nd._edge.length
        lens = [(None, None)] if L is None else [(L / 2.0, L / 2.0), (0.0, L), (L, 0.0)]
        for l1, l2 in lens:
            for ub, su in FLAGS2:
                ops.append(("reroot_at_edge", i, l1, l2, ub, su))
    all_len = all(nd._edge.length is not None for nd in nodes if nd._parent_node is not None)
    ntax_leaves = [nd for nd in nodes if not nd._child_nodes]
    if all_len and len(ntax_leaves) >= 2 and all(nd.taxon is not None for nd in ntax_leaves) \
            and len(set(nd.taxon for nd in ntax_leaves)) == len(ntax_leaves) \
            and not any(len(nd._child_nodes) == 1 for nd in nodes):
        for ub, su, cb in FLAGS3:
            ops.append(("reroot_at_midpoint", ub, su, cb))
    for i in nonseed:
        for ub, su in FLAGS2:
            ops.append(("to_outgroup_position", i, ub, su))
            ops.append(("prune_subtree", i, ub, su))
    for k in (1, 2):
        for S in itertools.combinations(leaf_labels, k):
            if len(S) >= len(leaf_labels):
                continue
            for ub, su in FLAGS2:
                ops.append(("prune_taxa", S, ub, su))
                ops.append(("retain_taxa", S, ub, su))
            if k == 1:
                ops.append(("prune_taxa_with_labels", S))
                ops.append(("retain_taxa_with_labels", S))
    for x in leaf_labels:
        if len(leaf_labels) > 1:
            for rec in (True, False):
                for ub, su in FLAGS2:
                    ops.append(("filter_leaf_nodes", x, rec, ub, su))
    ops.append(("filter_leaf_nodes", None, True, False, True))  # rejects everything: documented refusal
    # calls that are asked to remove nothing (they may still restructure: suppression, re-encoding)
    for ub, su in FLAGS2:
        ops.append(("filter_leaf_nodes", "*", True, ub, su))
        if leaf_labels:  # domain: a pruning call must leave at least one leaf with a taxon
            ops.append(("prune_taxa", (), ub, su))
            ops.append(("retain_taxa", tuple(leaf_labels), ub, su))
    if leaf_labels:  # domain: a pruning call must leave at least one leaf
        for ub, su in FLAGS2:
            ops.append(("prune_leaves_without_taxa", ub, su))
    for ub in (False, True):
        ops.append(("collapse_unweighted_edges", None, ub))
        ops.append(("collapse_unweighted_edges", 1.0, ub))
        ops.append(("suppress_unifurcations", ub))
        for seed in (None,) + tuple(b["rng_seeds"][:2]):
            ops.append(("resolve_polytomies", seed, ub))
    for s in (True, False):
        ops.append(("collapse_basal_bifurcation", s))
        ops.append(("polytomize_root", s))
    ops.append(("deroot",))
    for i in internal:
        if nodes[i]._parent_node is not None:
            for adj in (False, True):
                ops.append(("edge_collapse", i, adj))
        ops.append(("collapse_clade", i))
        ops.append(("set_child_nodes_reversed", i))
        if len(nodes[i]._child_nodes) >= 2:
            ops.append(("insert_child_move_last_first", i))
    for asc in (True, False):
        ops.append(("ladderize", asc))
    ops.append(("reorder",))
    for k in b["rng_seeds"]:
        ops.append(("randomly_rotate", k))
        ops.append(("shuffle_taxa", k))
        for ub in (False, True):
            ops.append(("randomly_reorient", k, ub))
    for su, cb in FLAGS2:
        ops.append(("encode_bipartitions", su, cb))
    ops.append(("update_bipartitions",))
    for i in nonseed:
        p = idx[id(nodes[i]._parent_node)]
        for su in ((False, True) if not t._is_rooted else (False,)):  # docstring: True only for unrooted trees
            ops.append(("remove_child", p, i, su))
    if len(leaves) < b["max_leaves"]:
        for i in internal:  # children are added to internal nodes only (a leaf with a taxon would become a labelled internal node)
            ops.append(("new_child", i))
        for i in internal:
            ops.append(("insert_new_child", i, 0))
            ops.append(("add_child_new", i))
    # calls the library documents as refused: they must raise the documented error and leave the tree well formed
    for p in internal:
        kids = set(id(c) for c in nodes[p]._child_nodes)
        for i in nonseed:
            if i != p and id(nodes[i]) not in kids:
                ops.append(("refused:remove_child(not-a-child)", p, i))
    if internal:
        ops.append(("refused:remove_child(None)", internal[0]))
    ops.append(("refused:prune_subtree(seed)",))
    ops.append(("refused:prune_subtree(None)",))
    if leaf_labels:
        for ub, su in FLAGS2:
            ops.append(("refused:prune_taxa(all)", ub, su))
            ops.append(("refused:retain_taxa(none)", ub, su))
    # move a subtree: remove_child then add_child elsewhere
    for i in nonseed:
        sub = set()

        def rec(nd):
            sub.add(id(nd))
            for c in nd._child_nodes:
                rec(c)
        rec(nodes[i])
        for j, nd in enumerate(nodes):
            if id(nd) in sub or nd is nodes[i]._parent_node or not nd._child_nodes:
                continue
            ops.append(("move", i, j))
    return ops


def _pred(label):
    if label is None:
        return lambda nd: False
    if label == "*":
        return lambda nd: True
    return lambda nd: nd.taxon is None or nd.taxon._label != label


def apply_op(live, op):
    """Apply op to the live tree.  Returns the list of taxon labels the call was asked
    to remove (None = 'all may go' for the documented total refusal)."""
    t = live.tree
    name = op[0]
    nodes = live.nodes()
    ns = live.ns

    def taxa(S):
        return [x for x in ns._taxa if x._label in S]

    def below(nd):
        return [l for l in ref.leaves(ref.snap_node(nd)) if l is not None]
    removed = []
    added = []
    if name == "reseed_at":
        if len(op) > 5:
            removed = None
        t.reseed_at(nodes[op[1]], update_bipartitions=op[2], collapse_unrooted_basal_bifurcation=op[3], suppress_unifurcations=op[4])
    elif name == "reroot_at_node":
        if len(op) > 5:
            removed = None
        t.reroot_at_node(nodes[op[1]], update_bipartitions=op[2], suppress_unifurcations=op[3], collapse_unrooted_basal_bifurcation=op[4])
    elif name == "reroot_at_edge":
        t.reroot_at_edge(nodes[op[1]]._edge, length1=op[2], length2=op[3], update_bipartitions=op[4], suppress_unifurcations=op[5])
    elif name == "reroot_at_midpoint":
        t.reroot_at_midpoint(update_bipartitions=op[1], suppress_unifurcations=op[2], collapse_unrooted_basal_bifurcation=op[3])
    elif name == "to_outgroup_position":
        t.to_outgroup_position(nodes[op[1]], update_bipartitions=op[2], suppress_unifurcations=op[3])
    elif name == "prune_subtree":
        removed = below(nodes[op[1]])
        t.prune_subtree(nodes[op[1]], update_bipartitions=op[2], suppress_unifurcations=op[3])
    elif name == "prune_taxa":
        removed = list(op[1])
        t.prune_taxa(taxa(op[1]), update_bipartitions=op[2], suppress_unifurcations=op[3])
    elif name == "retain_taxa":
        removed = [l for l in live.leaf_taxa() if l not in op[1]]
        t.retain_taxa(taxa(op[1]), update_bipartitions=op[2], suppress_unifurcations=op[3])
    elif name == "prune_taxa_with_labels":
        removed = list(op[1])
        t.prune_taxa_with_labels(list(op[1]))
    elif name == "retain_taxa_with_labels":
        removed = [l for l in live.leaf_taxa() if l not in op[1]]
        t.retain_taxa_with_labels(list(op[1]))
    elif name == "filter_leaf_nodes":
        removed = ([] if op[1] == "*" else [op[1]]) if op[1] is not None else None
        t.filter_leaf_nodes(_pred(op[1]), recursive=op[2], update_bipartitions=op[3], suppress_unifurcations=op[4])
    elif name == "prune_leaves_without_taxa":
        t.prune_leaves_without_taxa(update_bipartitions=op[1], suppress_unifurcations=op[2])
    elif name == "collapse_unweighted_edges":
        if op[1] is None:
            t.collapse_unweighted_edges(update_bipartitions=op[2])
        else:
            t.collapse_unweighted_edges(threshold=op[1], update_bipartitions=op[2])
    elif name == "suppress_unifurcations":
        t.suppress_unifurcations(update_bipartitions=op[1])
    elif name == "resolve_polytomies":
        rng = None if op[1] is None else random.Random(op[1])
        t.resolve_polytomies(limit=2, update_bipartitions=op[2], rng=rng)
    elif name == "collapse_basal_bifurcation":
        t.collapse_basal_bifurcation(set_as_unrooted_tree=op[1])
    elif name == "polytomize_root":
        t.polytomize_root(set_as_unrooted_tree=op[1])
    elif name == "deroot":
        t.deroot()
    elif name == "edge_collapse":
        nodes[op[1]]._edge.collapse(adjust_collapsed_head_children_edge_lengths=op[2])
    elif name == "collapse_clade":
        nodes[op[1]].collapse_clade()
    elif name == "set_child_nodes_reversed":
        nd = nodes[op[1]]
        nd.set_child_nodes(list(reversed(nd._child_nodes)))
    elif name == "insert_child_move_last_first":
        nd = nodes[op[1]]
        nd.insert_child(0, nd._child_nodes[-1])
    elif name == "ladderize":
        t.ladderize(ascending=op[1])
    elif name == "reorder":
        t.reorder()
    elif name == "randomly_rotate":
        t.randomly_rotate(rng=random.Random(op[1]))
    elif name == "shuffle_taxa":
        t.shuffle_taxa(rng=random.Random(op[1]))
    elif name == "randomly_reorient":
        t.randomly_reorient(rng=random.Random(op[1]), update_bipartitions=op[2])
    elif name == "encode_bipartitions":
        t.encode_bipartitions(suppress_unifurcations=op[1], collapse_unrooted_basal_bifurcation=op[2])
    elif name == "update_bipartitions":
        t.update_bipartitions()
    elif name == "remove_child":
        removed = below(nodes[op[2]])
        nodes[op[1]].remove_child(nodes[op[2]], suppress_unifurcations=op[3])
    elif name == "refused:remove_child(not-a-child)":
        nodes[op[1]].remove_child(nodes[op[2]])
    elif name == "refused:remove_child(None)":
        nodes[op[1]].remove_child(None)
    elif name == "refused:prune_subtree(seed)":
        t.prune_subtree(t._seed_node)
    elif name == "refused:prune_subtree(None)":
        t.prune_subtree(None)
    elif name == "refused:prune_taxa(all)":
        removed = None
        t.prune_taxa(list(ns._taxa), update_bipartitions=op[1], suppress_unifurcations=op[2])
    elif name == "refused:retain_taxa(none)":
        removed = None
        t.retain_taxa([], update_bipartitions=op[1], suppress_unifurcations=op[2])
    elif name in ("new_child", "insert_new_child", "add_child_new"):
        used = set(x._label for x in ns._taxa)
        lab = [l for l in NEW_LABELS + ["w%d" % k for k in range(20)] if l not in used][0]
        tx = ns.new_taxon(label=lab)
        live.bit[lab] = live.nextbit
        live.nextbit += 1
        added = [lab]
        tgt = nodes[op[1]]
        if not tgt._child_nodes and tgt.taxon is not None:
            removed = [tgt.taxon._label]  # the target stops being a leaf
        if name == "new_child":
            nodes[op[1]].new_child(taxon=tx, edge_length=1.0)
        elif name == "insert_new_child":
            nodes[op[1]].insert_new_child(op[2], taxon=tx, edge_length=1.0)
        else:
            nodes[op[1]].add_child(Node(taxon=tx, edge_length=1.0))
    elif name == "move":
        c, p = nodes[op[1]], nodes[op[2]]
        if not p._child_nodes and p.taxon is not None:
            removed = [p.taxon._label]  # the new parent stops being a leaf
        oldp = c._parent_node
        if len(oldp._child_nodes) == 1 and oldp.taxon is not None:
            added = [oldp.taxon._label]  # the old parent becomes a leaf (it may carry a taxon)
        c._parent_node.remove_child(c)
        p.add_child(c)
    else:
        raise ValueError("unknown op %r" % (op,))
    return removed, added


UB_INDEX = {"reseed_at": 2, "reroot_at_node": 2, "reroot_at_edge": 4, "reroot_at_midpoint": 1, "to_outgroup_position": 2,
            "prune_subtree": 2, "prune_taxa": 2, "retain_taxa": 2, "filter_leaf_nodes": 3, "prune_leaves_without_taxa": 1,
            "collapse_unweighted_edges": 2, "suppress_unifurcations": 1, "resolve_polytomies": 2, "randomly_reorient": 2}
ENCODERS = ("encode_bipartitions", "update_bipartitions")
# operations that cannot make a current encoding stale (no structural or taxon change)
NEUTRAL = ("ladderize", "reorder", "randomly_rotate", "set_child_nodes_reversed", "insert_child_move_last_first")


def flagsig(op):
    """flag part of a signature: only the flags, never the targets"""
    name = op[0]
    ub = op[UB_INDEX[name]] if name in UB_INDEX else None
    return "ub=%s" % ub if ub is not None else ""


DOCUMENTED_REFUSALS = {
    "filter_leaf_nodes": (dperror.SeedNodeDeletionException,),
    "refused:remove_child(not-a-child)": (ValueError,),
    "refused:remove_child(None)": (ValueError,),
    "refused:prune_subtree(seed)": (TypeError,),
    "refused:prune_subtree(None)": (ValueError,),
    "refused:prune_taxa(all)": (dperror.SeedNodeDeletionException,),
    "refused:retain_taxa(none)": (dperror.SeedNodeDeletionException,),
}


def step(h, op, ctx, b):
    """Rebuild the state of history h, apply op, check everything.  Returns (key, newhist) or None."""
    case = {"kind": "hist", "start": h[0], "ops": list(h[1]) + [op]}
    name = op[0]
    live = rebuild(h)
    before_taxa = live.leaf_taxa()
    st, val = run_limited(lambda: advance(live, op), 15.0)
    if st == "exc":
        raise val
    if st == "ok":
        exc, removed, added, before_enc, ep = val
    else:
        live2 = rebuild(h)
        st, v, n = budgeted(lambda: advance(live2, op), 2000000)
        if st == "hang":
            ctx.violation("%s|hang" % name, "%r does not terminate (step budget exceeded at %s)" % (op, v), case)
        return None
    t = live.tree
    probs = ref.wellformed(t)
    if probs:
        ctx.violation("%s|malformed%s" % (name, "-after-exception" if exc is not None else ""),
                      "after %r: %s" % (op, "; ".join(sorted(set(probs)))), case)
        return None
    tp = ref.traversal_problems(t)
    if tp:
        ctx.violation("%s|traversal" % name, "after %r: %s" % (op, "; ".join(tp)), case)
        return None
    if exc is not None:
        doc = DOCUMENTED_REFUSALS.get(name, ())
        if not (isinstance(exc, doc) and (name.startswith("refused:") or op[1] is None)):
            ctx.violation("%s|exception|%s" % (name, type(exc).__name__),
                          "%r raised %s: %s" % (op, type(exc).__name__, str(exc)[:200]), case)
        else:
            ctx.count("documented_refusals")
    else:
        after_taxa = live.leaf_taxa()
        if removed is not None:
            want = list(before_taxa)
            for r in removed:
                if r in want:
                    want.remove(r)
            want = sorted(want + added)
            if after_taxa != want:
                ctx.violation("%s|leaf-taxa" % name, "%r: leaf taxa %s -> %s, asked to remove %s" % (op, before_taxa, after_taxa, removed), case)
                return None
        ub = name in UB_INDEX and op[UB_INDEX[name]]
        if (name in ENCODERS or (ub and before_enc == "current")) and ep:
            ctx.violation("%s|update_bipartitions" % name, "after %r on a tree whose encoding was %s: %s" % (
                op, before_enc, "; ".join(sorted(set(ep))[:3])), case)
            return None
        if ub and before_enc == "current":
            ctx.count("update_contract_checked")
    if op[-1] == "leaf-target":
        # state with a taxon-bearing seed: checked above, not expanded (the leaf-taxon oracle of later steps assumes taxa sit on leaves)
        ctx.count("leaf_target_calls_checked")
        return None
    if name.startswith("refused:"):
        # the state a refused call leaves behind is checked above (well formed, traversable); it is not expanded further
        ctx.count("refused_calls_checked" if exc is not None else "refused_calls_that_completed")
        return None
    return (live.key(), (h[0], tuple(h[1]) + (op,)))


def expand(chunk, ctx):
    b = bounds(chunk["tier"])
    out = []
    local = set()
    for h in chunk["hists"]:
        live = rebuild(h)
        ops = enabled_ops(live, b)
        nleaves = len(live.leaf_taxa())
        skey = live.key()
        ctx.count("expanded_states")
        for op in ops:
            ctx.case((skey, op), nontrivial=nleaves >= 3)
            ctx.count("transitions")
            ctx.count("op:" + op[0])
            r = step(h, op, ctx, b)
            if r is None:
                continue
            key, nh = r
            if key not in local:
                local.add(key)
                out.append((key, None if chunk["last"] else nh))
        if len(h[1]) >= 1:
            ctx.sample({"history": [list(o) for o in h[1]], "start": list(h[0]), "enabled_operations": len(ops)}, 2)
    return out


def starts(tier):
    b = bounds(tier)
    out = []
    for n in range(1, b["max_start_leaves"] + 1):
        for si in range(len(U.shapes(n))):
            for rooted in (True, False):
                for lens in b["length_patterns"]:
                    for enc in (False, True):
                        out.append((n, si, rooted, lens, enc))
    return out


def explore(tier, runner):
    b = bounds(tier)
    st = []
    for s in starts(tier):
        live = Live(s)
        st.append((live.key(), (s, ())))
    hist.bfs(runner, "expand", st, b["depth"], chunk_size=4, extra={"tier": tier})
    # larger representatives (size-triggered defects are invisible at n <= 4): every operation once
    big = []
    for shape in BIG_STARTS:
        n = len(U.shape_leaves(shape))
        for rooted in (True, False):
            for enc in (False, True):
                s = (n, shape, rooted, "unit", enc)
                big.append((Live(s).key(), (s, ())))
    hist.bfs(runner, "expand", big, 1, chunk_size=1, extra={"tier": tier})
    if tier == "thorough":
        st3 = [x for x in st if x[1][0][0] <= b["depth_3_from_starts_with_leaves_up_to"]]
        hist.bfs(runner, "expand", st3, 3, chunk_size=4, extra={"tier": tier})
        st2 = []
        shapes5 = U.shapes(5)
        for si, sh in enumerate(shapes5):
            if U.is_binary(sh) or U.max_degree(sh) == 5:
                for rooted in (True, False):
                    for enc in (False, True):
                        s = (5, si, rooted, "unit", enc)
                        st2.append((Live(s).key(), (s, ())))
        hist.bfs(runner, "expand", st2, 2, chunk_size=2, extra={"tier": tier})


def replay(case, ctx):
    b = bounds("quick")
    start = tuple(case["start"])
    ops = [_tup(o) for o in case["ops"]]
    h = (start, tuple(ops[:-1]))
    step(h, ops[-1], ctx, b)


def _tup(x):
    if isinstance(x, list):
        return tuple(_tup(y) for y in x)
    return x
