"""C02 - trees survive a write/read round trip through Newick, NEXUS and NeXML (DESIGN 3/C02).

Engine E1.  Every case is one round trip  text = write(trees, writer options);
trees' = read(text, matching reader options)  of a tree or tree list that was built
through the Node API (mc/build.py), compared with the snapshot it was built from.

Layers (each enumerated completely up to the tier bound):

  struct  every tree of U(n <= 4) x every child order x internal nodes {unlabelled, labelled,
          carrying taxa} x rooting {undefined, rooted, unrooted} x eight edge-length patterns
          (absent, 0, integers incl. a negative one, scientific-notation floats, each with and
          without a root-edge length, two mixed None / 0.0 / value patterns) x every applicable
          option set of every schema (STRUCT_OPTS); every single and double unifurcation
          insertion (three length patterns, two label modes, UNIF_OPTS); n <= 3 additionally
          under every namespace configuration of mc/build.py (unused taxa, reversed / sorted
          member list, removed lowest accession index).  Thorough adds n = 5 with every child
          order (four length patterns, MID_OPTS), single unifurcations at n = 5, and n = 6 in the
          generated and the fully reversed child order (default options).
  list    every ordered tuple of length 0..3 over a pool of six trees on one namespace
          (different shapes, rootings, length patterns, one on a subset of the taxa, one single
          node) x option sets x four namespace configurations, plus the empty list over the
          empty namespace, through TreeList.as_string / TreeList.get.
  label   one taxon label (forms 'c' and 'xcy' at every leaf position) resp. one internal node
          label (on the root and an inner node) drawn from: nine forms around every single
          character of printable ASCII + TAB + three non-ASCII letters; three forms (x c1 c2 y,
          c1 c2, c1 x c2) around every ordered pair of the 35 special characters; thorough: two
          forms around every ordered triple - x every consistent (unquoted_underscores /
          preserve_underscores, preserve_spaces, translate_tree_taxa, read into the source
          namespace) option set (LABEL_OPTS).

  big     large representatives, exhaustive over the stated set only (both tiers): left and right
          ladders of 12, 17, 33, 40, 65 tips, balanced trees of 16, 32, 64, stars of 12, 33, 40, 100,
          a broom of 60 x label schemes {t000.., plain numbers (rotated, partly zero-padded, so that
          '2', '10', '010' coexist and never equal the taxon's number), s<k> in scrambled order} x three
          (lengths, internal labels, rooting, namespace configuration) variants x BIG_OPTS (with and
          without translate_tree_taxa, into the source namespace); one list of three big trees over a
          namespace of 100; ladders of 300 tips once per schema with the recursion limit a top-level
          caller has (1000); two 200-character labels.  Same oracle.

  seq     write sequences: every ordered pair (W1, W2) of the 13 writes {newick x (preserve_spaces,
          unquoted_underscores) grid, nexus x the same grid x translate_tree_taxa, nexml} - also across
          schemas - on six label templates (underscore, space, both, quote, underscore + quote, plain;
          each case gets label texts of its own) as taxon and as internal label: write with W1, write
          the same resp. a fresh equal-labelled tree with W2, read the second text back with the
          matching reader options; the second round trip is judged by the same oracle.  Each case
          primes itself, so a replay in a fresh interpreter reproduces it.

Oracle: plain comparison of snapshots (mc/ref.py: taxon label, node label, edge length,
children in order; rooting flag) and of the namespace's label list.  Signatures name the schema,
the kind of disagreement (reader exception class, label / length / rooting / namespace change)
and the trigger (the single character that fails on its own, the option groups the failure needs,
'empty-list').
"""
import itertools
import sys

import dendropy

from mc import ref, build, budget
from mc import universe as U

ID = "C02"
LEVEL = "exploration"
EXHAUSTIVE = True
RULE = ("a case = one write/read round trip of one tree or tree list (built through the Node API) under one schema "
        "and one consistent writer/reader option set; trees: every shape of U(n) x every child order x unifurcation "
        "insertions x internal nodes unlabelled/labelled/with taxa x three rooting states x eight edge-length "
        "patterns; lists: every tuple of length 0..3 over a pool of six trees; labels: nine forms around every single "
        "character, three around every ordered pair (thorough: two around every ordered triple) of the special "
        "characters; write sequences: every ordered pair of 13 (schema, writer options) writes on six label "
        "templates, the second write read back; plus, exhaustive over a stated finite set only, large representatives (ladders, balanced trees, "
        "stars, a broom with 12..100 tips under three label schemes incl. plain numbers, a list of three of them over "
        "one namespace of 100, ladders of 300 tips at the default recursion limit, 200-character labels); non-trivial "
        "= tree has >= 3 leaves, list is non-empty, or the label contains a non-alphanumeric character")
ASSUMPTIONS = [
    "source trees are built through the Node API (mc/build.py); the expectation is the snapshot they were built from, the observation is mc/ref.snapshot of the re-read tree (primitive fields only)",
    "edge lengths are compared with ==, so an integer length n that comes back as float n is equal (the statement's 'same edge lengths'); written floats are Python reprs, so equality is exact",
    "NeXML: a root-edge length of None may come back as 0 and an undefined rooting state as unrooted (the two normalisations the statement allows); nothing else is tolerated",
    "Newick carries no taxa block: its namespace is compared as a set against the labels used on the written trees; NEXUS and NeXML namespaces are compared as ordered lists against the source namespace (unused taxa included)",
    "option sets are the consistent writer/reader pairs of the statement: (unquoted_underscores, preserve_underscores) in {(F,F),(T,T)}; preserve_spaces; translate_tree_taxa; suppress_rooting with reader rooting force-X / default-X matching the tree; store_tree_weights on both sides; an explicit default-X reader rooting against an explicit rooting token; taxon_namespace=<source namespace> on the reader; suppress_internal_node_taxa=False whenever internal nodes carry taxa",
    "unquoted_underscores=True with preserve_spaces=False is driven with space-free labels only: the writer documents turning spaces into underscores and a preserve_underscores=True reader documents not turning them back, so that pair is not consistent for labels with spaces (counted as 'inapplicable_option_sets')",
    "labels obey the statement's admissibility rule (non-empty, no leading/trailing whitespace, distinct from the other labels up to case); the same rule is applied to internal node labels",
    "tree weights, tree names and leaf node labels are not named by the statement: weights are compared and counted ('weights_changed') but never decide",
    "reading into the source namespace must add no taxon and must put the namespace's own Taxon objects on the nodes",
]
MANIFEST = {
    "engine": "E1-ENUM",
    "technique": "bounded-exhaustive enumeration of trees, tree lists, label strings and option sets; snapshot comparison after write + read",
    "text": ("For every tree up to the bound (all shapes, child orders, unifurcation placements, rooting states, "
             "edge-length patterns, internal labels or taxa), every tree list of length 0..3 over a pool, and every "
             "taxon / internal label built from single characters and ordered pairs (thorough: triples) of special "
             "characters, writing to Newick, NEXUS and NeXML and reading back under every consistent option set "
             "returns the same ordered topology, taxa, internal labels, edge lengths, rooting and namespace labels; "
             "the exceptions found are reported as violations under their own signatures."),
    "note": "trusted: mc/build.py (Node API construction, namespace configurations), mc/ref.snapshot, TreeList.append for assembling lists",
}

SCHEMAS = ("newick", "nexus", "nexml")
WEIGHTS = (1, 0.5, 3.0 / 7.0)
SCI = (1e-05, 2500.0, 0.1, 1e+22, 3e-10, -2.5e-07, 123456789.0, 6.02e+23)
LENS = ("absent", "zero", "int", "int_root", "sci", "sci_root", "mixed", "mixed_root")
IMODES = ("off", "labels", "taxa")
ROOTINGS = (None, True, False)

NONASCII = ["é", "ß", "日"]
SINGLE_CHARS = [chr(i) for i in range(32, 127)] + ["\t"] + NONASCII
SPECIALS = [c for c in (chr(i) for i in range(32, 127)) if not c.isalnum()] + ["\t", "é"]
OTHER_TAXA = ("kk", "mm", "zz")


def bounds(tier):
    b = {"struct_max_leaves_all_orders": 4, "struct_base_and_reversed_leaves": [],
         "unifurcation_max_leaves": 4, "ns_configs_up_to_leaves": 3, "ns_configs": build.NS_CONFIGS,
         "length_patterns": list(LENS), "internal_modes": list(IMODES), "rootings": [None, True, False],
         "list_max_length": 3, "list_pool": 6,
         "single_characters": len(SINGLE_CHARS), "special_characters": len(SPECIALS),
         "label_tuple_max": 2, "weights": list(WEIGHTS)}
    if tier != "quick":
        b.update({"struct_max_leaves_all_orders": 5, "struct_base_and_reversed_leaves": [6],
                  "unifurcation_max_leaves": 5, "label_tuple_max": 3})
    b["large_representatives"] = {
        "note": "exhaustive over this stated finite set only (both tiers)",
        "trees": [list(t) for t in BIG_TREES], "label_schemes": list(BIG_LABELS),
        "variants_(lengths,internal_labels,rooting,namespace_config)": [list(v) for v in BIG_VARIANTS],
        "list_of_three_over_one_namespace_of_100": [list(t) for t in BIG_LIST],
        "deep_nesting_at_default_recursion_limit_1000": [list(t) for t in DEEP],
        "long_label_lengths": [len(l) for l in LONG_LABELS]}
    b["write_sequences"] = {
        "writes_(schema,options)": [[w[0], "+".join(w[1]) or "default"] for w in SEQ_WRITES],
        "ordered_pairs": len(SEQ_WRITES) ** 2, "label_templates_(#=unique_suffix)": list(SEQ_TEMPLATES),
        "sites": ["taxon", "internal"], "second_write_on": ["fresh equal-labelled tree", "the same tree"]}
    names = lambda table: dict((k, ["+".join(o) or "default" for o in v]) for k, v in table.items())
    b["option_sets"] = {"struct_n<=4": names(STRUCT_OPTS), "struct_n=5": names(MID_OPTS), "struct_n=6": names(LITE_OPTS),
                        "unifurcations": names(UNIF_OPTS), "namespace_configs": names(NSCFG_OPTS),
                        "lists": names(LIST_OPTS), "labels": names(LABEL_OPTS),
                        "large_trees": names(BIG_OPTS), "large_lists": names(BIG_LIST_OPTS)}
    b["option_groups"] = {
        "into_ns": "reader taxon_namespace=<source namespace>", "ps": "writer preserve_spaces=True",
        "uu": "writer unquoted_underscores=True + reader preserve_underscores=True",
        "translate": "writer translate_tree_taxa=True", "translate-dict": "writer translate_tree_taxa={taxon k: 'T<k>'}",
        "weights": "store_tree_weights=True on both sides, weights 1, 0.5, 3/7",
        "sr-force": "writer suppress_rooting=True + reader rooting='force-(un)rooted' as the tree is",
        "sr-default": "writer suppress_rooting=True + reader rooting='default-(un)rooted' as the tree is",
        "opp-default": "rooting token written + reader rooting='default-<the opposite>'"}
    return b


def tup(x):
    if isinstance(x, (list, tuple)):
        return tuple(tup(y) for y in x)
    return x


_sn_cache = {}


def sn_of(td):
    """snapshot node a tree descriptor stands for: given explicitly ("sn") or, for the large
    representatives, generated from a small description ("big")"""
    if "sn" in td:
        return tup(td["sn"])
    key = repr(sorted(td["big"].items()))
    if key not in _sn_cache:
        if len(_sn_cache) > 64:
            _sn_cache.clear()
        _sn_cache[key] = big_sn(td["big"])
    return _sn_cache[key]


def snapshot(tree):
    """mc/ref.snapshot without recursion (the deep ladders exceed its depth guard); call
    ref.wellformed first (it detects cycles)"""
    root = tree._seed_node
    done = {}
    stack = [(root, False)]
    while stack:
        nd, seen = stack.pop()
        if seen:
            done[id(nd)] = (nd.taxon._label if nd.taxon is not None else None, nd._label,
                            nd._edge.length if nd._edge is not None else None,
                            tuple(done.pop(id(c)) for c in nd._child_nodes))
        else:
            stack.append((nd, True))
            for c in nd._child_nodes:
                stack.append((c, False))
    return (tree._is_rooted, done[id(root)])


def _stack_depth():
    f = sys._getframe()
    n = 0
    while f is not None:
        n += 1
        f = f.f_back
    return n


def _library_call(case, fn):
    """Runs fn() (a library call).  For the deep-nesting cases the interpreter's recursion limit is
    set to what a user calling from the top level of a script has (default 1000), independent of
    how deep the harness's own stack is in this process."""
    lim = case.get("user_recursion_limit")
    if not lim:
        return fn()
    cur = sys.getrecursionlimit()
    sys.setrecursionlimit(lim + _stack_depth())
    try:
        return fn()
    finally:
        sys.setrecursionlimit(cur)


# ---------------------------------------------------------------------------
# option sets

GROUPS = {
    "newick": ("into_ns", "ps", "uu", "weights", "sr-force", "sr-default", "opp-default"),
    "nexus": ("into_ns", "ps", "uu", "translate", "translate-dict", "weights", "sr-force", "sr-default", "opp-default"),
    "nexml": ("into_ns",),
}

STRUCT_OPTS = {
    "newick": [(), ("into_ns",), ("weights",), ("sr-force",), ("sr-default",), ("opp-default",), ("ps", "uu")],
    "nexus": [(), ("into_ns",), ("translate",), ("into_ns", "translate"), ("weights",), ("sr-force",),
              ("sr-default", "translate"), ("opp-default",), ("ps", "translate", "uu"), ("translate-dict",)],
    "nexml": [(), ("into_ns",)],
}
UNIF_OPTS = {"newick": [(), ("sr-force",)], "nexus": [(), ("translate",)], "nexml": [()]}
NSCFG_OPTS = {"newick": [(), ("into_ns",)], "nexus": [(), ("translate",), ("into_ns", "translate")],
              "nexml": [(), ("into_ns",)]}
LABEL_OPTS = {
    "newick": [(), ("into_ns",), ("ps",), ("ps", "uu"), ("uu",)],
    "nexus": [(), ("into_ns",), ("ps",), ("ps", "uu"), ("uu",),
              ("translate",), ("into_ns", "translate"), ("ps", "translate"), ("ps", "translate", "uu"),
              ("translate", "uu")],
    "nexml": [(), ("into_ns",)],
}


def all_labels(case):
    out = list(case["ns"]["labels"])
    for td in case["trees"]:
        for nd in ref.preorder(sn_of(td)):
            if nd[0] is not None:
                out.append(nd[0])
            if nd[1] is not None:
                out.append(nd[1])
    return out


def has_internal_taxa(case):
    for td in case["trees"]:
        for nd in ref.preorder(sn_of(td)):
            if nd[3] and nd[0] is not None:
                return True
    return False


def derive(case, for_prime=False):
    """(writer kwargs, reader kwargs, expected rooting per tree) for the option groups of the
    case, or None when the option set is not a consistent pair for these trees.  for_prime: only
    the writer kwargs are used (a write that is never read back needs no matching reader)."""
    schema = case["schema"]
    opts = set(case["opts"])
    if not opts <= set(GROUPS[schema]):
        return None
    wkw, rkw = {}, {}
    rootings = [td["rooted"] for td in case["trees"]]
    expect = list(rootings)
    if schema != "nexml" and has_internal_taxa(case):
        rkw["suppress_internal_node_taxa"] = False
    if "ps" in opts:
        wkw["preserve_spaces"] = True
    if "uu" in opts:
        wkw["unquoted_underscores"] = True
        rkw["preserve_underscores"] = True
        if "ps" not in opts and not for_prime and any((" " in l) for l in all_labels(case)):
            return None
    if "translate" in opts:
        if "translate-dict" in opts:
            return None
        wkw["translate_tree_taxa"] = True
    if "translate-dict" in opts:
        wkw["translate_tree_taxa"] = "dict"     # replaced by {Taxon: "T<k>"} over the built namespace in evaluate()
    if "weights" in opts:
        wkw["store_tree_weights"] = True
        rkw["store_tree_weights"] = True
    nroot = len([g for g in ("sr-force", "sr-default", "opp-default") if g in opts])
    if nroot > 1:
        return None
    if nroot:
        if not rootings or any(r is None for r in rootings):
            return None
        if "opp-default" in opts:
            rkw["rooting"] = "default-unrooted" if rootings[0] else "default-rooted"
        else:
            if len(set(rootings)) != 1:
                return None
            wkw["suppress_rooting"] = True
            word = "rooted" if rootings[0] else "unrooted"
            rkw["rooting"] = ("force-" if "sr-force" in opts else "default-") + word
    return wkw, rkw, expect


# ---------------------------------------------------------------------------
# one round trip

def _kids_only(nd):
    return tuple(_kids_only(c) for c in nd[3])


def _unordered(nd):
    return (nd[0], tuple(sorted((_unordered(c) for c in nd[3]), key=repr)))


def compare_tree(schema, exp_rooted, exp, got_rooted, got):
    """list of (kind, message); empty = equal under the statement"""
    out = []
    if _kids_only(exp) != _kids_only(got) or ref.leaves(exp) != ref.leaves(got):
        if _unordered(exp) == _unordered(got):
            out.append(("child-order", "children re-ordered: wrote %s, read %s" % (ref.to_newick(exp, False), ref.to_newick(got, False))))
        elif _kids_only(exp) == _kids_only(got):
            out.append(("taxon", "taxa differ: wrote %s, read %s" % (ref.to_newick(exp, False), ref.to_newick(got, False))))
        else:
            out.append(("topology", "topology differs: wrote %s, read %s" % (ref.to_newick(exp, False), ref.to_newick(got, False))))
    else:
        seen = set()
        for i, (a, b) in enumerate(zip(ref.preorder(exp), ref.preorder(got))):
            if a[0] != b[0]:
                k = "taxon:%s" % ("internal" if a[3] else "leaf")
                if k not in seen:
                    seen.add(k)
                    out.append((k, "taxon %r read back as %r" % (a[0], b[0])))
            if a[1] != b[1] and (a[3] or a[1] is not None):
                k = "node-label:%s" % ("internal" if a[3] else "leaf")
                if k not in seen:
                    seen.add(k)
                    out.append((k, "node label %r read back as %r" % (a[1], b[1])))
            la, lb = a[2], b[2]
            same = (la is None and lb is None) or (la is not None and lb is not None and la == lb)
            if not same and schema == "nexml" and i == 0 and la is None and lb == 0:
                same = True
            if not same:
                k = "edge-length:%s->%s:%s" % ("missing" if la is None else "value",
                                               "missing" if lb is None else ("zero" if lb == 0 and la is None else "value"),
                                               "root" if i == 0 else "nonroot")
                if k not in seen:
                    seen.add(k)
                    out.append((k, "edge length %r read back as %r (node %d in pre-order of %s)" % (
                        la, lb, i, ref.to_newick(exp, True))))
    ok = got_rooted is exp_rooted or (schema == "nexml" and exp_rooted is None and got_rooted is False)
    if not ok:
        out.append(("rooting:%s->%s" % (exp_rooted, got_rooted), "rooting state %r read back as %r" % (exp_rooted, got_rooted)))
    return out


def evaluate(case, want_text=False):
    """Runs the round trip.  Returns (problems, info): problems = list of (kind, message)."""
    old = sys.getrecursionlimit()
    sys.setrecursionlimit(max(old, 20000))      # the harness's own recursive helpers on deep ladders
    try:
        return _evaluate(case, want_text)
    finally:
        sys.setrecursionlimit(old)


def _build(case):
    ns, _bit = build.make_namespace(list(case["ns"]["labels"]), case["ns"]["cfg"])
    trees = []
    for td in case["trees"]:
        t = build.build_tree((td["rooted"], sn_of(td)), ns)
        if td.get("weight") is not None:
            t.weight = td["weight"]
        trees.append(t)
    return ns, trees


def _write(case, api, schema, ns, trees, wkw):
    if wkw.get("translate_tree_taxa") == "dict":
        wkw["translate_tree_taxa"] = dict((t, "T%d" % (k + 1)) for k, t in enumerate(ns._taxa))
    if api == "tree":
        return _library_call(case, lambda: trees[0].as_string(schema=schema, **wkw))
    tl = dendropy.TreeList(taxon_namespace=ns)
    for t in trees:
        tl.append(t)
    return _library_call(case, lambda: tl.as_string(schema=schema, **wkw))


def _evaluate(case, want_text=False):
    schema = case["schema"]
    d = derive(case)
    if d is None:
        return None, {}
    wkw, rkw, expect_rooted = d
    ns, trees = _build(case)
    api = case.get("api", "tree")
    prime = case.get("prime")
    if prime:
        # write-sequence layer: an earlier write (same or equal-labelled fresh objects, other options /
        # schema) in the same process; its output is discarded
        d1 = derive(dict(case, schema=prime["schema"], opts=prime["opts"]), for_prime=True)
        if d1 is None:
            return None, {}
        pns, ptrees = (ns, trees) if prime.get("reuse") else _build(case)
        try:
            _write(case, api, prime["schema"], pns, ptrees, dict(d1[0]))
        except Exception:
            pass        # a failing first write is the business of the other layers
    exp_ns = [t._label for t in ns._taxa]
    used = set()
    for td in case["trees"]:
        for nd in ref.preorder(sn_of(td)):
            if nd[0] is not None:
                used.add(nd[0])
    info = {"wkw": dict(wkw), "rkw": rkw}
    if wkw.get("translate_tree_taxa") == "dict":
        info["wkw"]["translate_tree_taxa"] = "{taxon k: 'T<k>'}"
    try:
        text = _write(case, api, schema, ns, trees, wkw)
    except Exception as e:
        return [("write-raises:%s" % type(e).__name__, "writer raised %r" % (e,))], info
    if want_text:
        info["text"] = text
    kw = dict(rkw)
    if "into_ns" in case["opts"]:
        kw["taxon_namespace"] = ns
    getter = dendropy.Tree.get if api == "tree" else dendropy.TreeList.get
    st, val = budget.guarded(lambda: _library_call(case, lambda: getter(data=text, schema=schema, **kw)), wall=60.0)
    if st == "hang":
        return [("read-hangs", "reader did not terminate within the step budget at %s; text %r" % (val, text[:300]))], info
    if st == "exc":
        return [("read-raises:%s" % type(val).__name__, "reader raised %s: %s; text %r" % (
            type(val).__name__, str(val)[:200], text if len(text) < 400 else text[-400:]))], info
    got_trees = [val] if api == "tree" else list(val)
    if api == "tree" and val is None:
        return [("tree-count", "Tree.get returned None")], info
    probs = []
    if len(got_trees) != len(trees):
        probs.append(("tree-count", "wrote %d trees, read %d" % (len(trees), len(got_trees))))
    taxon_problem = False
    wdiff = 0
    for i, (td, g) in enumerate(zip(case["trees"], got_trees)):
        wf = ref.wellformed(g)
        if wf:
            probs.append(("malformed-tree", "; ".join(wf)))
            continue
        gr, gs = snapshot(g)
        for k, m in compare_tree(schema, expect_rooted[i], sn_of(td), gr, gs):
            if k.startswith("taxon") or k == "topology":
                taxon_problem = True
            if all(k != k0 for k0, _ in probs):
                probs.append((k, ("tree %d of %d: " % (i + 1, len(trees)) if len(trees) > 1 else "") + m))
        if "weights" in case["opts"] and td.get("weight") is not None and g.weight != td["weight"]:
            wdiff += 1
    info["weights_changed"] = wdiff
    got_ns_obj = val.taxon_namespace
    got_ns = [t._label for t in got_ns_obj._taxa]
    if "into_ns" in case["opts"]:
        if got_ns_obj is not ns:
            probs.append(("namespace:not-the-given-one", "result is not attached to the namespace passed to the reader"))
        elif got_ns != exp_ns:
            probs.append(("namespace:grew" if len(got_ns) > len(exp_ns) else "namespace:changed",
                          "reading into the source namespace changed its labels from %r to %r" % (exp_ns, got_ns)))
        members = set(id(t) for t in ns._taxa[:len(exp_ns)])
        for g in got_trees:
            if got_ns != exp_ns:
                break   # consequence of the namespace change already reported
            if any(nd.taxon is not None and id(nd.taxon) not in members for nd in ref_nodes(g)):
                probs.append(("taxon-identity", "a node carries a Taxon object that is not one of the source namespace's"))
                break
    elif not taxon_problem:
        if schema == "newick":
            if set(got_ns) != used or len(got_ns) != len(set(got_ns)):
                probs.append(("namespace:labels", "labels on the written trees %r, namespace read %r" % (sorted(used), got_ns)))
        elif got_ns != exp_ns:
            if sorted(got_ns) == sorted(exp_ns):
                probs.append(("namespace:order", "namespace order %r read back as %r" % (exp_ns, got_ns)))
            else:
                probs.append(("namespace:labels", "namespace labels %r read back as %r" % (exp_ns, got_ns)))
    return probs, info


def ref_nodes(tree):
    stack = [tree._seed_node]
    while stack:
        nd = stack.pop()
        yield nd
        stack.extend(nd._child_nodes)


# ---------------------------------------------------------------------------
# signatures

_probe_cache = {}


def kinds_of(case):
    probs, _ = evaluate(case)
    if probs is None:
        return None
    return set(k for k, _ in probs)


def minimal_opts(case, kind):
    """greedy removal of option groups while the same kind of failure persists"""
    opts = list(case["opts"])
    for g in sorted(opts):
        trial = [o for o in opts if o != g]
        ks = kinds_of(dict(case, opts=trial))
        if ks is not None and kind in ks:
            opts = trial
    return opts


def _kind_class(kind):
    if kind in ("taxon", "taxon:leaf", "taxon:internal", "node-label:internal", "node-label:leaf"):
        return "label-changed"
    return kind


def char_name(c):
    if c == " ":
        return "SPACE"
    if c == "\t":
        return "TAB"
    if ord(c) > 126:
        return "non-ascii"
    return c


def specials_of(label):
    out = []
    for c in label:
        if (ord(c) > 126 or not c.isalnum()) and c not in out:
            out.append(c)
    return out


def label_case(schema, opts, label, site, pos=0):
    if site == "taxon":
        labs = [OTHER_TAXA[0], OTHER_TAXA[1]]
        labs.insert(pos, label)
        sn = (None, None, None, tuple((l, None, i + 1, ()) for i, l in enumerate(labs)))
        nsl = labs
    else:
        sn = (None, label, None, ((None, label, 3, ((OTHER_TAXA[0], None, 1, ()), (OTHER_TAXA[1], None, 2, ()))),
                                  (OTHER_TAXA[2], None, 4, ())))
        nsl = list(OTHER_TAXA)
    return {"kind": "rt", "layer": "label", "schema": schema, "opts": list(opts), "api": "tree",
            "ns": {"cfg": "exact", "labels": nsl}, "trees": [{"rooted": True, "sn": sn}],
            "label": label, "site": site, "pos": pos}


def admissible(label):
    return bool(label) and label.strip() == label and label.lower() not in OTHER_TAXA


def probe_label(schema, opts, label, site, pos):
    key = (schema, tuple(opts), label, site, pos)
    if key not in _probe_cache:
        if len(_probe_cache) > 20000:
            _probe_cache.clear()
        _probe_cache[key] = kinds_of(label_case(schema, opts, label, site, pos))
    return _probe_cache[key]


def signature(case, kind):
    """Call-site level key: schema | (label layer) | kind of disagreement | trigger.  For the
    label layer the trigger is the single special character that fails on its own (padded
    as 'x<c>y', preferably in the same way and without any option), else the character class
    of the label; option groups are named only when the failure needs them."""
    schema = case["schema"]
    if case.get("layer") == "seq":
        return seq_signature(case, kind)
    opts = minimal_opts(case, kind) if case["opts"] else []
    opt_tag = ("|opt:" + "+".join(sorted(opts))) if opts else ""
    if case.get("layer") == "label":
        label, site, pos = case["label"], case["site"], case.get("pos", 0)
        base = probe_label(schema, opts, "xy", site, pos)
        if not (base is not None and kind in base):
            sp = sorted(specials_of(label))
            culprit = None
            for o, same_kind in (([], True), (opts, True), ([], False), (opts, False)):
                for c in sp:
                    ks = probe_label(schema, o, "x" + c + "y", site, pos)
                    if ks and (kind in ks or not same_kind):
                        culprit = c
                        break
                if culprit is not None:
                    if not o:
                        opt_tag = ""     # the character alone fails without any option: same defect
                    break
            if culprit is not None:
                feat = "char:" + char_name(culprit)
            elif not sp:
                feat = "digits" if label.isdigit() else "alphanumeric"
            elif len(sp) == 1 and label == sp[0]:
                feat = "whole-label:" + char_name(sp[0])
            elif all((ord(c) > 126 or not c.isalnum()) for c in label):
                feat = "bare-chars:" + "".join(sorted(set(char_name(c) for c in sp)))
            else:
                feat = "chars:" + "".join(sorted(set(char_name(c) for c in sp)))
            site_tag = ""
            if site == "internal":
                ks = probe_label(schema, opts, label, "taxon", 0) if admissible(label) else None
                if ks is not None and not ks:
                    site_tag = "|internal-label-only"
            return "%s|label|%s|%s%s%s" % (schema, _kind_class(kind), feat, site_tag, opt_tag)
    tag = "|empty-list" if (not case["trees"] and kind.split(":")[0] in ("read-raises", "write-raises", "read-hangs")) else ""
    if case.get("layer") == "big":
        # 'large' only when a three-leaf tree under the same options does not fail the same way
        td = case["trees"][0]
        d = td.get("big", {})
        small = struct_case(schema, opts, ((0, 1), 2), td["rooted"], d.get("lens", "int_root"), d.get("imode", "off"))
        ks = kinds_of(small)
        if not (ks is not None and kind in ks):
            tag += "|large"
    return "%s|%s%s%s" % (schema, kind, tag, opt_tag)


def check(case, ctx, key=None, nontrivial=True, sample=False):
    """evaluate one case, report violations; returns True when the case was applicable"""
    probs, info = evaluate(case, want_text=sample)
    if probs is None:
        ctx.count("inapplicable_option_sets")
        return False
    if key is not None:
        ctx.case(key, nontrivial=nontrivial)
    ctx.count("round_trips")
    ctx.count("round_trips_" + case["schema"])
    ctx.count("round_trips_layer_" + case.get("layer", "struct"))
    if info.get("weights_changed"):
        ctx.count("weights_changed", info["weights_changed"])
    if sample and "text" in info:
        text = info["text"]
        if case["schema"] == "nexml" and "<otus" in text:
            text = "... " + text[text.index("<otus"):]
        ctx.sample({"schema": case["schema"], "layer": case.get("layer"),
                    "source": [[td["rooted"], ref.to_newick(sn_of(td), True)[:300]] for td in case["trees"]],
                    "options": {"writer": info["wkw"], "reader": info["rkw"],
                                "into_source_namespace": "into_ns" in case["opts"]},
                    "written": text if len(text) < 900 else text[:900] + "...",
                    "verdict": "equal" if not probs else [k for k, _ in probs]}, 4)
    for kind, msg in probs:
        sig = signature(case, kind)
        ctx.violation(sig, "%s %s (writer %r, reader %r%s): %s" % (
            case["schema"], "tree list" if case.get("api") == "list" else "tree", info.get("wkw"), info.get("rkw"),
            ", taxon_namespace=<source namespace>" if "into_ns" in case["opts"] else "", msg), case)
    return True


# ---------------------------------------------------------------------------
# struct layer

def lens_fn(name):
    if name == "absent":
        return None
    if name == "zero":
        return 0
    if name == "int":
        return lambda i, leaf, d: None if i == 0 else i
    if name == "int_root":
        return lambda i, leaf, d: -3 if i == 2 else i + 1
    if name == "sci":
        return lambda i, leaf, d: None if i == 0 else SCI[(i - 1) % len(SCI)]
    if name == "sci_root":
        return lambda i, leaf, d: SCI[i % len(SCI)]
    if name == "mixed":
        return lambda i, leaf, d: (None, 0.0, i * 0.25)[i % 3]
    if name == "mixed_root":
        return lambda i, leaf, d: (i + 1, None)[i % 2]
    raise ValueError(name)


def make_sn(shape, lens, imode):
    sn = ref.mk(shape, lens=lens_fn(lens), ilabels=(lambda i: "n%d" % i) if imode != "off" else None)
    if imode == "taxa":
        def conv(nd):
            if nd[3]:
                return ("i" + nd[1][1:], None, nd[2], tuple(conv(c) for c in nd[3]))
            return nd
        sn = conv(sn)
    return sn


def struct_case(schema, opts, shape, rooted, lens, imode, nscfg="exact", widx=0):
    sn = make_sn(shape, lens, imode)
    labels = [l for l in ref.leaves(sn)]
    labels = sorted(set(labels))
    if imode == "taxa":
        labels += [nd[0] for nd in ref.preorder(sn) if nd[3]]
    td = {"rooted": rooted, "sn": sn}
    if "weights" in opts:
        td["weight"] = WEIGHTS[widx % 3]
    return {"kind": "rt", "layer": "struct", "schema": schema, "opts": list(opts), "api": "tree",
            "ns": {"cfg": nscfg, "labels": labels}, "trees": [td]}


MID_OPTS = {"newick": [(), ("into_ns",), ("sr-force",)],
            "nexus": [(), ("translate",), ("into_ns", "translate"), ("sr-default",)],
            "nexml": [(), ("into_ns",)]}
LITE_OPTS = {"newick": [()], "nexus": [()], "nexml": [()]}


def profile(n, which, b):
    """(drawings function, [(lens, imode, rooting)], option sets) for trees of n leaves"""
    if which == "unif":
        return ([(l, m, r) for l in ("absent", "int_root", "mixed") for m in ("off", "labels") for r in ROOTINGS], UNIF_OPTS)
    if n <= 4:
        return ([(l, m, r) for l in LENS for m in IMODES for r in ROOTINGS], STRUCT_OPTS)
    if n <= b["struct_max_leaves_all_orders"]:
        return ([(l, m, r) for l in ("absent", "int_root", "sci", "mixed") for m in IMODES for r in ROOTINGS], MID_OPTS)
    return ([(l, m, r) for l in ("absent", "int_root", "mixed") for m in ("off", "labels") for r in ROOTINGS], LITE_OPTS)


def drawings(n, si, b, which):
    shape = U.shapes(n)[si]
    if which == "orders":
        if n <= b["struct_max_leaves_all_orders"]:
            return sorted(set(U.all_orders(shape)), key=repr)
        return [shape, U.reverse_all(shape)]
    k = 2 if n <= 4 else 1
    return U.with_unifurcations(shape, k, (1, 2) if n <= 3 else (1,))


def run_struct(chunk, ctx):
    b = bounds(chunk["tier"])
    n = chunk["n"]
    combos, optsets = profile(n, chunk["which"], b)
    for si in range(chunk["lo"], chunk["hi"]):
        ds = drawings(n, si, b, chunk["which"])
        for di, d in enumerate(ds):
            ctx.count("drawings_" + chunk["which"])
            for ci, (lens, imode, rooted) in enumerate(combos):
                for schema in SCHEMAS:
                    for opts in optsets[schema]:
                        case = struct_case(schema, opts, d, rooted, lens, imode, widx=ci + di)
                        smp = (n >= 3 and di == 0 and si == chunk["lo"] and rooted is True and imode == "labels"
                               and lens in ("sci", "mixed") and opts in ((), ("translate",)))
                        check(case, ctx, ("s", d, rooted, lens, imode, schema, opts), n >= 3, sample=smp)
            if chunk["which"] == "orders" and n <= b["ns_configs_up_to_leaves"]:
                for cfg in b["ns_configs"]:
                    if cfg == "exact":
                        continue
                    for (lens, imode, rooted) in (("int", "off", True), ("absent", "labels", False), ("sci_root", "taxa", None)):
                        for schema in SCHEMAS:
                            for opts in NSCFG_OPTS[schema]:
                                case = struct_case(schema, opts, d, rooted, lens, imode, nscfg=cfg)
                                if check(case, ctx, ("sn", d, rooted, lens, imode, schema, opts, cfg), n >= 3):
                                    ctx.count("namespace_config_cases")


# ---------------------------------------------------------------------------
# list layer

def pool():
    a = make_sn(((0, 1), (2, 3)), "int", "off")
    b_ = make_sn((0, 1, 2, 3), "absent", "labels")
    c = make_sn((0, (1, (2, 3))), "sci_root", "off")
    d = make_sn((3, (2, (1, 0))), "mixed", "labels")
    e = make_sn(((1, 2), 3), "int_root", "off")
    f = make_sn(0, "absent", "off")
    return [(True, a), (False, b_), (None, c), (True, d), (False, e), (True, f)]


LIST_OPTS = {
    "newick": [(), ("into_ns",), ("weights",), ("sr-force",), ("opp-default",)],
    "nexus": [(), ("into_ns",), ("translate",), ("translate", "weights"), ("sr-default",), ("opp-default", "translate")],
    "nexml": [(), ("into_ns",)],
}


def list_case(schema, opts, idxs, nscfg):
    P = pool()
    trees = []
    for j, i in enumerate(idxs):
        td = {"rooted": P[i][0], "sn": P[i][1]}
        if "weights" in opts:
            td["weight"] = WEIGHTS[(i + j) % 3]
        trees.append(td)
    return {"kind": "rt", "layer": "list", "schema": schema, "opts": list(opts), "api": "list",
            "ns": {"cfg": nscfg, "labels": list(U.LABELS[:4])}, "trees": trees, "pool": list(idxs)}


def run_list(chunk, ctx):
    first = chunk["first"]
    tuples = []
    for L in range(0, 4):
        for idxs in itertools.product(range(6), repeat=L):
            if (idxs[0] if idxs else -1) == first:
                tuples.append(idxs)
    for idxs in tuples:
        ctx.count("tree_lists")
        for schema in SCHEMAS:
            for opts in LIST_OPTS[schema]:
                for cfg in ("exact", "extra_high", "reversed", "removed_low"):
                    if cfg != "exact" and (len(idxs) > 2):
                        continue
                    case = list_case(schema, opts, idxs, cfg)
                    check(case, ctx, ("l", idxs, schema, opts, cfg), len(idxs) >= 1, sample=(idxs == (first, 1) and not opts and cfg == "exact"))
                if not idxs:
                    # the empty list over an empty namespace: TreeList()
                    case = list_case(schema, opts, idxs, "exact")
                    case["ns"]["labels"] = []
                    check(case, ctx, ("l0", schema, opts), True)


# ---------------------------------------------------------------------------
# label layer

def single_forms(c):
    return [c, "x" + c, c + "x", "x" + c + "y", c + c, c + " " + c, "x" + c + c + "y", "x " + c + " y", c + "x" + c]


def run_labels(labels, ctx, positions_for=None):
    for label, allpos in labels:
        if not admissible(label):
            ctx.count("inadmissible_labels_skipped")
            continue
        ctx.count("labels")
        nontriv = bool(specials_of(label))
        for schema in SCHEMAS:
            for opts in LABEL_OPTS[schema]:
                for site in ("taxon", "internal"):
                    for pos in ((0, 1, 2) if (allpos and site == "taxon") else (0,)):
                        case = label_case(schema, opts, label, site, pos)
                        check(case, ctx, ("b", label, schema, opts, site, pos), nontriv, sample=(label in ("x'y", "x[_y") and site == "taxon" and pos == 0 and not opts))


def run_label1(chunk, ctx):
    labels = []
    for c in SINGLE_CHARS[chunk["lo"]:chunk["hi"]]:
        ctx.count("single_characters")
        seen = set()
        for fi, f in enumerate(single_forms(c)):
            if f in seen:
                continue
            seen.add(f)
            labels.append((f, fi in (0, 3)))
    run_labels(labels, ctx)


def run_label2(chunk, ctx):
    labels = []
    c1 = SPECIALS[chunk["i"]]
    for c2 in SPECIALS:
        ctx.count("special_character_pairs")
        for f in ("x" + c1 + c2 + "y", c1 + c2, c1 + "x" + c2):
            labels.append((f, False))
    run_labels(labels, ctx)


def run_label3(chunk, ctx):
    labels = []
    c1 = SPECIALS[chunk["i"]]
    for c2 in SPECIALS[chunk["lo"]:chunk["hi"]]:
        for c3 in SPECIALS:
            ctx.count("special_character_triples")
            for f in ("x" + c1 + c2 + c3 + "y", c1 + c2 + c3):
                labels.append((f, False))
    run_labels(labels, ctx)


# ---------------------------------------------------------------------------
# write-sequence layer: state that a write leaves behind in the process must not change a later
# write.  A case = [write W1 = (schema1, options1); write the same / a fresh equal-labelled tree with
# W2 = (schema2, options2); read the second text back with the matching reader options].  Every case
# primes itself, and every case uses label texts of its own (a unique alphanumeric suffix), so that
# state keyed by label text cannot leak from one case into another.

SEQ_TEMPLATES = ["Homo_sapiens#", "Homo sapiens#", "H_s x#", "it's#", "a_b'c#", "plain#"]
SEQ_WRITES = ([("newick", o) for o in ((), ("ps",), ("uu",), ("ps", "uu"))]
              + [("nexus", o) for o in ((), ("ps",), ("uu",), ("ps", "uu"), ("translate",), ("ps", "translate"),
                                        ("translate", "uu"), ("ps", "translate", "uu"))]
              + [("nexml", ())])
_probe_tag = [0]


def seq_case(w1, w2, template, site, reuse, tag):
    label = template.replace("#", tag)
    case = label_case(w2[0], w2[1], label, site, 1 if site == "taxon" else 0)
    case["layer"] = "seq"
    case["prime"] = {"schema": w1[0], "opts": list(w1[1]), "reuse": bool(reuse)}
    case["template"] = template
    case["tag"] = tag
    return case


def _seq_probe(case, w1, w2, kind):
    """does the same kind of failure appear for the pair (w1, w2) on a label text never used before?"""
    _probe_tag[0] += 1
    c = seq_case(w1, w2, case["template"], case["site"], case["prime"].get("reuse"), case["tag"] + "P%d" % _probe_tag[0])
    ks = kinds_of(c)
    return ks is not None and any(_kind_class(k) == _kind_class(kind) for k in ks)


def seq_signature(case, kind):
    """write-sequence|<schema1>:<options1>-><schema2>:<options2>|<kind>, options reduced greedily to
    those the failure needs (probed on fresh label texts); 'no-first-write-needed' if it fails alone."""
    w1 = (case["prime"]["schema"], list(case["prime"]["opts"]))
    w2 = (case["schema"], list(case["opts"]))
    single = dict(case)
    single.pop("prime")
    _probe_tag[0] += 1
    single = label_case(w2[0], w2[1], case["template"].replace("#", case["tag"] + "P%d" % _probe_tag[0]), case["site"],
                        case.get("pos", 0))
    ks = kinds_of(single)
    if ks is not None and any(_kind_class(k) == _kind_class(kind) for k in ks):
        return "write-sequence|no-first-write-needed|%s:%s|%s" % (w2[0], "+".join(sorted(w2[1])) or "default", _kind_class(kind))
    for g in sorted(w1[1]):
        trial = (w1[0], [o for o in w1[1] if o != g])
        if _seq_probe(case, trial, w2, kind):
            w1 = trial
    for g in sorted(w2[1]):
        trial = (w2[0], [o for o in w2[1] if o != g])
        if _seq_probe(case, w1, trial, kind):
            w2 = trial
    return "write-sequence|%s:%s->%s:%s|%s" % (w1[0], "+".join(sorted(w1[1])) or "default",
                                               w2[0], "+".join(sorted(w2[1])) or "default", _kind_class(kind))


def run_seq(chunk, ctx):
    i1 = chunk["first"]
    w1 = SEQ_WRITES[i1]
    for i2, w2 in enumerate(SEQ_WRITES):
        ctx.count("write_pairs")
        for ti, template in enumerate(SEQ_TEMPLATES):
            for si, site in enumerate(("taxon", "internal")):
                for reuse in (0, 1):
                    tag = "Q%dx%dx%d%d%d" % (i1, i2, ti, si, reuse)
                    case = seq_case(w1, w2, template, site, reuse, tag)
                    if check(case, ctx, ("seq", i1, i2, ti, si, reuse), True,
                             sample=(i1 == 3 and i2 == 1 and ti == 0 and si == 0 and reuse == 0)):
                        ctx.count("write_sequences")


# ---------------------------------------------------------------------------
# large representatives (size-triggered defects: multi-digit taxon numbers, string-vs-number
# ordering, recursion depth, long tokens).  Exhaustive over the stated finite set only.

BIG_TREES = ([("ladder-left", k) for k in (12, 17, 33, 40, 65)] + [("ladder-right", k) for k in (12, 17, 33, 40, 65)]
             + [("balanced", k) for k in (16, 32, 64)] + [("star", k) for k in (12, 33, 40, 100)] + [("broom", 60)])
BIG_LABELS = ("t000", "numbers", "sortmix")
BIG_VARIANTS = [("int_root", "off", True, "exact"), ("mixed", "labels", False, "reversed"), ("sci", "labels", None, "sorted_after")]
BIG_OPTS = {"newick": [(), ("into_ns",)],
            "nexus": [(), ("translate",), ("into_ns", "translate"), ("translate-dict",)],
            "nexml": [(), ("into_ns",)]}
BIG_LIST = [("star", 100), ("ladder-left", 65), ("balanced", 64)]
BIG_LIST_OPTS = {"newick": [(), ("into_ns",)], "nexus": [(), ("translate",), ("translate", "weights")],
                 "nexml": [(), ("into_ns",)]}
DEEP = [("ladder-left", 300), ("ladder-right", 300)]
LONG_LABELS = [("Abcdefghij" * 20), ("ab c_d'e " * 23)[:199] + "z"]


def big_shape(kind, n):
    if kind == "ladder-left":
        s = 0
        for i in range(1, n):
            s = (s, i)
        return s
    if kind == "ladder-right":
        s = n - 1
        for i in range(n - 2, -1, -1):
            s = (i, s)
        return s
    if kind == "balanced":
        def bal(lo, hi):
            if hi - lo == 1:
                return lo
            mid = (lo + hi) // 2
            return (bal(lo, mid), bal(mid, hi))
        return bal(0, n)
    if kind == "star":
        return tuple(range(n))
    if kind == "broom":         # a ladder of 20 tips whose deepest node is a star of n - 20 tips
        s = tuple(range(n - 20))
        for i in range(n - 20, n):
            s = (s, i)
        return s
    raise ValueError(kind)


def big_labels(scheme, n):
    """n distinct leaf labels.  't000': t000..; 'numbers': the plain numbers 1..n rotated by three (so a
    label never equals its taxon's number), every third one zero-padded ('10' and '010'-style labels coexist);
    'sortmix': s<k> in a scrambled order (string order != numeric order != namespace order)."""
    if scheme == "t000":
        return ["t%03d" % i for i in range(n)]
    if scheme == "numbers":
        return [("%03d" % k) if i % 3 == 1 else str(k) for i, k in enumerate(((j + 3) % n + 1) for j in range(n))]
    if scheme == "sortmix":
        return ["s%d" % ((i * 7) % n + 1) for i in range(n)]
    raise ValueError(scheme)


def big_sn(desc):
    kind, n = desc["shape"]
    labels = big_labels(desc["labels"], desc.get("label_n", n))
    il = None
    if desc.get("imode") == "labels":
        il = (lambda i: str(i + 1)) if desc["labels"] == "numbers" else (lambda i: "n%d" % i)
    return ref.mk(big_shape(kind, n), lens=lens_fn(desc.get("lens", "int_root")), labels=labels, ilabels=il)


def big_case(schema, opts, trees, nscfg, scheme, label_n, api="tree", deep=False):
    tds = []
    for j, (kind, n, lens, imode, rooted) in enumerate(trees):
        td = {"rooted": rooted, "big": {"shape": [kind, n], "labels": scheme, "label_n": label_n, "lens": lens, "imode": imode}}
        if "weights" in opts:
            td["weight"] = WEIGHTS[j % 3]
        tds.append(td)
    case = {"kind": "rt", "layer": "big", "schema": schema, "opts": list(opts), "api": api,
            "ns": {"cfg": nscfg, "labels": big_labels(scheme, label_n)}, "trees": tds}
    if deep:
        case["user_recursion_limit"] = 1000
    return case


def run_big(chunk, ctx):
    what = chunk["what"]
    if what == "tree":
        kind, n = BIG_TREES[chunk["index"]]
        for scheme in BIG_LABELS:
            for vi, (lens, imode, rooted, nscfg) in enumerate(BIG_VARIANTS):
                for schema in SCHEMAS:
                    for opts in BIG_OPTS[schema]:
                        case = big_case(schema, opts, [(kind, n, lens, imode, rooted)], nscfg, scheme, n)
                        if check(case, ctx, ("big", kind, n, scheme, vi, schema, opts), True,
                                 sample=(scheme == "numbers" and vi == 0 and opts == ("translate",) and n <= 12)):
                            ctx.count("large_tree_round_trips")
        ctx.maximum("largest_tree_leaves", n)
        return
    if what == "list":
        for scheme in BIG_LABELS:
            for ri, rootings in enumerate(((True, False, None), (False, False, False))):
                trees = [(k, n, ("int_root", "mixed", "sci")[j], ("off", "labels", "off")[j], rootings[j])
                         for j, (k, n) in enumerate(BIG_LIST)]
                for schema in SCHEMAS:
                    for opts in BIG_LIST_OPTS[schema]:
                        case = big_case(schema, opts, trees, "exact", scheme, 100, api="list")
                        if check(case, ctx, ("biglist", scheme, ri, schema, opts), True):
                            ctx.count("large_list_round_trips")
        return
    if what == "deep":
        for kind, n in DEEP:
            for schema in SCHEMAS:
                case = big_case(schema, (), [(kind, n, "int_root", "off", True)], "exact", "t000", n, deep=True)
                if check(case, ctx, ("deep", kind, n, schema), True):
                    ctx.count("deep_nesting_round_trips")
            ctx.maximum("deepest_nesting", n - 1)
        return
    if what == "long":
        for li, lab in enumerate(LONG_LABELS):
            for schema in SCHEMAS:
                for opts in BIG_OPTS[schema]:
                    for site in ("taxon", "internal"):
                        case = label_case(schema, opts, lab, site, 1 if site == "taxon" else 0)
                        case["layer"] = "big"
                        if check(case, ctx, ("long", li, schema, opts, site), True):
                            ctx.count("long_label_round_trips")
            ctx.maximum("longest_label", len(lab))
        return
    raise ValueError(what)


# ---------------------------------------------------------------------------

def chunks(tier):
    b = bounds(tier)
    out = []
    nmax = max([b["struct_max_leaves_all_orders"]] + b["struct_base_and_reversed_leaves"])
    for n in range(1, nmax + 1):
        ns = len(U.shapes(n))
        step = 30 if n <= 3 else (1 if n <= 5 else 50)
        for lo in range(0, ns, step):
            out.append({"kind": "struct", "which": "orders", "n": n, "lo": lo, "hi": min(ns, lo + step), "tier": tier})
    for n in range(1, b["unifurcation_max_leaves"] + 1):
        ns = len(U.shapes(n))
        step = 30 if n <= 3 else (2 if n == 4 else 6)
        for lo in range(0, ns, step):
            out.append({"kind": "struct", "which": "unif", "n": n, "lo": lo, "hi": min(ns, lo + step), "tier": tier})
    for i in range(len(SEQ_WRITES)):
        out.append({"kind": "seq", "first": i, "tier": tier})
    for i in range(len(BIG_TREES)):
        out.append({"kind": "big", "what": "tree", "index": i, "tier": tier})
    for what in ("list", "deep", "long"):
        out.append({"kind": "big", "what": what, "tier": tier})
    for first in range(-1, 6):
        out.append({"kind": "list", "first": first, "tier": tier})
    for lo in range(0, len(SINGLE_CHARS), 4):
        out.append({"kind": "label1", "lo": lo, "hi": min(len(SINGLE_CHARS), lo + 4), "tier": tier})
    for i in range(len(SPECIALS)):
        out.append({"kind": "label2", "i": i, "tier": tier})
    if b["label_tuple_max"] >= 3:
        for i in range(len(SPECIALS)):
            for lo in range(0, len(SPECIALS), 7):
                out.append({"kind": "label3", "i": i, "lo": lo, "hi": min(len(SPECIALS), lo + 7), "tier": tier})
    return out


def run_chunk(chunk, ctx):
    k = chunk["kind"]
    if k == "struct":
        run_struct(chunk, ctx)
    elif k == "seq":
        run_seq(chunk, ctx)
    elif k == "big":
        run_big(chunk, ctx)
    elif k == "list":
        run_list(chunk, ctx)
    elif k == "label1":
        run_label1(chunk, ctx)
    elif k == "label2":
        run_label2(chunk, ctx)
    elif k == "label3":
        run_label3(chunk, ctx)
    else:
        raise ValueError(k)
    return None


def replay(case, ctx):
    if case.get("kind") != "rt":
        raise ValueError("unknown case kind %r" % case.get("kind"))
    case = dict(case)
    case["trees"] = [dict(td, sn=tup(td["sn"])) if "sn" in td else dict(td) for td in case["trees"]]
    if not check(case, ctx):
        raise ValueError("case is not applicable (inconsistent option set)")
